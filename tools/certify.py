"""Certified verdicts for small assertion sets: `unsat` certified by the Lean machine accepting the trace of a fresh
run, `sat` certified by the Lean evaluator validating the printed model. Used as ground truth by C06-C09."""
import os
import common, runner, trace, modelcheck


def verdict(decl_lines, assertion_texts, logic_line, binary=None, timeout=20):
    """returns one of 'unsat-certified', 'sat-certified', 'unsat-uncertified', 'sat-uncertified', 'unknown'"""
    binary = binary or common.opensmt_bin("hooks")
    body = [logic_line] + list(decl_lines) + [f"(assert {a})" for a in assertion_texts]
    script = "\n".join(["(set-option :print-success true)", "(set-option :produce-models true)"] + body + ["(check-sat)", "(get-model)"]) + "\n"
    tp = common.WORK / f"cert-{os.getpid()}.trace"
    tp.unlink(missing_ok=True)
    out, err, rc = runner.run_opensmt(binary, script, tp, timeout=timeout)
    ans = runner.answers(out)
    if rc == "timeout" or not ans:
        tp.unlink(missing_ok=True)
        return "unknown"
    if ans[0] == "unsat":
        ok = False
        if tp.exists():
            tr = trace.Trace(tp)
            ok = all(runner.lean_replay(tr, sid, work_name=f"cert-{os.getpid()}")[0].startswith("OK") for sid in tr.order)
        tp.unlink(missing_ok=True)
        return "unsat-certified" if ok else "unsat-uncertified"
    tp.unlink(missing_ok=True)
    if ans[0] == "sat":
        try:
            n, problems, _ = modelcheck.check_models(script, out)
        except Exception:
            return "sat-uncertified"
        return "sat-certified" if n == 1 and not problems else "sat-uncertified"
    return "unknown"
