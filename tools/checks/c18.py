"""C18 (partial): the executable on arbitrary input text. Grammar-generated scripts and files of the regression corpus are
mutated (bytes, tokens, parentheses, command order, unsupported queries) and given to a sanitizer build of the executable as
a file and through a pipe. Required: normal termination (status 0 or 1, no signal, no sanitizer report, no timeout on
scripts without check-sat), and the status contract of the exit-status machine: status 0 exactly when no diagnostic was
printed; input that is lexically broken (unbalanced) must get a diagnostic."""
import multiprocessing as mp, os, random, re, subprocess
import common, gen, smtlib

THEOREMS = ["Osmt.Properties.C18_exit_zero_iff_no_error", "Osmt.Properties.C18_frames_chunk_independent"]
LOGICS = ["QF_UF", "QF_LRA", "QF_LIA", "QF_IDL", "QF_RDL", "QF_UFLRA", "QF_UFLIA", "QF_BOOL", "QF_AX", "QF_ALIA", "QF_BV"]
EXTRA_CMDS = ["(get-model)", "(get-value (x0))", "(get-unsat-core)", "(get-proof)", "(get-interpolants N1 N2)", "(get-info :status)",
              "(get-option :produce-models)", "(set-option :produce-models true)", "(set-option :produce-proofs true)", "(push 1)", "(pop 1)",
              "(pop 3)", "(exit)", "(echo \"a \\\" b\")", "(define-fun d1 ((a Bool)) Bool (not a))", "(declare-sort S 0)", "(simplify)",
              "(set-info :status sat)", "(assert (= (/ x0 0) 1))", "(assert (= (div x0 0) 1))", "(assert (= (mod x0 0) 1))", "(assert (* x0 x1))",
              "(check-sat-assuming (b0))", "(reset)", "(get-assertions)", "(set-option :random-seed 3)", "(assert (! b0 :named N1))",
              "(assert (! (not b0) :named N2))", "(set-logic QF_LRA)", "(declare-const c1 Bool)", "(declare-fun arr () (Array Int Int))",
              "(assert (= (select arr 0) 1))", "(assert (bvult #b0101 #x5))", "(get-value (b0 (not b0)))", "(set-option :produce-interpolants true)",
              "(set-option :produce-unsat-cores true)", "(set-option :interpolation-lra-factor \"1\")", "(set-option :incremental false)",
              # commands that are almost right: wrong number of groups / arguments / attribute values, unbuildable terms, awkward tokens
              "(get-interpolants N1)", "(get-interpolants)", "(get-value (1.5))", "(get-value ((as x0 Int)))", "(get-value ((as b0 Bool) (as x0 Real)))",
              "(assert (! b0 :named))", "(assert (! b0 :named %s))", "(assert (! b0 :named |%d %s|))", "(assert %s)", "(assert (%d%s true))",
              "(set-option :produce-assignments true)", "(get-assignment)", "(declare-fun a2 () (Int Int))", "(declare-fun a3 () (Array Int))",
              "(declare-sort P 1)", "(declare-fun a4 () (P Int))", "(declare-fun a5 () P)", "(assert (= x0 (div x0)))", "(assert (= x0 (div x0 2 3)))",
              "(assert (= x0 (mod x0)))", "(assert (= x0 (- x0)))", "(assert (= x0 (/ x0)))", "(set-option :random-seed -7)", "(set-option :random-seed 0)",
              "(echo \"x\\y\")", "(echo \"a\\\\b\")", "(assert (= x0 007))", "(assert (= x0 -0))", "(assert (> x0 00.50))", "(assert (= x0 1/00))",
              "(get-value ((! b0 :named vv)))", "(assert (= (mod 5 0) 1))", "(assert (= (div 5 0) 1))", "(assert (= (/ 5 0) 1))", "(assert (= (mod 0 0) 0))",
              "(assert (= x0 (mod (- 7) 0)))", "(assert (= (/ 5.0 0.0) 1.0))", "(assert (forall ((y Int)) true))", "(assert (let ((true false)) true))", "(declare-fun x0 () Bool)",
              "(declare-fun |a b| () Int)", "(declare-fun |a b| () Bool)", "(assert (as |a b| Bool))", "(push 100000)", "(check-sat-assuming ())"]


def base_script(rng, corpus_files):
    if corpus_files and rng.random() < 0.35:
        try:
            return open(rng.choice(corpus_files), errors="replace").read()[:6000]
        except OSError:
            pass
    logic = rng.choice(LOGICS)
    glogic = logic if logic in ("QF_UF", "QF_LRA", "QF_LIA", "QF_IDL", "QF_RDL", "QF_UFLRA", "QF_UFLIA", "QF_BOOL") else "QF_LIA"
    p = gen.Problem(glogic, rng)
    lines = ([f"(set-option {o})" for o in rng.sample([":produce-models true", ":produce-unsat-cores true", ":produce-proofs true",
                                                       ":produce-interpolants true", ":print-success true"], rng.randint(0, 2))]
             + [f"(set-logic {logic})"] + p.decls)
    for _ in range(rng.randint(2, 9)):
        c = rng.random()
        if c < 0.55:
            lines.append(f"(assert {gen.smt(p.fla(rng.randint(0, 2)))})")
        elif c < 0.7:
            lines.append("(check-sat)")
        else:
            lines.append(rng.choice(EXTRA_CMDS))
    if rng.random() < 0.7:
        lines.append("(check-sat)")
        lines.append(rng.choice(EXTRA_CMDS))
    return "\n".join(lines) + "\n"


def mutate(rng, text):
    k = rng.randint(0, 14)
    if not text:
        return text
    if k == 14:                                       # commands (and the options they need) before the logic is set, or after a logic that is refused
        ls = text.split("\n")
        i = next((j for j, l in enumerate(ls) if l.startswith("(set-logic")), None)
        if i is not None:
            pre = rng.sample(["(set-option :produce-unsat-cores true)", "(set-option :produce-models true)", "(set-option :produce-interpolants true)",
                              "(set-option :produce-proofs true)", "(set-option :produce-assignments true)", "(get-unsat-core)", "(get-model)", "(get-proof)",
                              "(get-interpolants N1 N2)", "(get-assignment)", "(get-value (x0))", "(check-sat)", "(push 1)", "(pop 1)", "(assert true)",
                              "(declare-fun q9 () Bool)", "(define-fun d9 () Bool true)", "(get-info :status)", "(simplify)", "(reset)", "(exit)"[:0] or "(echo \"x\")"],
                             rng.randint(1, 5))
            if rng.random() < 0.3:
                ls[i] = rng.choice(["(set-logic QF_NRA)", "(set-logic NOSUCHLOGIC)", "(set-logic)", "(set-logic QF_UF QF_LRA)"])
                return "\n".join(ls[:i + 1] + pre + ls[i + 1:])
            return "\n".join(ls[:i] + pre + ls[i:])
        return text
    if k == 10:                                       # a symbol is replaced by a token that is awkward for printing / scanning / arithmetic
        toks = re.findall(r"(?<![\w.|])[A-Za-z][A-Za-z0-9_]*(?![\w.|])", text)
        if toks:
            a = rng.choice(toks)
            return text.replace(a, rng.choice(["%s", "%d%s", "%n", "|%s %d|", "007", "-0", "00.5", "1/00", "(as x0 Int)", "(as b0 Bool)", "|x y|", ":named", "!"]), 1)
        return text
    if k == 11:                                       # one argument of an application is dropped or repeated
        opens = [i for i, c in enumerate(text) if c == "("]
        for _try in range(6):
            if not opens:
                break
            i = rng.choice(opens)
            depth, j = 0, i
            while j < len(text):
                depth += text[j] == "("; depth -= text[j] == ")"
                if depth == 0:
                    break
                j += 1
            inner_txt = text[i + 1:j]
            items, d, cur = [], 0, ""
            for c in inner_txt:
                if c in " \n\t" and d == 0:
                    if cur: items.append(cur); cur = ""
                    continue
                d += c == "("; d -= c == ")"; cur += c
            if cur: items.append(cur)
            if len(items) >= 2 and j < len(text):
                n = rng.randrange(1, len(items))
                if rng.random() < 0.5:
                    del items[n]
                else:
                    items.insert(n, items[n])
                return text[:i] + "(" + " ".join(items) + ")" + text[j + 1:]
        return text
    if k == 12:                                       # text after the last command / other line ends
        return text + rng.choice(["foo \"bar\" #b2\n", "x\n", ")\n", "(\n", "; only a comment\n", "  \n\t\n"]) if rng.random() < 0.6 else text.replace("\n", "\r\n")
    if k == 13:                                       # the same name with another sort, used qualified afterwards
        m = re.search(r"\(declare-fun (\S+) \(\) (Int|Real|Bool)\)", text)
        if m:
            other = "Bool" if m.group(2) != "Bool" else "Int"
            return text.replace(m.group(0), m.group(0) + f"\n(declare-fun {m.group(1)} () {other})\n(assert (= (as {m.group(1)} {m.group(2)}) (as {m.group(1)} {m.group(2)})))", 1)
        return text
    if k == 0:
        return text                                   # unmutated
    if k == 1:                                        # delete a span of bytes
        i = rng.randrange(len(text)); return text[:i] + text[i + rng.randint(1, 6):]
    if k == 2:                                        # insert noise
        i = rng.randrange(len(text)); return text[:i] + rng.choice(["(", ")", "\"", "|", ";", "\\", "#", "\x00", "\xff", "))", "((", " ! ", ":named", "-", "0x", "1/0"]) + text[i:]
    if k == 3:                                        # truncate
        return text[:rng.randrange(len(text))]
    if k == 4:                                        # swap two lines
        ls = text.split("\n")
        if len(ls) > 2:
            i, j = rng.sample(range(len(ls)), 2); ls[i], ls[j] = ls[j], ls[i]
        return "\n".join(ls)
    if k == 5:                                        # replace a token by another token of the text
        toks = re.findall(r"[^\s()]+", text)
        if len(toks) > 2:
            a, b = rng.sample(toks, 2)
            return text.replace(a, b, 1)
        return text
    if k == 6:                                        # duplicate a line
        ls = text.split("\n"); i = rng.randrange(len(ls)); ls.insert(i, ls[i]); return "\n".join(ls)
    if k == 7:                                        # drop the set-logic or a declaration
        ls = [l for l in text.split("\n")]
        cand = [i for i, l in enumerate(ls) if l.startswith(("(set-logic", "(declare-"))]
        if cand:
            del ls[rng.choice(cand)]
        return "\n".join(ls)
    if k == 8:                                        # huge numeral / deep nesting
        return text.replace("1", "1" * rng.choice([20, 60, 400]), 1) if rng.random() < 0.5 else "(assert " + "(not " * 300 + "true" + ")" * 300 + ")\n" + text
    i = rng.randrange(len(text))                      # flip one byte
    return text[:i] + chr(rng.randrange(1, 256)) + text[i + 1:]


DIAG = re.compile(r"^\(error |^At line \d+:|^At interactive input:|^Syntax error at line \d+", re.M)


def lexically_broken(text):
    """unbalanced parentheses, or the text ends inside a string / quoted symbol, in opensmt's own lexical conventions
    (comments to the end of the line, |...| symbols, "..." strings with backslash escapes): the scanner mirrored in Osmt/Pipe.lean"""
    par, comment, qsym, string, esc = 0, False, False, False, False
    for c in text:
        if comment:
            comment = c != "\n"; continue
        if qsym:
            qsym = c != "|"; continue
        if string:
            if esc: esc = False
            elif c == "\\": esc = True
            elif c == '"': string = False
            continue
        if c == ";": comment = True
        elif c == "|": qsym = True
        elif c == '"': string = True
        elif c == "(": par += 1
        elif c == ")":
            par -= 1
            if par < 0:
                return True
    return par != 0 or qsym or string


def trailing_garbage(text):
    """the text is lexically balanced but something other than white space and comments follows its last command"""
    par, comment, qsym, string, esc, last = 0, False, False, False, False, -1
    for i, c in enumerate(text):
        if comment:
            comment = c != "\n"; continue
        if qsym:
            qsym = c != "|"; continue
        if string:
            if esc: esc = False
            elif c == "\\": esc = True
            elif c == '"': string = False
            continue
        if c == ";": comment = True
        elif c == "|": qsym = True
        elif c == '"': string = True
        elif c == "(": par += 1
        elif c == ")":
            par -= 1
            if par == 0: last = i
    if par != 0 or qsym or string or last < 0:
        return False
    rest = re.sub(r";[^\n]*", "", text[last + 1:])
    return bool(rest.strip(" \t\n\r"))


def run_one(binary, data, mode, timeout):
    env = dict(os.environ, ASAN_OPTIONS="detect_leaks=0:abort_on_error=0:exitcode=99", UBSAN_OPTIONS="print_stacktrace=1:exitcode=98")
    p = common.WORK / f"c18-{os.getpid()}.smt2"
    try:
        if mode == "file":
            p.write_bytes(data)
            r = subprocess.run([str(binary), str(p)], capture_output=True, timeout=timeout, env=env)
        else:
            r = subprocess.run([str(binary), "-p"], input=data, capture_output=True, timeout=timeout, env=env)
        return r.returncode, r.stdout.decode("latin-1"), r.stderr.decode("latin-1")
    except subprocess.TimeoutExpired:
        return "timeout", "", ""
    finally:
        p.unlink(missing_ok=True)


def run_case(args):
    idx, seed, binary, corpus_files = args
    rng = random.Random(f"c18-{seed}-{idx}")
    if idx == "deep-nesting":
        text = "(set-logic QF_UF)\n(assert " + "(not " * 100000 + "true" + ")" * 100000 + ")\n(check-sat)\n"
    elif isinstance(idx, str):
        text = open(idx, errors="replace").read()
    else:
        text = base_script(rng, corpus_files)
        for _ in range(rng.choice([0, 1, 1, 2, 3])):
            text = mutate(rng, text)
    data = text.encode("latin-1", errors="replace")
    res = {"idx": idx, "input": text, "problems": [], "diag": 0, "modes": {}}
    has_check = "check-sat" in text
    for mode in ("file", "pipe"):
        rc, out, err = run_one(binary, data, mode, 20 if has_check else 10)
        if rc == "timeout" and not has_check:
            rc, out, err = run_one(binary, data, mode, 30)          # once more, alone in time: the machine may be loaded
        res["modes"][mode] = rc
        if rc == "timeout":
            if not has_check:
                res["problems"].append({"what": f"{mode} mode: a script without check-sat does not terminate within 30 s", "kind": "timeout"})
            continue
        if rc not in (0, 1):
            res["problems"].append({"what": f"{mode} mode: abnormal termination (status {rc}): {(err.strip().splitlines() or [''])[-1][:200] if rc not in (98, 99) else [l for l in err.splitlines() if 'ERROR' in l or 'runtime error' in l][:1]}",
                                    "kind": "crash", "stderr": err[-1500:]})
            continue
        ndiag = len(DIAG.findall(out))
        res["diag"] += ndiag
        if (rc == 0) != (ndiag == 0):
            res["problems"].append({"what": f"{mode} mode: exit status {rc} with {ndiag} diagnostics on standard output", "kind": "status",
                                    "stdout": out[-600:]})
        if trailing_garbage(text) and ndiag == 0 and "(exit)" not in text and "\x00" not in text:
            res["problems"].append({"what": f"{mode} mode: text that follows the last command gets no diagnostic", "kind": "silent",
                                    "stdout": out[-300:]})
        if lexically_broken(text) and ndiag == 0 and "(exit)" not in text:
            res["problems"].append({"what": f"{mode} mode: lexically broken input (unbalanced parentheses / quotes) gets no diagnostic", "kind": "silent",
                                    "stdout": out[-300:]})
    return res


def classify(pr, text):
    if pr.get("kind") == "crash" and text.count("(not (not (not (not") >= 1 and text.count("(not ") >= 50000:
        return "deep-nesting-stack-overflow"
    return None


def run(tier):
    chk = common.Check("C18", tier)
    chk.lean_obligations(THEOREMS)
    binary = common.opensmt_bin("asan")
    reg = common.REPO / "test" / "regression"
    corpus_files = sorted(str(f) for f in reg.rglob("*.smt2"))[:4000] if reg.exists() else []
    n = 320 if tier == "quick" else 8000
    own = sorted(str(f) for f in (common.VERIF / "corpus" / "C18").glob("*.smt2"))
    with mp.Pool(min(common.JOBS, 14)) as pool:
        results = pool.map(run_case, [(i, chk.seed, binary, corpus_files) for i in own + ["deep-nesting"] + list(range(n))], chunksize=2)
    diag = crashes = 0
    for r in results:
        diag += r["diag"]
        chk.case(key=(r["idx"], str(r["modes"]), r["diag"]), nontrivial=r["diag"] > 0,
                 sample={"input_head": r["input"][:160], "status": r["modes"], "diagnostics": r["diag"]} if r["diag"] else None)
        chk.obligation(not r["problems"])
        chk.cov["traces_validated_against_impl"] += 1
        for pr in r["problems"][:1]:
            chk.violation("executable", pr["what"], {"input": r["input"], "problem": pr}, match_key=classify(pr, r["input"]))
    chk.assumptions = ["crash freedom is searched for (mutation fuzzing under ASan/UBSan), not proved; the proved part is the exit-status "
                       "machine and the pipe scanner (C20)", "diagnostics are recognised by their textual form on standard output"]
    return chk.finish(level="proof", rule="one case = one input text (generated script or regression file, 0-3 mutations) run as a file and through "
                           "a pipe on the sanitizer build; non-trivial = the run printed at least one diagnostic",
                      extra={"diagnostics_seen": diag, "regression_files_available": len(corpus_files)})
