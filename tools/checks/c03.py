"""C03: printed models satisfy every current assertion; get-value agrees with the model (Lean evaluator)."""
import os, random, re, multiprocessing as mp
import common, gen, runner, modelcheck

THEOREMS = ["Osmt.Properties.C03_model_satisfies", "Osmt.Properties.C03_eval_and", "Osmt.Properties.C03_eval_ite"]
LOGICS = ["QF_BOOL", "QF_UF", "QF_LRA", "QF_LIA", "QF_RDL", "QF_IDL", "QF_UFLRA", "QF_UFLIA"]
VECTORS = [[], [":random-seed 5"], [":incremental false"], [":do-substitutions false"], [":produce-unsat-cores true"],
           [":pure-lookahead true"]]


def make_case(idx, seed, big):
    rng = random.Random(f"c03-{seed}-{idx}")
    logic = LOGICS[idx % len(LOGICS)]
    opts = [":print-success true", ":produce-models true"] + VECTORS[(idx // len(LOGICS)) % len(VECTORS)]
    if idx % 7 == 6 and logic in ("QF_UFLIA", "QF_UFLRA", "QF_UF"):
        # numeric (or uninterpreted) variables that occur only under uninterpreted symbols next to ones with arithmetic values:
        # the model builder must give the former values that keep the asserted distinctions
        S = "Int" if logic == "QF_UFLIA" else ("Real" if logic == "QF_UFLRA" else "U")
        N = (lambda k: str(k)) if S == "Int" else (lambda k: f"{k}.0")
        lines = [f"(set-option {o})" for o in opts] + [f"(set-logic {logic})"] + (["(declare-sort U 0)"] if S == "U" else [])
        nv = rng.randint(3, 6)
        vs = [f"v{i}" for i in range(nv)]
        lines += [f"(declare-fun {v} () {S})" for v in vs] + [f"(declare-fun f ({S}) {S})", f"(declare-fun p ({S}) Bool)", f"(declare-fun g ({S} {S}) {S})"]
        arith = vs[:rng.randint(1, nv - 1)] if S != "U" else []
        for v in arith:
            lo = rng.randint(0, 4)
            lines.append(f"(assert (>= {v} {N(lo)}))")
            if rng.random() < 0.7:
                lines.append(f"(assert (<= {v} {N(lo + rng.randint(0, 3))}))")
        for _ in range(rng.randint(2, 6)):
            a, b = rng.sample(vs, 2)
            lines.append(rng.choice([f"(assert (p {a}))", f"(assert (not (p {b})))", f"(assert (not (= (f {a}) (f {b}))))", f"(assert (not (= {a} {b})))",
                                     f"(assert (not (= (g {a} {b}) (g {b} {a}))))", f"(assert (= (f {a}) {b}))", f"(assert (or (p {a}) (p {b})))"]))
        lines += ["(check-sat)", "(get-model)", "(get-value (" + " ".join(f"(p {v})" for v in vs) + " " + " ".join(vs) + "))"]
        return {"idx": idx, "logic": logic, "options": opts, "script": "\n".join(lines) + "\n"}
    if rng.random() < 0.4 and ":incremental false" not in opts:
        p, script, checks = gen.history(logic, rng, options=opts, big=big, after_check=gen.model_queries)
    else:
        p, a, script = gen.single_query(logic, rng, options=opts, big=big, after_check=gen.model_queries)
    return {"idx": idx, "logic": logic, "options": opts, "script": script}


def run_case(args):
    case, binary, timeout = args
    out, err, rc = runner.run_opensmt(binary, case["script"], None, timeout=timeout)
    if rc == "timeout":
        return {"rc": rc, "n": 0, "problems": [], "stats": {}}
    try:
        sc0 = case["script"]
        fc = sc0.find("(check-sat)")
        # an assertion after a check-sat needs incremental mode: such a command is refused, the rest must behave as without it
        legal = not ("(set-option :incremental false)" in sc0 and fc >= 0 and "(assert" in sc0[fc:])
        n, problems, stats = modelcheck.check_models(sc0, out, expect_legal=legal)
    except Exception as e:
        n, problems, stats = 0, [{"what": f"model check machinery failed: {e!r}", "stdout": out[-800:]}], {}
    if rc not in (0, 1):
        # the process died: the truncated output explains every other complaint
        problems = [{"what": f"opensmt terminated abnormally (status {rc})", "stderr": err[-300:], "stdout": out[-300:]}]
    return {"rc": rc, "n": n, "problems": problems, "stats": stats, "stdout": out[-1500:]}


def fresh_script_at(sc, k):
    """the assertions active at check #k of a one-command-per-line script, as a script without history"""
    head, stack, n = [], [[]], -1
    for l in sc.strip().split("\n"):
        if l.startswith(("(set-option", "(set-logic", "(declare-", "(define-")):
            head.append(l)
        elif l.startswith("(push"):
            stack.append([])
        elif l.startswith("(pop") and len(stack) > 1:
            stack.pop()
        elif l.startswith("(assert"):
            stack[-1].append(l)
        elif l == "(check-sat)":
            n += 1
            if n == k:
                return "\n".join(head + [a for fr in stack for a in fr] + ["(check-sat)", "(get-model)"]) + "\n"
    return None


def classify(problem, case):
    """match key for known findings: identified by the history shape, not by the symptom alone"""
    sc = case["script"]
    if ("QF_UFLIA" in sc or "QF_UFLRA" in sc) and "(pop" in sc and "evaluates to" in problem.get("what", "") and "check" in problem:
        # does the defect need the history? the same assertions in a fresh solver must give a valid model
        fs = fresh_script_at(sc, int(problem["check"]))
        if fs is not None:
            r = run_case(({"script": fs}, common.opensmt_bin("hooks"), 10))
            if r["n"] == 1 and not r["problems"]:
                return "ufla-model-stale-term-after-pop"
    first_check = sc.find("(check-sat)")
    if "(set-option :incremental false)" in sc and first_check >= 0 and "(assert" in sc[first_check:] \
            and "evaluates to" in problem.get("what", ""):
        return "nonincremental-assert-after-check"
    if "QF_IDL" in sc and "(get-model)" in sc and "SafeInt" in (problem.get("stderr", "") + problem.get("output", "")):
        return "idl-model-safeint-underflow"
    # functions with a Boolean argument that the assertions actually apply
    used = [m.group(1) for m in re.finditer(r"\(declare-fun (\S+) \([^)]*\bBool\b[^)]*\)", sc)
            if any(f"({m.group(1)} " in l for l in sc.split("\n") if l.startswith("(assert"))]
    if used and ("evaluates to" in problem.get("what", "") or "get-value" in problem.get("what", "")):
        return "bool-arg-uf-model"
    return None


def run(tier, pid="C03", theorems=THEOREMS):
    chk = common.Check(pid, tier)
    chk.lean_obligations(theorems)
    n = 320 if tier == "quick" else 6000
    binary = common.opensmt_bin("hooks")
    cases = [make_case(i, chk.seed, big=(i % 5 == 4)) for i in range(n)]
    for f in sorted((common.VERIF / "corpus" / pid).glob("*.smt2")):       # minimised past failures run first
        txt = f.read_text()
        cases.insert(0, {"idx": f.name, "logic": "corpus", "options": [l for l in txt.split("\n") if l.startswith("(set-option")],
                         "script": txt})
    with mp.Pool(min(common.JOBS, 14)) as pool:
        results = pool.map(run_case, [(c, binary, 10 if tier == "quick" else 30) for c in cases], chunksize=4)
    models = asserts = values = timeouts = 0
    for c, r in zip(cases, results):
        if r["rc"] == "timeout":
            timeouts += 1
            continue
        models += r["n"]
        asserts += r["stats"].get("assertions", 0)
        values += r["stats"].get("values", 0)
        chk.case(key=(c["idx"], r["n"]), nontrivial=r["n"] > 0,
                 sample={"logic": c["logic"], "options": c["options"], "models_validated": r["n"],
                         "script_head": c["script"][:400]} if r["n"] else None)
        chk.obligation(not r["problems"])
        if r["n"]:
            chk.cov["traces_validated_against_impl"] += 1
        for pr in r["problems"][:2]:
            chk.violation("model", f"{pr['what']} ({c['logic']} {c['options']})",
                          {"script": c["script"], "options": c["options"], "problem": pr, "impl_stdout": r.get("stdout")},
                          match_key=classify(pr, c))
    chk.assumptions = ["array logics excluded (no model support, as the property states)",
                       "division by zero does not occur in generated terms (its value is unspecified in SMT-LIB)"]
    return chk.finish(rule="one case = one script with :produce-models and (get-model)/(get-value) after every check-sat; "
                           "non-trivial = at least one sat answer whose printed model was evaluated in Lean on all active assertions",
                      extra={"models_validated": models, "assertion_evaluations": asserts, "value_pairs_compared": values,
                             "timeouts": timeouts})
