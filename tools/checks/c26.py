"""C26: every LA conflict stored by LASolver::storeExplanation carries coefficients accepted by LA.conflictCheck."""
import os, random, multiprocessing as mp
import common, engine, runner, trace

THEOREMS = ["Osmt.Properties.C26_conflict_certificate_sound", "Osmt.Properties.C26_coefficients_positive",
            "Osmt.LA.farkas_sound", "Osmt.LA.tighten_sound", "Osmt.LA.itemOf_sound"]
LOGICS = ["QF_LRA", "QF_LIA", "QF_UFLRA", "QF_UFLIA"]


def run_case(args):
    case, binary, timeout = args
    tp = common.WORK / f"fk-{os.getpid()}.trace"
    tp.unlink(missing_ok=True)
    out, err, rc = runner.run_opensmt(binary, case["script"], tp, timeout=timeout)
    res = {"rc": rc, "n": 0, "bad": [], "sample": None}
    if rc == "timeout" or not tp.exists():
        return res
    tr = trace.Trace(tp)
    tp.unlink(missing_ok=True)
    by_logic = {}
    for lg, trip in tr.fk:
        by_logic.setdefault(lg, []).append(trip)
    for lg, trips in by_logic.items():
        tt = tr.logics[lg]
        lines = tt.lean_lines() + ["K " + " ".join(f"{t} {s} {c}" for t, s, c in trip) for trip in trips]
        p = common.WORK / f"fk-{os.getpid()}.in"
        p.write_text("\n".join(lines) + "\n")
        r = common.sh([str(common.model_exe()), "fk", str(p)])
        verdicts = r.stdout.split()
        res["n"] += len(trips)
        if len(verdicts) != len(trips):
            res["bad"].append({"what": "driver output mismatch", "stderr": r.stderr[-300:]})
        for trip, v in zip(trips, verdicts):
            if v != "OK":
                res["bad"].append({"verdict": v, "bounds": [(("" if s else "not ") + tt.smt(t), c) for t, s, c in trip]})
        if trips and res["sample"] is None:
            trip = max(trips, key=len)
            res["sample"] = [(("" if s else "not ") + tt.smt(t), c) for t, s, c in trip]
        p.unlink(missing_ok=True)
    return res


def run(tier):
    chk = common.Check("C26", tier)
    chk.lean_obligations(THEOREMS)
    n = 240 if tier == "quick" else 4000
    binary = common.opensmt_bin("hooks")
    vectors = [[], [":produce-interpolants true"], [":random-seed 3"], [":produce-proofs true"], [":incremental false"]]
    cases = [engine.make_case(i, chk.seed, LOGICS, vectors) for i in range(n)]
    with mp.Pool(min(common.JOBS, 14)) as pool:
        results = pool.map(run_case, [(c, binary, 10 if tier == "quick" else 30) for c in cases], chunksize=4)
    total = timeouts = 0
    for c, r in zip(cases, results):
        if r["rc"] == "timeout":
            timeouts += 1
            continue
        total += r["n"]
        chk.case(key=(c["idx"], r["n"]), nontrivial=r["n"] > 0,
                 sample={"logic": c["logic"], "conflicts": r["n"], "largest_conflict": r["sample"]} if r["n"] else None)
        chk.obligation(not r["bad"])
        if r["n"]:
            chk.cov["traces_validated_against_impl"] += 1
        if r["bad"]:
            chk.violation("farkas-certificate", f"LA conflict with invalid coefficients ({c['logic']} {c['options']})",
                          {"script": c["script"], "options": c["options"], "rejected": r["bad"][:3]})
    chk.assumptions = ["difference-logic solvers (STP) produce no Farkas coefficients and are outside C26's statement",
                       "integer bounds are read with integer tightening (as LASolver::getBoundsValueForIntVar does)"]
    return chk.finish(rule="one case = one traced run; non-trivial = it contains at least one LA conflict; every conflict "
                           "(bounds + the solver's coefficients) goes through LA.conflictCheck",
                      extra={"conflicts_checked": total, "timeouts": timeouts})
