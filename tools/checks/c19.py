"""C19: a rejected command leaves the solver state unchanged. Differential: a legal incremental script S, and S' = S with
rejected commands inserted at random positions, are run on the real executable; the responses to the commands of S must
agree (check-sat answers and success/error exactly; models, values and cores in meaning). The accept/reject pattern and the
active assertions at every check are also compared with the Lean front-end machine (`osmt-model front`)."""
import multiprocessing as mp, os, random, re
import common, gen, runner, smtlib, modelcheck, certify, trace

THEOREMS = ["Osmt.Properties.C19_rejected_is_noop", "Osmt.Properties.C19_insert_rejected", "Osmt.Properties.C19_run_accepted",
            "Osmt.Front.accepted_all_ok", "Osmt.Front.pop_names"]
LOGICS = ["QF_UF", "QF_LRA", "QF_LIA", "QF_BOOL", "QF_UFLRA", "QF_IDL"]


def make_case(idx, seed):
    rng = random.Random(f"c19-{seed}-{idx}")
    logic = LOGICS[idx % len(LOGICS)]
    itp = idx % 5 == 4 and logic in ("QF_UF", "QF_LRA", "QF_LIA", "QF_BOOL")
    cores = idx % 2 == 1 or itp          # named assertions in both modes; `itp` asks for interpolants instead of cores
    p = gen.Problem(logic, rng)
    opts = [":print-success true", ":produce-interpolants true" if itp else (":produce-unsat-cores true" if cores else ":produce-models true")]
    head = [f"(set-option {o})" for o in opts] + [p.set_logic()] + p.decls
    body = []                      # (line, abstract op, is_inserted)
    names_lv, nm, aid, depth = [[]], 0, 0, 0
    class _N:
        def __bool__(self): return any(names_lv)
        def append(self, x): names_lv[-1].append(x)
        def all(self): return [x for lv in names_lv for x in lv]
    names_used = _N()
    num = p.nums[0] if p.nums else None

    def legal_assert():
        nonlocal nm, aid
        t = gen.smt(p.fla(rng.randint(0, 2)))
        if itp and earlier and rng.random() < 0.35:
            t = f"(not {rng.choice(earlier)})"          # refutations are what interpolation needs
        elif itp:
            earlier.append(t)
        ns = []
        if cores and rng.random() < 0.7:
            if rng.random() < 0.25:
                nm += 1; inner = f"K{nm}"; names_used.append(inner); ns.append(nm); inner_names.add(inner)
                t = f"(or (! {gen.smt(rng.choice(p.bools))} :named {inner}) {t})"
            if leaked and rng.random() < 0.6:
                use = leaked.pop()          # a name that only a rejected command has mentioned so far: free in both scripts
            else:
                nm += 1; use = nm
            names_used.append(f"K{use}"); ns.append(use)
            line = f"(assert (! {t} :named K{use}))"
        else:
            line = f"(assert {t})"
        aid += 1
        return line, f"A {aid} 1 " + " ".join(map(str, ns))

    leaked = []
    inner_names = set()
    earlier = []

    def rejected():
        nonlocal nm, aid
        k = rng.randint(0, 8)
        if itp and num and rng.random() < 0.5:
            k = 0                                        # refused by the solver, after the front end has read it
        b = gen.smt(rng.choice(p.bools))
        aid += 1
        if k == 0 and num:
            return f"(assert {gen.smt(num)})", f"A {aid} 0"                                   # not Bool
        if k == 1:
            return f"(assert (and {b} nosuchsymbol))", f"A {aid} 0"                           # unknown symbol
        if k == 2 and names_used and cores:
            dup = rng.choice(names_used.all())
            return f"(assert (! {b} :named {dup}))", f"A {aid} 1 {dup[1:]}"                   # duplicate name
        if k == 3 and names_used and cores:
            dup = rng.choice(names_used.all()); nm += 1; leaked.append(nm)
            return (f"(assert (! (or {b} (! (not {b}) :named K{nm})) :named {dup}))", f"A {aid} 1 {nm} {dup[1:]}")   # inner fresh, outer duplicate
        if k == 4 and cores:
            nm += 1; leaked.append(nm)
            return f"(assert (! (or (! {b} :named K{nm}) nosuchsymbol) :named K{nm + 100000}))", f"A {aid} 0 {nm}"   # inner fresh, then unresolvable
        if k == 5:
            aid -= 1
            d = depth + rng.randint(1, 3)
            return f"(pop {d})", f"POP {d}"
        if k == 8 and cores:
            # a definition that is refused after its body (with a fresh inner name) was read: sort mismatch or unknown symbol
            nm += 1; leaked.append(nm)
            body = rng.choice([f"(! {b} :named K{nm})", f"(or {b} (! (not {b}) :named K{nm}))"])
            return f"(define-fun dd{nm} () Int {body})", f"A {aid} 0 {nm}"
        if k == 6 and num:
            return f"(assert (< {gen.smt(num)} true))", f"A {aid} 0"                          # ill-sorted
        return f"(assert (= {b} nosuchsymbol2))", f"A {aid} 0"

    def query():
        if not itp:
            return "(get-unsat-core)" if cores else "(get-model)"
        cur = [n for n in names_used.all() if n not in inner_names]
        if len(cur) < 2:
            return "(get-info :name)"
        cur = cur[:]
        rng.shuffle(cur)
        k = rng.randint(1, len(cur) - 1)
        g = lambda ns: ns[0] if len(ns) == 1 else "(and " + " ".join(ns) + ")"
        return f"(get-interpolants {g(cur[:k])} {g(cur[k:])})"

    for _ in range(rng.randint(8, 18)):
        c = rng.random()
        if c < 0.12 and depth < 3:
            body.append(("(push 1)", "PUSH 1", False)); depth += 1; names_lv.append([])
        elif c < 0.2 and depth:
            body.append(("(pop 1)", "POP 1", False)); depth -= 1; names_lv.pop()
        elif c < 0.62:
            l, a = legal_assert(); body.append((l, a, False))
        elif c < 0.82:
            l, a = rejected(); body.append((l, a, True))
        else:
            body.append(("(check-sat)", "C", False))
            body.append((query(), "Q", False))
    body.append(("(check-sat)", "C", False))
    body.append((query(), "Q", False))
    return {"idx": idx, "logic": logic, "cores": cores and not itp, "itp": itp, "head": head, "body": body, "decls": p.decls, "logic_line": p.set_logic()}


def fold(outs):
    """a rejected assert prints two diagnostics: keep the first"""
    res = []
    for o in outs:
        if res and modelcheck.is_error(o) and modelcheck.is_error(res[-1]) and len(o) > 1 and o[1] == ("str", "assertion returns an unknown sort"):
            continue
        res.append(o)
    return res


def run_case(args):
    case, binary = args
    head, body = case["head"], case["body"]
    with_text = "\n".join(head + [l for l, a, ins in body]) + "\n"
    without_text = "\n".join(head + [l for l, a, ins in body if not ins]) + "\n"
    res = {"idx": case["idx"], "logic": case["logic"], "script": with_text, "script_without": without_text, "problems": [],
           "inserted": sum(1 for _, _, ins in body if ins), "rejected": 0, "compared": 0, "differs_in_form": 0}
    tp = common.WORK / f"c19-{os.getpid()}.trace"
    tp.unlink(missing_ok=True)
    o1, e1, rc1 = runner.run_opensmt(binary, with_text, tp, timeout=20)
    o2, e2, rc2 = runner.run_opensmt(binary, without_text, None, timeout=20)
    if rc1 == "timeout" or rc2 == "timeout":
        tp.unlink(missing_ok=True)
        return res
    if rc1 not in (0, 1) or rc2 not in (0, 1):
        res["problems"].append({"what": f"opensmt terminated abnormally (status {rc1} with / {rc2} without the rejected commands): "
                                        f"{(e1 or e2).strip()[-160:]}"})
        tp.unlink(missing_ok=True)
        return res
    try:
        a1, a2 = fold(smtlib.parse_sexps(o1)), fold(smtlib.parse_sexps(o2))
    except smtlib.ParseError as e:
        res["problems"].append({"what": f"unreadable output: {e}"}); tp.unlink(missing_ok=True); return res
    n1, n2 = len(head) + len(body), len(head) + sum(1 for x in body if not x[2])
    if len(a1) != n1 or len(a2) != n2:
        res["problems"].append({"what": f"{n1}/{n2} commands but {len(a1)}/{len(a2)} responses"}); tp.unlink(missing_ok=True); return res
    r1, r2 = a1[len(head):], a2[len(head):]
    # (1) the Lean front-end machine: accept / reject pattern of S'
    ops = ["L"] + [a.rstrip("!") for _, a, _ in body]
    fp = common.WORK / f"c19-{os.getpid()}.front"
    fp.write_text("\n".join(ops) + "\n")
    mo = common.sh([str(common.model_exe()), "front", str(fp)]).stdout.strip().split("\n")[1:]
    fp.unlink(missing_ok=True)
    for j, ((line, a, ins), out) in enumerate(zip(body, r1)):
        impl_err = modelcheck.is_error(out)
        if a in ("Q", "Q!"):
            continue                          # queries may be refused for reasons outside the model (not sat / not unsat)
        if j >= len(mo) or (mo[j].split()[0] == "err") != impl_err:
            res["problems"].append({"what": f"command `{line}`: opensmt answers {smtlib.unparse(out)[:120]}, the front-end machine says "
                                            f"{mo[j] if j < len(mo) else '?'}",
                                    "kind": "model-drift" if ins else "legal-command-treated-differently"})
            break
    res["rejected"] = sum(1 for (l, a, ins), out in zip(body, r1) if ins and modelcheck.is_error(out))
    not_rejected = [(l, smtlib.unparse(out)[:80]) for (l, a, ins), out in zip(body, r1) if ins and not modelcheck.is_error(out)]
    if not_rejected:
        res["problems"].append({"what": f"a command meant to be rejected was accepted: {not_rejected[0]}", "kind": "generator"})
        tp.unlink(missing_ok=True)
        return res
    # (2) the responses to the commands of S agree
    kept = [(l, out) for (l, a, ins), out in zip(body, r1) if not ins]
    semantic = []
    for (l, x), y in zip(kept, r2):
        res["compared"] += 1
        if l == "(check-sat)" or modelcheck.is_error(x) or modelcheck.is_error(y) or smtlib.sym(x) == "success":
            if smtlib.unparse(x) != smtlib.unparse(y):
                res["problems"].append({"what": f"`{l}` is answered {smtlib.unparse(x)[:100]} after rejected commands, "
                                                f"{smtlib.unparse(y)[:100]} without them", "kind": "answer"})
                break
        elif smtlib.unparse(x) != smtlib.unparse(y):
            semantic.append(l)
    if semantic and not res["problems"]:
        res["differs_in_form"] = len(semantic)
        if not case["cores"]:
            try:
                kept_out = "\n".join(smtlib.unparse(x) for x in a1[:len(head)] + [o for _, o in kept]) + "\n"
                n, problems, _ = modelcheck.check_models(without_text, kept_out, expect_legal=False)
            except Exception as e:
                problems = [{"what": f"model check machinery failed: {e!r}"}]
            for pr in problems[:1]:
                res["problems"].append({"what": f"after rejected commands: {pr['what']}", "kind": "model"})
        else:
            # cores: names must be current and the named members with the unnamed assertions unsat (certified)
            stack, k = [[]], 0
            lines = [l for l, a, ins in body if not ins]
            for l, out in zip(lines, [o for (l2, o) in kept]):
                if l.startswith("(push"):
                    stack.append([])
                elif l.startswith("(pop") and len(stack) > 1:
                    stack.pop()
                elif l.startswith("(assert (! ") and not modelcheck.is_error(out):
                    bodyt, name = l[len("(assert (! "):-2].rsplit(" :named ", 1)
                    stack[-1].append((re.sub(r"\(! (\S+) :named \S+\)", r"\1", bodyt), name))
                elif l.startswith("(assert ") and not modelcheck.is_error(out):
                    stack[-1].append((l[len("(assert "):-1], None))
                elif l == "(get-unsat-core)" and isinstance(out, list) and not modelcheck.is_error(out):
                    active = [x for fr in stack for x in fr]
                    cur = {n: t for t, n in active if n}
                    names = [smtlib.sym(x) for x in out]
                    bad = [n for n in names if n not in cur]
                    if bad:
                        continue           # names of sub-terms: C06's known finding, not a C19 matter
                    v = certify.verdict(case["decls"], [t for t, n in active if n is None] + [cur[n] for n in names], case["logic_line"], binary)
                    if v.startswith("sat"):
                        res["problems"].append({"what": f"after rejected commands the unsat core {names} is satisfiable with the unnamed "
                                                        f"assertions ({v})", "kind": "core"})
                        break
    # (2b) interpolants printed by S' must be Craig interpolants for the assertions and names of S (certified re-decision)
    if case.get("itp") and not res["problems"]:
        stack, last = [[]], None
        lines = [l for l, a, ins in body if not ins]
        for l, out in zip(lines, [o for (l2, o) in kept]):
            if l.startswith("(push"):
                stack.append([])
            elif l.startswith("(pop") and len(stack) > 1:
                stack.pop()
            elif l.startswith("(assert (! ") and not modelcheck.is_error(out):
                bodyt, name = l[len("(assert (! "):-2].rsplit(" :named ", 1)
                stack[-1].append((re.sub(r"\(! (\S+) :named \S+\)", r"\1", bodyt), name))
            elif l.startswith("(assert ") and not modelcheck.is_error(out):
                stack[-1].append((l[len("(assert "):-1], None))
            elif l == "(check-sat)":
                last = smtlib.sym(out) if not isinstance(out, list) else None
            elif l.startswith("(get-interpolants") and last == "unsat":
                if modelcheck.is_error(out) or not isinstance(out, list) or len(out) != 1:
                    res["problems"].append({"what": f"after rejected commands `{l}` is answered {smtlib.unparse(out)[:120]}", "kind": "itp"})
                    break
                active = [x for fr in stack for x in fr]
                groups = smtlib.parse_sexps(l)[0][1:]
                A = [smtlib.sym(x) for x in (groups[0][1:] if isinstance(groups[0], list) else [groups[0]])]
                I = smtlib.unparse(out[0])
                Atx = [t for t, n in active if n in A]
                Btx = [t for t, n in active if n not in A]
                v1 = certify.verdict(case["decls"], Atx + [f"(not {I})"], case["logic_line"], binary)
                v2 = certify.verdict(case["decls"], [I] + Btx, case["logic_line"], binary) if not v1.startswith("sat") else ""
                res["itps"] = res.get("itps", 0) + 1
                if v1.startswith("sat") or v2.startswith("sat"):
                    res["problems"].append({"what": f"after rejected commands the interpolant {I[:120]} of `{l}` is not an interpolant for the assertions of the "
                                                    f"script without them: " + (f"A does not imply it ({v1})" if v1.startswith("sat") else f"it is satisfiable with B ({v2})"),
                                            "kind": "itp"})
                    break
    # (3) the active assertions at each check of S' (from opensmt's own trace) are those of the front-end machine
    if tp.exists() and not res["problems"]:
        try:
            tr = trace.Trace(tp)
            counts = []
            ms0 = next((e[2] for e in tr.main if e[1] in ("as", "chk")), None)
            levels = [0]
            for e in tr.main:
                if len(e) < 3 or e[2] != ms0:
                    continue
                if e[1] == "as":
                    levels[-1] += 1
                elif e[1] == "fr" and e[3] == "push":
                    levels.append(0)
                elif e[1] == "fr" and e[3] == "pop" and len(levels) > 1:
                    levels.pop()
                elif e[1] == "chk":
                    counts.append(sum(levels))
            mcounts = [len(m.split()) - 1 for m, (l, a, ins) in zip(mo, body) if a == "C"]
            # an assertion rejected by insertFormula (not Bool) is traced before it is refused: allow for those
            if len(counts) == len(mcounts) and any(c < m for c, m in zip(counts, mcounts)):
                res["problems"].append({"what": f"active assertions per check: opensmt {counts}, front-end machine {mcounts}", "kind": "model-drift"})
        except Exception:
            pass
    tp.unlink(missing_ok=True)
    return res


def classify(pr):
    return None


def run(tier):
    chk = common.Check("C19", tier)
    chk.lean_obligations(THEOREMS)
    binary = common.opensmt_bin("hooks")
    n = 260 if tier == "quick" else 5000
    cases = [make_case(i, chk.seed) for i in range(n)]
    with mp.Pool(min(common.JOBS, 14)) as pool:
        results = pool.map(run_case, [(c, binary) for c in cases], chunksize=4)
    inserted = rejected = compared = form = 0
    itps_checked = sum(r.get("itps", 0) for r in results)
    for r in results:
        inserted += r["inserted"]; rejected += r["rejected"]; compared += r["compared"]; form += r["differs_in_form"]
        chk.case(key=(r["idx"], r["rejected"], r["compared"]), nontrivial=r["rejected"] > 0,
                 sample={"logic": r["logic"], "rejected_commands": r["rejected"], "responses_compared": r["compared"]} if r["rejected"] else None)
        chk.obligation(not r["problems"])
        if r["rejected"]:
            chk.cov["traces_validated_against_impl"] += 1
        for pr in r["problems"][:1]:
            chk.violation("rejected-command", f"{pr['what']} ({r['logic']})",
                          {"script": r["script"], "script_without_rejected": r["script_without"], "problem": pr},
                          found_input=pr.get("kind") not in ("model-drift", "generator"), match_key=classify(pr))
    chk.assumptions = ["the front-end machine abstracts terms to (well-formed?, names); which commands are ill-formed is known from the "
                       "generator", "outputs that differ in form are re-validated (models by the Lean evaluator, cores by certified verdicts)"]
    return chk.finish(rule="one case = a legal incremental script and the same script with rejected commands inserted (non-Bool / "
                           "ill-sorted / unresolvable assertions, duplicate names, inner names in rejected assertions, pops beyond the stack, "
                           "bad queries); non-trivial = at least one inserted command was rejected",
                      extra={"interpolants_checked_after_rejections": itps_checked, "inserted_commands": inserted, "rejected_by_opensmt": rejected, "responses_compared": compared,
                             "responses_differing_in_form": form})
