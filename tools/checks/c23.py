"""C23 (partial): reproducibility. (1) The pseudo-random generator of common/Random.h against its Lean mirror on many seeds
and sizes (state and draw sequences must be identical, which also shows that the double arithmetic is exact on these seeds).
(2) The executable: every script x option vector is run three times (address-space randomisation on, on, off); standard
output and exit status must be byte-identical."""
import multiprocessing as mp, os, random, subprocess
import common, engine, gen, runner

THEOREMS = ["Osmt.Properties.C23_state_in_range", "Osmt.Properties.C23_draw_below_size", "Osmt.Properties.C23_stream_in_range"]
LOGICS = ["QF_UF", "QF_LRA", "QF_LIA", "QF_IDL", "QF_RDL", "QF_UFLRA", "QF_UFLIA", "QF_BOOL"]
VECTORS = [[], [":random-seed 7"], [":random-seed 2147483646"], [":random-seed 1"], [":produce-models true"], [":produce-unsat-cores true"],
           [":produce-proofs true"], [":produce-interpolants true"], [":pure-lookahead true"], [":picky true"], [":incremental false"],
           [":produce-models true", ":random-seed 99"]]
M = 2147483647


def rng_mirror(seed, n):
    rng = random.Random(f"c23-rng-{seed}")
    seeds = [1, 2, M - 1, M - 2, 91648253, 1389796, 1545, 2 ** 30, 2 ** 31 - 2, 46341, 65536] + [rng.randint(1, M - 1) for _ in range(n)]
    lines = [f"{s} {rng.choice([1, 2, 3, 7, 10, 100, 1000, 65536, 2 ** 20, 2 ** 31 - 1])} {rng.randint(5, 40)}" for s in seeds]
    text = "\n".join(lines) + "\n"
    exe = common.compile_harness("rng_harness", ["rng_harness.cc"])
    impl = subprocess.run([str(exe)], input=text, capture_output=True, text=True, timeout=120).stdout.strip().split("\n")
    fp = common.WORK / f"c23-rng-{os.getpid()}.in"
    fp.write_text(text)
    model = common.sh([str(common.model_exe()), "rng", str(fp)]).stdout.strip().split("\n")
    fp.unlink(missing_ok=True)
    if len(impl) != len(lines) or len(model) != len(lines):
        return len(lines), [f"{len(lines)} seeds, {len(impl)} harness lines, {len(model)} model lines"]
    bad = [f"seed/size/count `{l}`: Random.h gives {a[:80]}, the mirror {b[:80]}" for l, a, b in zip(lines, impl, model) if a != b]
    return len(lines), bad


def run_case(args):
    case, binary = args
    outs = []
    for k, aslr in enumerate((True, True, False)):
        cmd = [str(binary)] if aslr else ["setarch", os.uname().machine, "-R", str(binary)]
        p = common.WORK / f"c23-{os.getpid()}.smt2"
        p.write_text(case["script"])
        try:
            r = subprocess.run(cmd + [str(p)], capture_output=True, timeout=10)
            outs.append((r.returncode, r.stdout))
        except subprocess.TimeoutExpired:
            outs.append(("timeout", b""))
        finally:
            p.unlink(missing_ok=True)
    res = {"idx": case["idx"], "script": case["script"], "logic": case["logic"], "options": case["options"], "problems": [],
           "bytes": len(outs[0][1]), "timeouts": sum(1 for o in outs if o[0] == "timeout")}
    if res["timeouts"]:
        return res
    for k in (1, 2):
        if outs[k] != outs[0]:
            a, b = outs[0][1].decode("latin-1"), outs[k][1].decode("latin-1")
            i = next((j for j in range(min(len(a), len(b))) if a[j] != b[j]), min(len(a), len(b)))
            res["problems"].append({"what": f"run 1 and run {k + 1} ({'address-space randomisation off' if k == 2 else 'same settings'}) differ: "
                                            f"status {outs[0][0]} / {outs[k][0]}, output differs at byte {i}: ...{a[max(0, i - 40):i + 60]!r} vs ...{b[max(0, i - 40):i + 60]!r}"})
            break
    return res


def run(tier):
    chk = common.Check("C23", tier)
    chk.lean_obligations(THEOREMS)
    nn, drift = rng_mirror(chk.seed, 4000 if tier == "quick" else 100000)
    chk.case(key=("rng", nn), sample={"seeds_compared_with_the_mirror": nn})
    chk.obligation(not drift)
    for d in drift[:3]:
        chk.violation("rng-mirror", d, {"problem": d})
    binary = common.opensmt_bin("hooks")
    n = 200 if tier == "quick" else 4000
    cases = []
    for i in range(n):
        rng = random.Random(f"c23-{chk.seed}-{i}")
        logic = LOGICS[i % len(LOGICS)]
        opts = VECTORS[(i // len(LOGICS)) % len(VECTORS)]
        after = {":produce-models true": lambda p, r: ["(get-model)"], ":produce-unsat-cores true": lambda p, r: ["(get-unsat-core)"],
                 ":produce-proofs true": lambda p, r: ["(get-proof)"]}.get(opts[0] if opts else "", None)
        if rng.random() < 0.5 and ":incremental false" not in opts:
            p, script, _ = gen.history(logic, rng, options=opts, after_check=after, named=(":produce-unsat-cores true" in opts))
        else:
            p, _, script = gen.single_query(logic, rng, options=opts, n_assert=rng.randint(6, 14), after_check=after)
        cases.append({"idx": i, "logic": logic, "options": opts, "script": script})
    # interpolation requests under every interpolation algorithm (the `random` EUF algorithm draws coins), on UF and arithmetic
    import c08
    for i in range(60 if tier == "quick" else 1200):
        p8, script, queries = (c08.make_prop_script if i % 4 == 3 else (c08.make_euf_script if i % 4 in (0, 1) else c08.make_script))(i, chk.seed, 2, 3)
        if i % 2 == 0 and "interpolation-euf-algorithm" not in script:
            script = script.replace("(set-option :produce-interpolants true)", "(set-option :produce-interpolants true)\n(set-option :interpolation-euf-algorithm 3)", 1)
        cases.append({"idx": f"itp{i}", "logic": p8.logic, "options": ["interpolation"], "script": script})
    # error paths: the text of a diagnostic must not depend on where things lie in memory (long names live on the heap)
    for i in range(40 if tier == "quick" else 800):
        rng = random.Random(f"c23-err-{chk.seed}-{i}")
        logic = LOGICS[i % len(LOGICS)]
        p, _, script = gen.single_query(logic, rng, options=[":print-success true"], n_assert=rng.randint(2, 5))
        ls = script.strip().split("\n")
        long1 = "NoSuchSort_" + "".join(rng.choice("abcdefghijklmnopqrstuvwxyz0123456789") for _ in range(rng.randint(8, 40)))
        long2 = "no_such_symbol_" + "".join(rng.choice("abcdefghijklmnopqrstuvwxyz") for _ in range(rng.randint(8, 60)))
        bad = [f"(declare-fun e1 () {long1})", f"(declare-fun e2 ({long1} Bool) Bool)", f"(assert ({long2} true))", f"(assert (= {long2} {long2}))",
               f"(declare-fun |{long2} with spaces| () {long1})", f"(define-fun d9 ((a {long1})) Bool true)", f"(assert (! true :named {long2}))",
               f"(assert (! false :named {long2}))", f"(get-value ({long2}))", f"(set-option :{long2} true)", f"(set-logic {long1})",
               f"(declare-sort {long1} 0)", f"(declare-sort {long1} 0)", f"(push 1)", f"(pop 7)", f"(get-info :{long2})"]
        for _ in range(rng.randint(3, 8)):
            ls.insert(rng.randint(3, len(ls)), rng.choice(bad))
        cases.append({"idx": f"err{i}", "logic": logic, "options": ["error paths"], "script": "\n".join(ls) + "\n"})
    cases.append({"idx": "time-queries", "logic": "QF_LRA", "options": [":time-queries true"],
                  "script": "(set-option :time-queries true)\n(set-logic QF_LRA)\n(declare-fun x () Real)\n(declare-fun y () Real)\n"
                            "(assert (or (< x y) (< y x)))\n(check-sat)\n(assert (= x y))\n(check-sat)\n"})
    with mp.Pool(min(common.JOBS, 14)) as pool:
        results = pool.map(run_case, [(c, binary) for c in cases], chunksize=4)
    nbytes = touts = 0
    for r in results:
        nbytes += r["bytes"]; touts += r["timeouts"]
        chk.case(key=(r["idx"], r["bytes"]), nontrivial=r["bytes"] > 20,
                 sample={"logic": r["logic"], "options": r["options"], "output_bytes": r["bytes"]} if r["bytes"] > 200 else None)
        chk.obligation(not r["problems"])
        chk.cov["traces_validated_against_impl"] += 1
        for pr in r["problems"][:1]:
            chk.violation("reproducibility", f"{pr['what']} ({r['logic']} {r['options']})", {"script": r["script"], "problem": pr},
                          match_key="time-queries" if ":time-queries true" in r["script"] and "query time so far" in pr["what"] else None)
    chk.assumptions = ["reproducibility of whole runs is compared on three runs per script, not proved; the proved part is the generator"]
    return chk.finish(rule="one case = one script x option vector, run three times (ASLR on, on, off); non-trivial = more than 20 bytes of output",
                      extra={"output_bytes_compared": nbytes, "timeouts": touts})
