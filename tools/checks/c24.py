"""C24 / C25 (partial): threads. A harness linked against a ThreadSanitizer build of the current tree (a) solves 2..8 random
arithmetic instances with coefficients beyond the machine word at the same time, one solver / logic / config per thread, and
compares every answer with the answer of the same instance alone, and runs seeded sequences of FastRational operations (lcm,
gcd, division, rounding on 20-45 digit numbers) in 2..8 threads at once, comparing the digest of all results with the digest of
the same sequence alone (C24); (b) issues notifyStop / notifyGlobalStop from another
thread at a random moment of a check-sat and requires `unknown` or the answer of the undisturbed run (C25). Any
ThreadSanitizer report is a violation."""
import os, subprocess
import common

THEOREMS24 = ["Osmt.Properties.C24_alloc_fresh", "Osmt.Properties.C24_alloc_inv", "Osmt.Properties.C24_release_inv", "Osmt.Properties.C24_empty_inv", "Osmt.Properties.C24_every_schedule_inv", "Osmt.Properties.C24_every_schedule_exclusive", "Osmt.Properties.C24_every_schedule_alloc_unowned"]
THEOREMS25 = ["Osmt.Properties.C25_stop_unknown_or_same", "Osmt.Properties.C25_stop_before_start", "Osmt.Properties.C25_definitive_same", "Osmt.Properties.C25_undecided_unknown", "Osmt.Properties.C25_later_same", "Osmt.Properties.C25_two_level_unknown_or_same"]


def run(tier, pid="C24"):
    chk = common.Check(pid, tier)
    chk.lean_obligations(THEOREMS24 if pid == "C24" else THEOREMS25)
    exe = common.compile_harness("threads_harness_tsan", ["threads_harness.cc"], flavour="tsan", link_lib=True,
                                 extra_flags=("-fsanitize=thread", "-fno-omit-frame-pointer"))
    quick = tier == "quick"
    if pid == "C24":
        jobs = [("par", th, chk.seed * 100 + k, 6 if quick else 60) for k, th in enumerate([2, 3, 4, 6, 8] if quick else [2, 3, 4, 5, 6, 7, 8] * 4)]
        jobs += [("num", th, chk.seed * 100 + 50 + k, 4 if quick else 40) for k, th in enumerate([2, 4, 8] if quick else [2, 3, 4, 6, 8] * 3)]
    else:
        jobs = [(m, 2, chk.seed * 100 + k, 36 if quick else 300) for k, m in enumerate(["stop", "gstop"] * (2 if quick else 8))]
    procs = []
    env = dict(os.environ, TSAN_OPTIONS="halt_on_error=0:exitcode=66:second_deadlock_stack=1")
    for mode, th, seed, rounds in jobs:
        procs.append(((mode, th, seed, rounds), subprocess.Popen([str(exe), mode, str(th), str(seed), str(rounds)], stdout=subprocess.PIPE,
                                                                   stderr=subprocess.PIPE, text=True, env=env)))
    answers = unknown = 0
    for (mode, th, seed, rounds), p in procs:
        try:
            out, err = p.communicate(timeout=1800 if quick else 14400)
        except subprocess.TimeoutExpired:
            p.kill(); out, err = p.communicate()
            chk.case(key=(mode, th, seed, "timeout"), nontrivial=False)
            chk.obligation(True)
            continue
        done = [l for l in out.split("\n") if l.startswith("DONE")]
        mism = [l for l in out.split("\n") if l.startswith("MISMATCH")]
        races = err.count("WARNING: ThreadSanitizer")
        a = int(done[0].split("answers=")[1].split()[0]) if done else 0
        u = int(done[0].split("unknown=")[1].split()[0]) if done else 0
        answers += a; unknown += u
        chk.case(key=(mode, th, seed, a, u), nontrivial=a > 0, sample={"mode": mode, "threads": th, "rounds": rounds, "answers": a, "unknown": u})
        chk.cov["traces_validated_against_impl"] += 1
        chk.obligation(not mism and not races and bool(done))
        replay = {"command": f"threads_harness {mode} {th} {seed} {rounds}", "stdout": out[-1500:], "stderr": err[:3000]}
        if races:
            first = [l.strip() for l in err.split("\n") if l.strip().startswith("#0") or l.strip().startswith("#1")][:2]
            chk.violation("thread-sanitizer", f"{races} ThreadSanitizer report(s) in mode {mode} with {th} threads: {err[err.find('WARNING'):][:120]} {first}", replay)
        elif mism:
            chk.violation("answer", f"{mism[0]} (mode {mode}, {th} threads)", replay)
        elif not done:
            chk.violation("crash", f"the harness ended abnormally (status {p.returncode}) in mode {mode} with {th} threads: {err.strip()[-200:]}", replay)
    chk.assumptions = ["freedom from data races and memory errors is searched for with ThreadSanitizer on real concurrent runs, not proved; "
                       "the proved part is the pool machine (C24) / the stop loop (C25)",
                       "thread interleavings are those the scheduler produces, not all interleavings"]
    return chk.finish(rule=("one case = one process solving, per round, N random arithmetic instances concurrently and alone" if pid == "C24"
                            else "one case = one process issuing a stop request at a random moment of each of its check-sat calls")
                           + "; non-trivial = at least one answer was compared",
                      extra={"answers_compared": answers, "unknown_after_stop": unknown})
