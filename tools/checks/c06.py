"""C06 / C07: printed unsat cores (named and full, plain and minimal) re-decided with certified verdicts."""
import multiprocessing as mp, os, random, re
import common, gen, runner, smtlib, certify, termeval, trace
from c14 import RichProblem

THEOREMS6 = ["Osmt.Properties.C06_refutation_leaves_unsat", "Osmt.Properties.C06_resolve_sound", "Osmt.Proof.runSteps_sound"]
THEOREMS7 = ["Osmt.Properties.C07_naive_irreducible", "Osmt.Core.aux_spec"]
LOGICS = ["QF_BOOL", "QF_UF", "QF_LRA", "QF_LIA", "QF_UFLRA"]


def make_script(idx, seed, minimal, full):
    rng = random.Random(f"c06-{seed}-{idx}-{minimal}-{full}")
    clausal = idx % 2 == 1
    logic = LOGICS[idx % len(LOGICS)] if not clausal else "QF_BOOL"
    p = RichProblem(logic, rng) if idx % 3 == 0 else gen.Problem(logic, rng, nbool=4 if clausal else 3)
    opts = [":print-success true", ":produce-unsat-cores true"]
    if minimal:
        opts.append(":minimal-unsat-cores true")
    if full:
        opts.append(":print-cores-full true")
    lines = [f"(set-option {o})" for o in opts] + [p.set_logic()] + p.decls
    nm = 0
    stack = [[]]                      # entries: (smt text without inner annotations, name or None)
    checks = []                       # per check: list of active (text, name)
    nested = {}                       # names given to sub-terms: name -> text of the sub-term

    def small():
        """unit, clause or implication over the Boolean variables: refutations by propagation, redundant members"""
        lits = [gen.smt(b) if rng.random() < 0.5 else f"(not {gen.smt(b)})" for b in rng.sample(p.bools, rng.randint(1, 3))]
        c = rng.random()
        if len(lits) == 1 or c < 0.35:
            return lits[0]
        if c < 0.8:
            return "(or " + " ".join(lits) + ")"
        if c < 0.9:
            return f"(=> {lits[0]} {lits[1]})"
        return f"(or {lits[0]} (and " + " ".join(lits[1:] + [lits[0]]) + "))"

    def check():
        lines.append("(check-sat)"); lines.append("(get-unsat-core)")
        checks.append([x for fr in stack for x in fr])

    def add(t, named=True):
        nonlocal nm
        if named:
            nm += 1
            lines.append(f"(assert (! {t} :named A{nm}))"); stack[-1].append((t, f"A{nm}"))
        else:
            lines.append(f"(assert {t})"); stack[-1].append((t, None))

    for _ in range(rng.randint(8, 20)):
        c = rng.random()
        if clausal and rng.random() < 0.1:
            # a clause, then units that falsify its literals one by one, each in a deeper scope: the refutation is found by
            # propagation from the scope assumptions, through a reason clause that holds a literal already false at the base level
            vs = rng.sample(p.bools, 3)
            ls = [gen.smt(b) if rng.random() < 0.5 else f"(not {gen.smt(b)})" for b in vs]
            neg = lambda l: l[5:-1] if l.startswith("(not ") else f"(not {l})"
            add("(or " + " ".join(ls) + ")", rng.random() < 0.8)
            add(neg(ls[0]), rng.random() < 0.8)
            for l in ls[1:]:
                lines.append("(push 1)"); stack.append([])
                add(neg(l), rng.random() < 0.8)
            check()
            continue
        named_now = [x for fr in stack for x in fr if x[1]]
        if named_now and not full and rng.random() < 0.08:
            # the term of a named assertion gets a second name inside a scope that is popped again
            inner = rng.choice(named_now)[0]
            other = small() if clausal else gen.smt(rng.choice(p.bools))
            lines.append("(push 1)"); stack.append([])
            nm += 1
            nested[f"A{nm}"] = inner
            lines.append(f"(assert (! (or (! {inner} :named A{nm}) {other}) :named A{nm + 1}))")
            nm += 1
            stack[-1].append((f"(or {inner} {other})", f"A{nm}"))
            if rng.random() < 0.5:
                check()
            lines.append("(pop 1)"); stack.pop()
            continue
        if c < 0.14:
            lines.append("(push 1)"); stack.append([])
        elif c < 0.24 and len(stack) > 1:
            lines.append("(pop 1)"); stack.pop()
        elif c < (0.86 if clausal else 0.8):
            t = small() if clausal else gen.smt(p.fla(rng.randint(0, 2)))
            everything = [x for fr in stack for x in fr]
            if stack[-1] and rng.random() < 0.12:
                t = rng.choice(stack[-1])[0]              # re-assert an earlier formula
            shown = t
            if everything and rng.random() < 0.12 and not full:
                # an existing assertion term gets a second name as a sub-term of a new assertion
                nm += 1
                inner = rng.choice(everything)[0]
                other = small() if clausal else gen.smt(rng.choice(p.bools))
                t, shown = f"(or {inner} {other})", f"(or (! {inner} :named A{nm}) {other})"
                nested[f"A{nm}"] = inner
            if rng.random() < 0.7:
                nm += 1
                lines.append(f"(assert (! {shown} :named A{nm}))"); stack[-1].append((t, f"A{nm}"))
            else:
                lines.append(f"(assert {shown})"); stack[-1].append((t, None))
        else:
            check()
    check()
    p.nested_names = nested
    return p, "\n".join(lines) + "\n", checks


def strip_names(text):
    """the term without (! t :named n) annotations"""
    def go(x):
        if isinstance(x, list):
            if x and smtlib.sym(x[0]) == "!":
                return go(x[1])
            return [go(y) for y in x]
        return x
    return smtlib.unparse(go(smtlib.parse_sexps(text)[0]))


def inner_names(text, out):
    """names given to proper sub-terms of the assertion body `text`"""
    def go(x, top):
        if isinstance(x, list):
            if x and smtlib.sym(x[0]) == "!":
                if not top:
                    for j in range(2, len(x) - 1):
                        if x[j] == ("sym", ":named"):
                            out[smtlib.sym(x[j + 1])] = strip_names(smtlib.unparse(x[1]))
                go(x[1], False)
            else:
                for y in x:
                    go(y, False)
    go(smtlib.parse_sexps(text)[0], True)


def checks_from_script(script):
    """active (text, name) lists per check-sat, for scripts in the one-command-per-line format used here"""
    stack, checks, decls, logic_line = [[]], [], [], None
    checks_from_script.nested = {}
    for l in script.strip().split("\n"):
        if l.startswith("(assert "):
            try:
                inner_names(l[len("(assert "):-1], checks_from_script.nested)
            except Exception:
                pass
    for l in script.strip().split("\n"):
        if l.startswith("(set-logic"):
            logic_line = l
        elif l.startswith("(declare-"):
            decls.append(l)
        elif l.startswith("(push"):
            stack.append([])
        elif l.startswith("(pop") and len(stack) > 1:
            stack.pop()
        elif l.startswith("(assert (! "):
            body, name = l[len("(assert (! "):-2].rsplit(" :named ", 1)
            stack[-1].append((strip_names(body), name))
        elif l.startswith("(assert "):
            stack[-1].append((strip_names(l[len("(assert "):-1]), None))
        elif l == "(check-sat)":
            checks.append([x for fr in stack for x in fr])
    return decls, logic_line, checks


class _P:
    pass


def run_case(args):
    idx, seed, binary, minimal, full = args
    if isinstance(idx, str):                       # corpus file
        script = open(idx).read()
        d, ll, checks = checks_from_script(script)
        p = _P(); p.decls = d; p.logic = "corpus"; p.set_logic = lambda ll=ll: ll
        p.nested_names = dict(checks_from_script.nested)
    else:
        p, script, checks = make_script(idx, seed, minimal, full)
    tp = common.WORK / f"c06-{os.getpid()}.trace"
    tp.unlink(missing_ok=True)
    out, err, rc = runner.run_opensmt(binary, script, tp, timeout=30)
    res = {"idx": idx, "script": script, "problems": [], "cores": 0, "members": 0, "logic": p.logic}
    # which checks see two current assertions with the same (constructed) term? (from opensmt's own term ids)
    dup_checks, twin_checks = set(), set()
    if tp.exists():
        try:
            tr = trace.Trace(tp)
            ms0 = next((e[2] for e in tr.main if e[1] in ("as", "chk")), None)
            levels, kk = [[]], -1
            popped_canon, canon_memo = set(), {}

            def canon(tt, i):
                """the term with nested conjunctions / disjunctions flattened and arguments sorted (what max-arity
                flattening makes of it)"""
                key = (id(tt), i)
                if key not in canon_memo:
                    n = tt.nodes[i]
                    kids = []
                    for a in n.args:
                        ca = canon(tt, a)
                        if n.op in ("and", "or") and ca[0] == n.op:
                            kids += list(ca[1])
                        else:
                            kids.append(ca)
                    if n.op in ("and", "or"):
                        kids = sorted(set(kids), key=repr)
                    canon_memo[key] = (n.op if not n.op.startswith(("var:", "uf:")) else n.op + ":" + n.name, tuple(kids))
                return canon_memo[key]
            for e in tr.main:
                if len(e) < 3 or e[2] != ms0:
                    continue
                if e[1] == "as":
                    while len(levels) <= e[3]:
                        levels.append([])
                    levels[e[3]].append((e[4], e[5]))
                elif e[1] == "fr" and e[3] == "push":
                    levels.append([])
                elif e[1] == "fr" and e[3] == "pop" and len(levels) > 1:
                    for (lg, t) in levels.pop():
                        popped_canon.add(canon(tr.logics[lg], t))
                elif e[1] == "chk":
                    kk += 1
                    act = [t for lv in levels for (lg, t) in lv]
                    if len(set(act)) < len(act):
                        dup_checks.add(kk)
                    if any(canon(tr.logics[lg], t) in popped_canon for lv in levels for (lg, t) in lv):
                        twin_checks.add(kk)
        except Exception:
            pass
        tp.unlink(missing_ok=True)
    res["dup_checks"] = sorted(dup_checks)
    res["twin_checks"] = sorted(twin_checks)
    if rc == "timeout":
        return res                    # inconclusive, counted as a case without cores
    if rc not in (0, 1):
        res["problems"].append({"what": f"opensmt terminated abnormally (status {rc})", "stderr": err[-300:]})
        return res
    try:
        outs = smtlib.parse_sexps(out)
    except smtlib.ParseError as e:
        res["problems"].append({"what": f"unparsable output: {e}"}); return res
    lines = script.strip().split("\n")
    if len(outs) != len(lines):
        res["problems"].append({"what": f"{len(lines)} commands, {len(outs)} responses", "stdout": out[-300:]}); return res
    k = -1
    decls = p.decls
    logic_line = p.set_logic()
    for i, l in enumerate(lines):
        if l != "(check-sat)":
            continue
        k += 1
        if smtlib.sym(outs[i]) != "unsat":
            continue
        core = outs[i + 1]
        if not isinstance(core, list) or (core and smtlib.sym(core[0]) == "error"):
            res["problems"].append({"what": f"check #{k}: get-unsat-core after unsat gives {core}"}); continue
        active = checks[k]
        res["cores"] += 1
        if not full:
            names = [smtlib.sym(x) for x in core]
            cur = {n: t for t, n in active if n}
            if len(set(names)) != len(names):
                res["problems"].append({"what": f"check #{k}: core repeats a name: {names}"})
            stale = [n for n in names if n not in cur]
            if stale:
                nn = getattr(p, "nested_names", {})
                texts = {t for t, _ in active}
                res["problems"].append({"what": f"check #{k}: core names assertions that are not on the stack: {stale}",
                                        "nested_name_of_assertion_term": all(n in nn and nn[n] in texts for n in stale)}); continue
            members = [cur[n] for n in names]
            background = [t for t, n in active if n is None]
        else:
            # full cores print formulas: each must be (equivalent to) a current assertion
            sc = smtlib.Script(logic_line + "\n" + "\n".join(decls) + "\n")
            try:
                printed = [sc.table.term(x) for x in core]
                act_ids = [smtlib.Script.__new__(smtlib.Script) and None for _ in ()]
                act_ids = []
                for t, n in active:
                    act_ids.append(sc.table.term(smtlib.parse_sexps(t)[0]))
            except smtlib.ParseError as e:
                res["problems"].append({"what": f"check #{k}: printed core unreadable: {e}"}); continue
            rng = random.Random(f"{seed}-{idx}-{k}")
            ufd = termeval.uf_defs(sc.table, rng)
            asgs = termeval.grid(sc.table, rng, 16)
            vals = termeval.eval_under(sc.table, asgs, printed + act_ids, fun_defs=ufd)
            npr = len(printed)
            for j in range(npr):
                col = [row[j] for row in vals]
                if not any(col == [row[npr + a] for row in vals] for a in range(len(act_ids))):
                    res["problems"].append({"what": f"check #{k}: printed core formula #{j} is not (equivalent to) any current assertion",
                                            "formula": str(core[j])[:300]})
            # printed text is re-fed through smtlib->SMT text: use the original printed s-expressions
            members = [sexp_text(x) for x in core]
            background = []
        res["members"] += len(members)
        v = certify.verdict(decls, background + members, logic_line, binary)
        if v.startswith("sat"):
            res["problems"].append({"what": f"check #{k}: the core together with the unnamed assertions is satisfiable ({v})",
                                    "core": members, "background": background, "duplicate_assertion_terms": k in dup_checks,
                                    "popped_twin_terms": k in twin_checks})
        elif v != "unsat-certified":
            res.setdefault("uncertified", 0); res["uncertified"] = res.get("uncertified", 0) + 1
        if minimal and v.startswith("unsat"):
            for j in range(len(members)):
                rest = members[:j] + members[j + 1:]
                w = certify.verdict(decls, background + rest, logic_line, binary)
                if w.startswith("unsat"):
                    res["problems"].append({"what": f"check #{k}: minimal core is reducible: without member #{j} it is still unsatisfiable ({w})",
                                            "core": members, "removable": members[j], "minimal": True,
                                            "duplicate_assertion_terms": k in dup_checks})
                    break
    return res


def sexp_text(x):
    if isinstance(x, list):
        return "(" + " ".join(sexp_text(y) for y in x) + ")"
    if x[0] == "str":
        return '"' + x[1] + '"'
    s = x[1]
    return s if re.fullmatch(r"[A-Za-z0-9_~!@$%^&*+=<>.?/\-]+", s) else f"|{s}|"


def classify(pr, res):
    """known findings are identified by the shape of the history, not by the symptom"""
    if pr.get("duplicate_assertion_terms"):
        return "duplicate-assertion-term"
    if pr.get("popped_twin_terms"):
        return "popped-twin-term"
    if pr.get("nested_name_of_assertion_term"):
        return "nested-name-of-assertion-term"
    return None


def run(tier, pid="C06"):
    minimal_modes = (False,) if pid == "C06" else (True,)
    chk = common.Check(pid, tier)
    chk.lean_obligations(THEOREMS6 if pid == "C06" else THEOREMS7)
    binary = common.opensmt_bin("hooks")
    n = (110 if pid == "C06" else 70) if tier == "quick" else 2500
    jobs = [(i, chk.seed, binary, m, (i % 4 == 3)) for i in range(n) for m in minimal_modes]
    for f in sorted((common.VERIF / "corpus" / "C06").glob("*.smt2")):
        txt = f.read_text()
        if ("minimal-unsat-cores" in txt) == (pid == "C07"):
            jobs.insert(0, (str(f), chk.seed, binary, pid == "C07", "print-cores-full" in txt))
    with mp.Pool(min(common.JOBS, 14)) as pool:
        results = pool.map(run_case, jobs, chunksize=2)
    cores = members = uncert = 0
    for r in results:
        cores += r["cores"]; members += r["members"]; uncert += r.get("uncertified", 0)
        chk.case(key=(r["idx"], r["cores"]), nontrivial=r["cores"] > 0,
                 sample={"logic": r["logic"], "cores": r["cores"], "script_tail": r["script"][-300:]} if r["cores"] else None)
        mine = [pr for pr in r["problems"] if (pid == "C07") == bool(pr.get("minimal"))] if pid == "C07" else \
               [pr for pr in r["problems"] if not pr.get("minimal")]
        chk.obligation(not mine)
        if r["cores"]:
            chk.cov["traces_validated_against_impl"] += 1
        for pr in mine[:1]:
            chk.violation("core", f"{pr['what']} ({r['logic']})", {"script": r["script"], "problem": pr}, match_key=classify(pr, r))
    chk.assumptions = ["unsat verdicts of the re-decided sets are certified by the Lean machine on a fresh traced run, sat verdicts by "
                       "the Lean evaluator on the printed model; uncertified verdicts are counted, not trusted as violations"]
    return chk.finish(rule="one case = one history with named/unnamed assertions and (get-unsat-core) after every check; non-trivial = "
                           "at least one core printed; every core is re-decided together with the unnamed current assertions"
                           + ("; each member of a minimal core is dropped in turn and the rest must be satisfiable" if pid == "C07" else ""),
                      extra={"cores": cores, "core_members": members, "uncertified_verdicts": uncert})
