"""C20: the pipe-mode scanner against its Lean mirror on exhaustive short byte strings under several chunk schedules
(frames emitted, unbalanced error), and pipe mode vs file mode on valid scripts with adversarial layout."""
import itertools, multiprocessing as mp, os, random, subprocess
from urllib.parse import unquote
import common, gen, runner

THEOREMS = ["Osmt.Properties.C20_chunk_independent", "Osmt.Properties.C20_two_chunkings_agree",
            "Osmt.Properties.C20_frames_prefix", "Osmt.Properties.C20_depth"]
ALPHABET = ['(', ')', '"', '|', ';', '\\', 'a', ' ', '\n']
SCHEDULES = ["0", "1", "2,3", "5,1,1", "16", "3,29"]


def enc(s):
    return "%" if s == "" else "".join(c if (33 <= ord(c) < 127 and c != "%") else "%%%02X" % ord(c) for c in s)


def shim():
    so = common.WORK / f"harness-{common.repo_key()}" / "chunkread.so"
    so.parent.mkdir(parents=True, exist_ok=True)
    r = common.sh(["gcc", "-shared", "-fPIC", "-O1", "-o", str(so), str(common.VERIF / "harness" / "chunkread.c"), "-ldl"])
    if r.returncode:
        raise RuntimeError("cannot build chunkread.so: " + r.stderr)
    return so


def pipe_run(binary, so, data, sched, trace=True, timeout=20):
    tp = common.WORK / f"pipe-{os.getpid()}.trace"
    tp.unlink(missing_ok=True)
    env = dict(os.environ, LD_PRELOAD=str(so), VERIF_CHUNKS=sched)
    if trace:
        env["OPENSMT_VERIF_TRACE"] = str(tp)
    try:
        r = subprocess.run([str(binary), "-p"], input=data.encode("latin-1"), capture_output=True, timeout=timeout, env=env)
        rc, out = r.returncode, r.stdout.decode("latin-1")
    except subprocess.TimeoutExpired:
        rc, out = "timeout", ""
    frames = []
    if trace and tp.exists():
        for l in tp.read_text().split("\n"):
            if l.startswith("pc "):
                frames.append(l)
            elif l.startswith("pc-unbalanced"):
                frames.append("pc-unbalanced")
        tp.unlink()
    return rc, out, frames


def framer_case(args):
    strings, binary, so = args
    # model once per string
    p = common.WORK / f"pipe-{os.getpid()}.in"
    p.write_text("\n".join(enc(s) for s in strings) + "\n")
    mo = common.sh([str(common.model_exe()), "pipe", str(p)]).stdout.split("\n")
    p.unlink(missing_ok=True)
    model, cur = [], []
    for l in mo:
        if l == "end":
            model.append(cur); cur = []
        elif l:
            cur.append(l)
    bad = []
    n = 0
    for s, m in zip(strings, model):
        for sched in (SCHEDULES if len(s) > 4 else SCHEDULES[:3] if len(s) > 2 else SCHEDULES[:2]):
            rc, out, frames = pipe_run(binary, so, s, sched)
            n += 1
            # after the first "unbalanced parentheses" error the C++ still scans the rest of the bytes already in its
            # buffer (how many depends on the read sizes) before it stops; the input is not a valid script any more, so
            # both sides are compared up to and including the first error only
            if "pc-unbalanced" in frames:
                frames = frames[:frames.index("pc-unbalanced") + 1]
            # a frame whose parsing makes the process exit (lexer `exit(1)` on a stray character) ends the run early:
            # the implementation's frames must then be a prefix of the model's
            ok = frames == m if rc in (0, 1) and "Syntax error" not in out else frames == m[:len(frames)]
            if rc not in (0, 1):
                ok = False
            if not ok:
                bad.append({"input": s, "schedule": sched, "impl": frames, "model": m, "status": rc, "stdout": out[-200:]})
                break
    return n, bad


def layout(script, rng):
    """same commands, adversarial layout: comments with parentheses, split lines, spaces, quoted symbols, strings"""
    out = []          # (text, ends_with_comment)
    for line in script.strip().split("\n"):
        c = rng.random()
        if c < 0.25:
            out.append((line.replace(" ", "\n", 1), False))
        elif c < 0.4:
            out.append((line + " ; comment ) with ( parens \" and | bars", True))
        elif c < 0.5:
            out.append(("  \t" + line + "   ", False))
        else:
            out.append((line, False))
        if rng.random() < 0.15:
            extra = rng.choice(['(echo "a)b(c")', '(echo "semi;colon")', '(echo "esc\\"aped)")', "; ( only a comment", '(echo "")',
                                '(echo "back\\\\slash")', '(echo "lone\\backslash (")', '(echo "tab\there")', '(echo "x\\y\\z")', "; comment ending in a backslash \\",
                                '(echo "two\nlines")'])
            out.append((extra, extra.startswith(";")))
    joiner = rng.choice(["\n", " ", "\n\n", "", "\r\n", "\t", " \r\n "])
    text = ""
    for piece, comment in out:
        text += piece + ("\n" if comment else joiner)
    return text + "\n"


def script_case(args):
    idx, seed, binary, so = args
    rng = random.Random(f"c20-{seed}-{idx}")
    if isinstance(idx, str):                      # corpus file, as it is
        text = open(idx).read()
    else:
        logic = rng.choice(["QF_UF", "QF_LRA", "QF_LIA"])
        p, script, checks = gen.history(logic, rng, options=[":print-success true"] if idx % 2 else [])
        if idx % 3 == 0:
            script = script.replace("(declare-fun b0 () Bool)", "(declare-fun |b 0(;| () Bool)").replace(" b0", " |b 0(;|")
        text = layout(script, rng)
    fo, fe, frc = runner.run_opensmt(binary, text, None, timeout=20)
    res = []
    for sched in rng.sample(SCHEDULES, 3):
        rc, out, _ = pipe_run(binary, so, text, sched, trace=False)
        if (rc, out) != (frc, fo):
            res.append({"schedule": sched, "file_status": frc, "pipe_status": rc, "file_out": fo[-600:], "pipe_out": out[-600:]})
            break
    return {"idx": idx, "script": text, "problems": res}


def run(tier):
    chk = common.Check("C20", tier)
    chk.lean_obligations(THEOREMS)
    binary = common.opensmt_bin("hooks")
    so = shim()
    maxlen = 4 if tier == "quick" else 6
    strings = []
    for n in range(0, maxlen + 1):
        strings += ["".join(t) for t in itertools.product(ALPHABET, repeat=n)]
    rng = chk.rng
    if tier == "quick":
        strings = [s for s in strings if len(s) <= 2] + rng.sample([s for s in strings if len(s) == 3], 300) + \
            rng.sample([s for s in strings if len(s) == 4], 300)
    # longer structured strings
    for _ in range(300 if tier == "quick" else 3000):
        strings.append("".join(rng.choice(ALPHABET + ['(', ')', 'a', '"', '\\']) for _ in range(rng.randint(5, 40))))
    chunks = [strings[i::28] for i in range(28)]
    with mp.Pool(min(common.JOBS, 14)) as pool:
        res = pool.map(framer_case, [(c, binary, so) for c in chunks])
    runs = 0
    for n, bad in res:
        runs += n
        for b in bad[:2]:
            chk.obligation(False)
            chk.violation("framer", f"pipe scanner and Lean mirror differ on {b['input']!r} with read sizes {b['schedule']}",
                          b, found_input=False)
    for s in strings[::211]:
        chk.case(key=s, sample={"bytes": s})
    chk.cov["evaluations"] = runs
    for s in strings:
        chk._distinct.add(s)
    chk.obligation(all(not bad for _, bad in res))
    # ---- pipe vs file on valid scripts
    nscr = 50 if tier == "quick" else 1500
    with mp.Pool(min(common.JOBS, 14)) as pool:
        corpus = sorted(str(f) for f in (common.VERIF / "corpus" / "C20").glob("*.smt2"))
        sres = pool.map(script_case, [(i, chk.seed, binary, so) for i in corpus + list(range(nscr))], chunksize=2)
    for r in sres:
        chk.case(key=("script", r["idx"]))
        chk.obligation(not r["problems"])
        for pr in r["problems"][:1]:
            chk.violation("pipe-vs-file", f"pipe mode (read sizes {pr['schedule']}) and file mode differ", {"script": r["script"], **pr},
                          match_key="instance-name" if "(get-option :instance-name)" in r["script"] and
                          pr["file_out"].replace("stdin", "").count("\n") == pr["pipe_out"].count("\n") else None)
    chk.assumptions = ["scripts contain no (exit) command (the scanner stops after executing it)",
                       "a frame on which the lexer calls exit(1) ends the run: frames are then compared as a prefix"]
    return chk.finish(rule=f"all byte strings up to length {maxlen if tier != 'quick' else 3} (sampled at 4 in quick) over the "
                           "9-symbol alphabet ( ) \" | ; \\ a space newline plus random longer ones, each under up to 7 read-size "
                           "schedules: frames and the unbalanced error of the real scanner (hook trace) vs the Lean mirror; valid "
                           "scripts with adversarial layout: stdout and exit status of pipe mode vs file mode",
                      extra={"byte_strings": len(strings), "pipe_runs": runs, "scripts": nscr, "exhaustive": tier != "quick"})
