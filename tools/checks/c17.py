"""C17: what the solver prints as SMT-LIB reads back to the same object. Scripts over symbols with awkward names (quoted,
reserved words, digits first, names that look like the solver's own) are run; printed models, get-value answers, full unsat
cores, interpolants and dumped queries are read back by this project's reader and by opensmt itself (dumped queries also by
z3) and must denote what they denoted: the model read back satisfies the assertions, values agree with it, a core read back
is unsatisfiable, a dumped query gets the same answer."""
import multiprocessing as mp, os, random, re, subprocess, tempfile
import common, gen, runner, smtlib, modelcheck, extsolve

THEOREMS = ["Osmt.Properties.C17_protect_roundtrip", "Osmt.Properties.C17_protect_is_symbol", "Osmt.Properties.C17_quoted_needed"]
NAMES = ["|a b|", "|let|", "|assert|", "|check-sat|", "|par|", "|exists|", "|_|", "|!|", "|as|", "|1st|", "|0|", "|(|", "|a;b|", "|\"q\"|",
         "x!0", "y!1", "a.b", "r0", "x1", "|x y z|", "|define-fun|", "|Bool|", "|true |", "|#b01|", "|:key|", "|a'|", "|forall|", "|NUMERAL|",
         "|set-logic|", "|x\ty|", "n!1", "|ite5_0|", "d2", "|-1|", "|a|", "|$x|"]
LOGICS = ["QF_LIA", "QF_LRA", "QF_UF", "QF_UFLIA", "QF_LIA", "QF_LRA"]


RESERVED = {"let", "assert", "check-sat", "par", "exists", "_", "!", "as", "define-fun", "forall", "NUMERAL", "set-logic", "Bool"}


def uses_reserved(script):
    """names that are reserved words of SMT-LIB even when quoted: other tools may refuse to declare them"""
    return any(f"|{w}|" in script for w in RESERVED)


def plain(n):
    return n[1:-1] if n.startswith("|") else n


class WeirdProblem(gen.Problem):
    def __init__(self, logic, rng):
        super().__init__(logic, rng)
        pool = [n for n in NAMES]
        rng.shuffle(pool)
        used = {v[1] for v in self.bools + self.nums} | {"f", "g", "p", "h", "q", "U"}
        ren = {}
        def fresh():
            while pool:
                n = pool.pop()
                if plain(n) not in used:
                    used.add(plain(n)); return n
            return None
        for v in self.bools + self.nums:
            n = fresh()
            if n and rng.random() < 0.8:
                ren[v[1]] = n
        for fn in ("f", "g", "p", "h", "q"):
            n = fresh()
            if n and rng.random() < 0.6:
                ren[fn] = n
        self.ren = ren
        self.bools = [("var", ren.get(b[1], b[1]), b[2]) for b in self.bools]
        self.nums = [("var", ren.get(x[1], x[1]), x[2]) for x in self.nums]
        def rd(d):
            m = re.match(r"\(declare-fun (\S+) (.*)$", d)
            return f"(declare-fun {ren.get(m.group(1), m.group(1))} {m.group(2)}" if m else d
        self.decls = [rd(d) for d in self.decls]

    def nterm(self, d=2):
        return self._ren(super().nterm(d))

    def atom(self):
        return self._ren(super().atom())

    def _ren(self, t):
        if t[0] == "uf":
            return ("uf", self.ren.get(t[1], t[1]), t[2], [self._ren(a) for a in t[3]])
        if t[0] == "app":
            return ("app", t[1], t[2], [self._ren(a) for a in t[3]])
        return t


def split_top(text):
    """the top-level s-expressions / atoms of `text` as raw substrings (opensmt's lexical conventions), so that read-back uses
    exactly the characters that were printed"""
    out, i, n = [], 0, len(text)
    while i < n:
        c = text[i]
        if c.isspace():
            i += 1; continue
        if c == ";":
            while i < n and text[i] != "\n": i += 1
            continue
        start, depth = i, 0
        while i < n:
            c = text[i]
            if c == "|":
                i += 1
                while i < n and text[i] != "|": i += 1
                i += 1
            elif c == '"':
                i += 1
                while i < n and text[i] != '"':
                    i += 2 if text[i] == "\\" else 1
                i += 1
            elif c == "(":
                depth += 1; i += 1
            elif c == ")":
                depth -= 1; i += 1
                if depth <= 0: break
            elif c.isspace() and depth == 0:
                break
            else:
                i += 1
            if depth == 0 and i < n and (text[i].isspace() or text[i] in "()"):
                break
        out.append(text[start:i])
    return out


def inner(raw):
    """raw text of the elements of a printed list"""
    raw = raw.strip()
    return split_top(raw[1:-1]) if raw.startswith("(") and raw.endswith(")") else []


def opensmt_answers(binary, script, timeout=20):
    out, err, rc = runner.run_opensmt(binary, script, None, timeout=timeout)
    return out, rc


def run_case(args):
    idx, seed, binary = args
    rng = random.Random(f"c17-{seed}-{idx}")
    logic = LOGICS[idx % len(LOGICS)]
    mode = ["model", "core", "dump", "itp"][idx % 4] if logic in ("QF_LIA", "QF_LRA", "QF_UF") else ["model", "dump"][idx % 2]
    p = WeirdProblem(logic, rng)
    res = {"idx": idx, "logic": logic, "mode": mode, "problems": [], "objects": 0, "script": ""}
    opts = {"model": [":produce-models true"], "core": [":produce-unsat-cores true", ":print-cores-full true"],
            "dump": [":produce-models true"], "itp": [":produce-interpolants true"]}[mode]
    tmpd = None
    if mode == "dump":
        tmpd = tempfile.mkdtemp(prefix="c17-", dir=str(common.WORK))
        opts += [":dump-query true", f":dump-query-name \"{tmpd}/q\""]
    lines = [f"(set-option :print-success true)"] + [f"(set-option {o})" for o in opts] + [p.set_logic()] + p.decls
    asserts = []
    nm = 0
    for _ in range(rng.randint(3, 8)):
        t = gen.smt(p.fla(rng.randint(0, 2)))
        asserts.append(t)
        if mode == "itp" or (mode == "core" and rng.random() < 0.5):
            nm += 1
            lines.append(f"(assert (! {t} :named |n {nm}|))" if nm % 2 else f"(assert (! {t} :named N{nm}))")
        else:
            lines.append(f"(assert {t})")
    lines.append("(check-sat)")
    if mode in ("model", "dump"):
        lines.append("(get-model)")
        vals = [gen.smt(x) for x in (p.bools[:2] + p.nums[:2])] + [gen.smt(p.fla(1))]
        if p.nums:
            vals.append(gen.smt(p.nterm(1)))
        lines.append("(get-value (" + " ".join(vals) + "))")
    elif mode == "core":
        lines.append("(get-unsat-core)")
    else:
        names = [f"|n {k}|" if k % 2 else f"N{k}" for k in range(1, nm + 1)]
        if len(names) >= 2:
            cut = rng.randint(1, len(names) - 1)
            grp = lambda g: g[0] if len(g) == 1 else "(and " + " ".join(g) + ")"
            lines.append(f"(get-interpolants {grp(names[:cut])} {grp(names[cut:])})")
    script = "\n".join(lines) + "\n"
    res["script"] = script
    out, rc = opensmt_answers(binary, script)
    if rc == "timeout":
        return res
    if rc not in (0, 1):
        res["problems"].append({"what": f"opensmt terminated abnormally (status {rc})"}); return res
    try:
        outs = smtlib.parse_sexps(out)
    except smtlib.ParseError as e:
        res["problems"].append({"what": f"the output is not a sequence of s-expressions for this project's reader: {e}", "stdout": out[-400:]})
        return res
    raws = split_top(out)
    if len(outs) != len(lines) or len(raws) != len(lines):
        res["problems"].append({"what": f"{len(lines)} commands, {len(outs)} responses ({len(raws)} raw)", "stdout": out[-400:]}); return res
    errs = [smtlib.unparse(o)[:160] for o, l in zip(outs, lines) if modelcheck.is_error(o) and not l.startswith("(get-")]
    if errs:
        res["problems"].append({"what": f"a legal command over awkward names is rejected: {errs[0]}"}); return res
    ci = lines.index("(check-sat)")
    answer = smtlib.sym(outs[ci])
    header = [p.set_logic()] + [d for d in p.decls if d.startswith("(declare-sort")]
    if mode in ("model", "dump") and answer == "sat":
        # (a) this project's reader + Lean evaluator (as C03)
        try:
            n, problems, _ = modelcheck.check_models(script, out)
        except Exception as e:
            n, problems = 0, [{"what": f"model unreadable for this project's reader: {e!r}"}]
        res["objects"] += n
        for pr in problems[:1]:
            res["problems"].append({"what": f"printed model / values read back: {pr['what']}"}); return res
        # (b) opensmt reads its own model: the definitions replace the declarations, the assertions must hold
        model = outs[ci + 1]
        if isinstance(model, list) and not modelcheck.is_error(model) and logic in ("QF_LIA", "QF_LRA"):
            defs = [d for d in inner(raws[ci + 1]) if d.lstrip("( \n").startswith("define-fun")]
            eqs = []
            if isinstance(outs[ci + 2], list) and not modelcheck.is_error(outs[ci + 2]):
                for pair in inner(raws[ci + 2]):
                    tv = inner(pair)
                    if len(tv) == 2:
                        eqs.append(f"(assert (= {tv[0]} {tv[1]}))")
            s2 = "\n".join(["(set-option :print-success true)"] + header + defs + [f"(assert {a})" for a in asserts] + eqs + ["(check-sat)"]) + "\n"
            o2, rc2 = opensmt_answers(binary, s2)
            res["objects"] += 1
            if "(error" in o2 or runner.answers(o2) != ["sat"]:
                bad = [l for l in o2.split("\n") if "(error" in l][:1] or runner.answers(o2)
                res["problems"].append({"what": f"opensmt cannot read back its own model and values as a model of the assertions: {bad}",
                                        "readback_script": s2}); return res
    if mode == "core" and answer == "unsat":
        core = outs[ci + 1]
        if isinstance(core, list) and not modelcheck.is_error(core):
            s2 = "\n".join(["(set-option :print-success true)"] + header + [d for d in p.decls if not d.startswith("(declare-sort")]
                           + [f"(assert {x})" for x in inner(raws[ci + 1])] + ["(check-sat)"]) + "\n"
            o2, rc2 = opensmt_answers(binary, s2)
            res["objects"] += 1
            if "(error" in o2 or runner.answers(o2) != ["unsat"]:
                bad = [l for l in o2.split("\n") if "(error" in l][:1] or runner.answers(o2)
                res["problems"].append({"what": f"the printed full core read back by opensmt is not unsatisfiable: {bad}", "readback_script": s2}); return res
            z = extsolve.z3_run(re.sub(r"\(set-option[^\n]*\n", "", s2).replace(p.set_logic(), "(set-logic ALL)"), 10).split()
            if not uses_reserved(script) and z[:1] not in (["unsat"], ["unknown"], ["timeout"]):
                res["problems"].append({"what": f"the printed full core read back by z3: {z[:6]}", "readback_script": s2}); return res
    if mode == "itp" and answer == "unsat" and lines[-1].startswith("(get-interpolants"):
        itp = outs[-1]
        if isinstance(itp, list) and not modelcheck.is_error(itp):
            s2 = "\n".join(["(set-option :print-success true)"] + header + [d for d in p.decls if not d.startswith("(declare-sort")]
                           + [f"(assert {x})" for x in inner(raws[-1])] + ["(check-sat)"]) + "\n"
            o2, rc2 = opensmt_answers(binary, s2)
            res["objects"] += 1
            if "(error" in o2:
                res["problems"].append({"what": f"the printed interpolant cannot be read back by opensmt: {[l for l in o2.split(chr(10)) if '(error' in l][:1]}",
                                        "readback_script": s2}); return res
    if mode == "dump" and tmpd:
        for f in sorted(os.listdir(tmpd)):
            q = open(os.path.join(tmpd, f)).read()
            o2, rc2 = opensmt_answers(binary, q)
            res["objects"] += 1
            if "(error" in o2 or runner.answers(o2)[:1] != [answer]:
                res["problems"].append({"what": f"the dumped query read back by opensmt answers {runner.answers(o2)[:1]} "
                                                f"{[l for l in o2.split(chr(10)) if '(error' in l][:1]}, the original check answered {answer}",
                                        "dumped": q[-1500:]}); break
            z = extsolve.z3_run(q.replace(p.set_logic(), "(set-logic ALL)").replace("(exit)", ""), 10).split()
            if not uses_reserved(script) and z[:1] not in ([answer], ["unknown"], ["timeout"]):
                res["problems"].append({"what": f"the dumped query read by z3: {z[:6]}, the original check answered {answer}", "dumped": q[-1500:]}); break
        for f in os.listdir(tmpd):
            os.unlink(os.path.join(tmpd, f))
        os.rmdir(tmpd)
    return res


def overload_case(args):
    """one name declared twice with different sorts at different moments of an incremental script: everything printed after
    the second declaration must disambiguate ((as a Int)) and read back, also what mentions a symbol that was printed before"""
    idx, seed, binary = args
    rng = random.Random(f"c17-ovl-{seed}-{idx}")
    logic = ["QF_LIA", "QF_LRA"][idx % 2]
    S = "Int" if logic == "QF_LIA" else "Real"
    nm = rng.choice(["a", "v", "|a b|", "x1", "|c;d|"])
    mode = ["core", "value", "dump"][idx % 3]
    res = {"idx": f"ovl{idx}", "logic": logic, "mode": "overload-" + mode, "problems": [], "objects": 0, "script": ""}
    opts = {"core": [":produce-unsat-cores true", ":print-cores-full true"], "value": [":produce-models true"], "dump": [":produce-models true"]}[mode]
    tmpd = None
    if mode == "dump":
        tmpd = tempfile.mkdtemp(prefix="c17-", dir=str(common.WORK))
        opts += [":dump-query true", f":dump-query-name \"{tmpd}/q\""]
    k = rng.randint(1, 6)
    decl1, decl2 = f"(declare-fun {nm} () {S})", f"(declare-fun {nm} () Bool)"
    if rng.random() < 0.3:
        decl1, decl2 = decl2, decl1                     # the Boolean one first
    num, boo = f"(as {nm} {S})", f"(as {nm} Bool)"
    first_num = decl1.endswith(f"{S})")
    lines = ["(set-option :print-success true)"] + [f"(set-option {o})" for o in opts] + [f"(set-logic {logic})", decl1, f"(declare-fun b () {S})", "(declare-fun c () Bool)"]
    if rng.random() < 0.8:                              # the first symbol is printed once while it is still unambiguous
        lines += ["(push 1)"]
        if first_num:
            lines += [f"(assert (> {nm} b))", f"(assert (< {nm} b))" if mode == "core" else f"(assert (< b {k}))"]
        else:
            lines += [f"(assert (or {nm} c))", f"(assert (not {nm}))", "(assert (not c))" if mode == "core" else "(assert (> b 0))"]
        lines += ["(check-sat)", "(get-unsat-core)" if mode == "core" else f"(get-value ({nm} b))", "(pop 1)"]
    lines.append(decl2)
    second = [f"(assert (or {boo} (> b {k})))", f"(assert (> {num} b))"]
    second.append(f"(assert (< {num} b))" if mode == "core" else f"(assert (=> {boo} (< b {k + 3})))")
    rng.shuffle(second)
    lines += second + ["(check-sat)"]
    lines.append("(get-unsat-core)" if mode == "core" else f"(get-value ({num} {boo} (+ {num} b) (and {boo} c)))")
    script = "\n".join(lines) + "\n"
    res["script"] = script
    out, rc = opensmt_answers(binary, script)
    if rc == "timeout":
        return res
    if rc not in (0, 1):
        res["problems"].append({"what": f"opensmt terminated abnormally (status {rc})"}); return res
    raws = split_top(out)
    if len(raws) != len(lines):
        res["problems"].append({"what": f"{len(lines)} commands, {len(raws)} responses", "stdout": out[-400:]}); return res
    errs = [r[:160] for r, l in zip(raws, lines) if r.lstrip().startswith("(error") and not l.startswith("(get-")]
    if errs:
        res["problems"].append({"what": f"a legal command over a name declared with two sorts is rejected: {errs[0]}"}); return res
    header = [f"(set-logic {logic})", decl1, f"(declare-fun b () {S})", "(declare-fun c () Bool)", decl2]
    ci = len(lines) - 2
    answer = raws[ci].strip()
    if mode == "core" and answer == "unsat" and not raws[-1].lstrip().startswith("(error"):
        s2 = "\n".join(["(set-option :print-success true)"] + header + [f"(assert {x})" for x in inner(raws[-1])] + ["(check-sat)"]) + "\n"
        o2, rc2 = opensmt_answers(binary, s2)
        res["objects"] += 1
        if "(error" in o2 or runner.answers(o2) != ["unsat"]:
            bad = [l for l in o2.split("\n") if "(error" in l][:1] or runner.answers(o2)
            res["problems"].append({"what": f"the printed full core read back by opensmt is not unsatisfiable: {bad}", "readback_script": s2}); return res
    if mode in ("value", "dump") and answer == "sat" and not raws[-1].lstrip().startswith("(error"):
        eqs = []
        for pair in inner(raws[-1]):
            tv = inner(pair)
            if len(tv) == 2:
                eqs.append(f"(assert (= {tv[0]} {tv[1]}))")
        s2 = "\n".join(["(set-option :print-success true)"] + header + second + eqs + ["(check-sat)"]) + "\n"
        o2, rc2 = opensmt_answers(binary, s2)
        res["objects"] += 1
        if "(error" in o2 or runner.answers(o2) != ["sat"] or len(eqs) != 4:
            bad = [l for l in o2.split("\n") if "(error" in l][:1] or runner.answers(o2)
            res["problems"].append({"what": f"the printed values (terms over a name declared with two sorts) do not read back as values of the assertions: {bad}",
                                    "readback_script": s2}); return res
    if mode == "dump" and tmpd:
        for f in sorted(os.listdir(tmpd)):
            q = open(os.path.join(tmpd, f)).read()
            o2, rc2 = opensmt_answers(binary, q)
            res["objects"] += 1
            if "(error" in o2 or not runner.answers(o2):
                res["problems"].append({"what": f"the dumped query over a name declared with two sorts cannot be read back by opensmt: "
                                                f"{[l for l in o2.split(chr(10)) if '(error' in l][:1]}", "dumped": q[-1500:]}); break
        for f in os.listdir(tmpd):
            os.unlink(os.path.join(tmpd, f))
        os.rmdir(tmpd)
    return res


def names_mirror(seed, n):
    """Logic::protectName against its Lean mirror on generated names (simple, with quotable characters, number-like, keywords)"""
    import subprocess
    rng = random.Random(f"c17-names-{seed}")
    words = ["let", "as", "!", "_", "par", "NUMERAL", "numeral", "DECIMAL", "STRING", "exists", "forall", "assert", "check-sat", "push", "pop",
             "echo", "none", "theory", "get-model", "true", "false", "and", "not", "ite", "Bool", "x", "-", "-1", "-a", "0", "1st", "--1", "a-1",
             ".frame", "@2", "a b", "a;b", "a(b", "a\"b", "a'", "a\tb", "é", "a#b", "a,b", "a:b", "a{b", "a[b", "a`b", "~!@$%^&*_-+=<>.?/"]
    pool = "abzAZ019~!@$%^&*_-+=<>.?/ ;()\"'#,:[]{}`\t\x01\xe9"
    names = list(words)
    for _ in range(n):
        if rng.random() < 0.3:
            w = rng.choice(words)
            names.append(rng.choice([w + rng.choice(pool), rng.choice(pool) + w, w.upper(), w[:-1] or w]))
        else:
            names.append("".join(rng.choice(pool) for _ in range(rng.randint(1, 6))))
    names = [x for x in names if x and "|" not in x and "\\" not in x and "\n" not in x]
    text = "\n".join(" ".join(str(b) for b in x.encode("latin-1")) for x in names) + "\n"
    exe = common.compile_harness("quote_harness", ["quote_harness.cc"], link_lib=True)
    impl = subprocess.run([str(exe)], input=text, capture_output=True, text=True, timeout=60).stdout.strip().split("\n")
    fp = common.WORK / f"c17-names-{os.getpid()}.in"
    fp.write_text(text)
    model = common.sh([str(common.model_exe()), "quote", str(fp)]).stdout.strip().split("\n")
    fp.unlink(missing_ok=True)
    bad = []
    if len(impl) != len(names) or len(model) != len(names):
        return len(names), [f"{len(names)} names, {len(impl)} harness lines, {len(model)} model lines"]
    for x, a, m in zip(names, impl, model):
        if a != m:
            dec = lambda t: bytes(int(b) for b in t.split()).decode("latin-1")
            bad.append(f"name {x!r}: Logic::protectName prints {dec(a)!r}, the mirror {dec(m)!r}")
    return len(names), bad


def classify(pr, r):
    return None


def run(tier):
    chk = common.Check("C17", tier)
    chk.lean_obligations(THEOREMS)
    binary = common.opensmt_bin("hooks")
    n = 240 if tier == "quick" else 5000
    with mp.Pool(min(common.JOBS, 14)) as pool:
        results = pool.map(run_case, [(i, chk.seed, binary) for i in range(n)], chunksize=2)
        results += pool.map(overload_case, [(i, chk.seed, binary) for i in range(60 if tier == "quick" else 1200)], chunksize=2)
    nn, drift = names_mirror(chk.seed, 3000 if tier == "quick" else 60000)
    chk.case(key=("names", nn), sample={"names_compared_with_the_mirror": nn})
    chk.obligation(not drift)
    for d in drift[:3]:
        chk.violation("name-mirror", d, {"problem": d}, found_input=True)
    # printed objects kept as corpus (read-back scripts): they must be accepted without an error
    for f in sorted((common.VERIF / "corpus" / "C17").glob("*.smt2")):
        o, rc = opensmt_answers(binary, f.read_text())
        errs = [l for l in o.split("\n") if "(error" in l]
        chk.case(key=("corpus", f.name), sample={"corpus": f.name, "errors": len(errs)})
        chk.obligation(not errs)
        if errs:
            chk.violation("read-back", f"corpus {f.name}: a printed object is not accepted when read back: {errs[0][:160]}",
                          {"script": f.read_text(), "stdout": o[-600:]},
                          match_key="abstract-values-not-readable" if "Unknown symbol `@" in errs[0] else None)
    objs = 0
    for r in results:
        objs += r["objects"]
        chk.case(key=(r["idx"], r["mode"], r["objects"]), nontrivial=r["objects"] > 0,
                 sample={"logic": r["logic"], "mode": r["mode"], "objects_read_back": r["objects"]} if r["objects"] else None)
        chk.obligation(not r["problems"])
        if r["objects"]:
            chk.cov["traces_validated_against_impl"] += 1
        for pr in r["problems"][:1]:
            chk.violation("read-back", f"{pr['what']} ({r['logic']}, {r['mode']})", {"script": r["script"], "problem": pr}, match_key=classify(pr, r))
    chk.assumptions = ["`denotes the same` is judged by what the object is for: a model read back must satisfy the assertions and the printed "
                       "values, a core read back must be unsatisfiable, a dumped query must get the same answer; interpolants are only "
                       "required to be readable here (their meaning is C08's subject)", "models with values of uninterpreted sorts are read "
                       "back by this project's reader only (see the known finding on abstract values)"]
    return chk.finish(rule="one case = one script whose symbols carry awkward names; non-trivial = at least one printed object was read back",
                      extra={"objects_read_back": objs})
