"""C09: sequence interpolants (k >= 3 groups): every member is a Craig interpolant of its cumulative split and consecutive
members satisfy the step condition; shares the machinery of C08."""
import c08


def run(tier):
    return c08.run(tier, pid="C09")
