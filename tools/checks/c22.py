"""C22: theory-solver verdicts depend only on the asserted literals. A harness drives LASolver (reals, integers), the
difference-logic solvers and the E-graph through random declare / assert / check / backtrack sequences. Every reported
inconsistency must be a subset of the currently asserted literals and theory-unsatisfiable (its negation is certified valid by
the Lean LA / EUF kernels); every `consistent` verdict of a complete check is attacked: if the kernels certify that the
currently asserted literals are inconsistent, the verdict was wrong."""
import multiprocessing as mp, os, random, subprocess
from fractions import Fraction
import common, runner, trace, lacert, eufcert, extsolve

THEOREMS = ["Osmt.Properties.C22_conflict_certified", "Osmt.Properties.C22_consistency_refuted", "Osmt.Properties.C11_theory_clause_valid"]
THEORIES = ["lra", "idl", "euf", "rdl", "lia", "lra", "euf", "idl"]


def frac(rng, real):
    v = rng.randint(-4, 4)
    if real and rng.random() < 0.3:
        return f"{v}/{rng.choice([2, 3])}"
    return str(v)


def make_ops(idx, seed):
    rng = random.Random(f"c22-{seed}-{idx}")
    th = THEORIES[idx % len(THEORIES)]
    disciplined = (idx // len(THEORIES)) % 2 == 0      # the engine's protocol: every assertion is followed by a check
    ops = [f"theory {th}"]
    natoms = 0
    la_terms = []
    def new_atom():
        nonlocal natoms
        if th in ("lra", "lia"):
            if la_terms and rng.random() < 0.45:
                cs = rng.choice(la_terms)          # another bound on a term that already has one (weaker / stronger / equal)
            else:
                cs = [rng.choice([0, 1, -1, 2, -2, 3]) if th == "lia" else rng.choice(["0", "1", "-1", "2", "-3", "1/2"]) for _ in range(nv)]
                if all(str(c) == "0" for c in cs):
                    cs[0] = 1
                la_terms.append(cs)
            ops.append(f"atom la {frac(rng, th == 'lra')} " + " ".join(map(str, cs)))
        elif th in ("idl", "rdl"):
            i, j = rng.sample(range(nv), 2)
            ops.append(f"atom dl {i} {j} {frac(rng, th == 'rdl')}")
        else:
            if rng.random() < 0.85:
                i, j = rng.sample(range(nterms), 2)
                ops.append(f"atom eq {i} {j}")
            else:
                ops.append(f"atom pred {rng.randrange(nterms)}")
        natoms += 1
    if th == "euf":
        nterms = 0
        for c in "abcd"[:rng.randint(2, 4)]:
            ops.append(f"uterm {c}"); nterms += 1
        for _ in range(rng.randint(3, 8)):
            f = rng.choice(["f", "g"])
            ar = 1 if f == "f" else 2
            ops.append(f"uterm {f} " + " ".join(str(rng.randrange(nterms)) for _ in range(ar))); nterms += 1
    else:
        nv = rng.randint(3, 5) if th in ("idl", "rdl") else rng.randint(2, 4)
        for k in range(nv):
            ops.append(f"var {k}")
    for _ in range(rng.randint(8, 18) if th in ("idl", "rdl") else rng.randint(4, 10)):
        new_atom()
    for _ in range(rng.randint(15, 60)):
        c = rng.random()
        if c < 0.5:
            ops.append(f"assert {rng.randrange(natoms)} {rng.randint(0, 1)}")          # skipped at replay time if the atom is on the stack
            if disciplined:
                ops.append(f"check {1 if rng.random() < 0.5 else 0}")
        elif c < 0.75:
            ops.append(f"check {1 if rng.random() < 0.7 else 0}")
        elif c < 0.92:
            ops.append(f"pop {rng.randint(1, 3)}")
        elif os.environ.get("C22_NO_MID") != "1":
            new_atom()
    if th in ("lra", "lia") and rng.random() < 0.4:
        # bound ladder: several bounds on one row term, some declared only after another one is asserted, asserted and
        # retracted in between; then bounds on the summands that contradict a bound which is still asserted
        ops.append("pop 50")
        k = rng.randint(2, nv)
        cs = [rng.choice([1, 1, 2]) if i < k else 0 for i in range(nv)]
        c1 = rng.randint(2, 6)
        first = natoms
        ops.append(f"atom la {c1} " + " ".join(map(str, cs))); natoms += 1                      # A: term <= c1
        lows = []
        total = 0
        for i in range(k):
            li = rng.randint(1, 3)
            total += cs[i] * li
            row = ["0"] * nv; row[i] = "-1"
            ops.append(f"atom la {-li} " + " ".join(row)); natoms += 1                            # G_i: x_i >= l_i
            lows.append(natoms - 1)
        ops += [f"assert {first} 1", "check 1"]
        for _ in range(rng.randint(1, 3)):
            c2 = c1 + rng.choice([-2, -1, 1, 2, 3])
            ops.append(f"atom la {c2} " + " ".join(map(str, cs))); natoms += 1                  # B: another bound on the same term
            ops.append(f"assert {natoms - 1} {rng.choice([1, 1, 0])}")
            if rng.random() < 0.8:
                ops.append(f"check {rng.randint(0, 1)}")
            if rng.random() < 0.8:
                ops.append("pop 1")
        for a in lows:
            ops.append(f"assert {a} 1")
            if rng.random() < 0.4:
                ops.append("check 0")
    ops.append("check 1")
    return th, ops


def run_case(args):
    idx, seed, exe = args
    if isinstance(idx, str):
        ops = open(idx).read().strip().split("\n"); th = ops[0].split()[1]
    else:
        th, ops = make_ops(idx, seed)
    tp = common.WORK / f"c22-{os.getpid()}.trace"
    tp.unlink(missing_ok=True)
    try:
        r = subprocess.run([str(exe)], input="\n".join(ops) + "\n", capture_output=True, text=True, timeout=60,
                           env=dict(os.environ, OPENSMT_VERIF_TRACE=str(tp)))
    except subprocess.TimeoutExpired:
        tp.unlink(missing_ok=True)
        return {"idx": idx, "theory": th, "ops": ops, "problems": [], "verdicts": 0, "conflicts": 0, "sat_claims": 0, "timeout": True}
    res = {"idx": idx, "theory": th, "ops": ops, "problems": [], "verdicts": 0, "conflicts": 0, "sat_claims": 0, "sat_confirmed": 0}
    if r.returncode != 0:
        res["problems"].append({"what": f"the solver terminated abnormally (status {r.returncode}): {r.stderr.strip()[-200:]}"})
        tp.unlink(missing_ok=True)
        return res
    outs = r.stdout.strip().split("\n")
    if len(outs) != len(ops) - 1:
        res["problems"].append({"what": f"{len(ops) - 1} operations, {len(outs)} responses"}); tp.unlink(missing_ok=True); return res
    # replay the stack of asserted literals
    stack, usable, natoms = [], {}, 0
    claims = []                       # (literal stack, tainted?) the solver called consistent in a complete check
    models = []                       # (literal stack, {variable index: value string}) the solver's witness for such a verdict
    checked, tainted = [], False      # checked[i]: a check answered `consistent` while stack[i] was asserted
    def backtracked():
        # literals that stay asserted across a backtrack without ever having been part of a successful check
        nonlocal tainted
        if not all(checked):
            tainted = True
    for op, out in zip(ops[1:], outs):
        t, o = op.split(), out.split()
        if o and o[0] == "exception":
            res["problems"].append({"what": f"`{op}`: {out}"}); break
        if t[0] == "atom":
            usable[natoms] = o[0] in ("ok", "flipped"); natoms += 1
        elif t[0] == "assert":
            a, s = int(t[1]), int(t[2])
            if o[0] == "skip":
                continue
            if o[0] == "ok":
                stack.append((a, s)); checked.append(False)
            elif o[0] == "conflict":
                backtracked()
                res["conflicts"] += 1
                conf = [(int(x.split(":")[0]), int(x.split(":")[1])) for x in o[1:]]
                cur = set(stack + [(a, s)])
                if not set(conf) <= cur:
                    res["problems"].append({"what": f"`{op}`: the reported inconsistency {conf} mentions literals that are not currently "
                                                    f"asserted (asserted: {sorted(cur)})", "kind": "stale"}); break
        elif t[0] == "check":
            res["verdicts"] += 1
            if o[0] == "unsat":
                res["conflicts"] += 1
                conf = [(int(x.split(":")[0]), int(x.split(":")[1])) for x in o[1:]]
                if not set(conf) <= set(stack):
                    res["problems"].append({"what": f"`{op}`: the reported inconsistency {conf} mentions literals that are not currently "
                                                    f"asserted (asserted: {sorted(set(stack))})", "kind": "stale"}); break
                if stack:
                    stack.pop(); checked.pop()
                backtracked()
            elif o[0] in ("sat", "unknown") and "|" in o:
                # deductions: the reason of each must be made of currently asserted literals
                for part in out.split("|")[1:]:
                    w = part.split()
                    if w and w[0] == "model":
                        models.append((list(stack), {int(x.split("=")[0]): x.split("=")[1] for x in w[1:]}))
                        continue
                    if w and w[0] == "model-error":
                        continue
                    try:
                        reason = [(int(x.split(":")[0]), int(x.split(":")[1])) for x in w[3:]]
                    except ValueError:
                        res["problems"].append({"what": f"`{op}`: the solver raised an exception while its deductions were read: {part.strip()[-160:]}",
                                                "kind": "exception"})
                        break
                    res["deductions"] = res.get("deductions", 0) + 1
                    if not set(reason) <= set(stack):
                        res["problems"].append({"what": f"`{op}`: the reason {reason} of the deduced literal {w[1]} mentions literals that are "
                                                        f"not currently asserted (asserted: {sorted(set(stack))})", "kind": "stale"})
                        break
                if res["problems"]:
                    break
            if o[0] == "sat":
                checked[:] = [True] * len(checked)
                if t[1] == "1":
                    claims.append((list(stack), tainted))
                if not stack:
                    tainted = False
        elif t[0] == "pop":
            n = int(o[1]) if len(o) > 1 else 0
            del stack[len(stack) - n:]
            del checked[len(checked) - n:]
            if n:
                backtracked()
            if not stack:
                tainted = False
    if res["problems"] or not tp.exists():
        tp.unlink(missing_ok=True)
        return res
    # every reported inconsistency is certified by the Lean kernels (replay of the th lines)
    tr = trace.Trace(tp)
    tp.unlink(missing_ok=True)
    if not tr.order:
        return res
    sid = tr.order[0]
    S = tr.solvers[sid]
    if any(e[1] == "TH" for e in S.events):
        v, lines = runner.lean_replay(tr, sid, work_name=f"c22-{os.getpid()}")
        if not v.startswith("OK"):
            res["problems"].append({"what": f"a reported inconsistency is not certified theory-unsatisfiable: {v}", "kind": "conflict"})
            return res
    tt = tr.logics[S.logic]
    # a `consistent` verdict is confirmed when the solver's own values, evaluated by the Lean evaluator, make every asserted literal true
    if models and th in ("lra", "lia"):
        import c13
        from fractions import Fraction
        for st, vals in models[-3:]:
            if not st:
                continue
            ids = [S.varmap[a + 1] for a, s in st]
            try:
                got = c13.lean_eval_trace_terms(tt, {f"x{k}": Fraction(v) for k, v in vals.items()}, ids)
            except Exception:
                continue
            if len(got) == len(ids) and all(g == ("b:true" if s else "b:false") for g, (a, s) in zip(got, st)):
                res["sat_confirmed"] += 1
            else:
                res["sat_model_invalid"] = res.get("sat_model_invalid", 0) + 1
    # every `consistent` verdict is attacked with the certificate producers
    seen = set()
    if len(claims) > 8:
        claims = claims[-4:] + random.Random(f"c22-claims-{idx}").sample(claims[:-4], 4)
    for st, taint in claims:
        key = tuple(sorted(set(st)))
        if key in seen or not key:
            continue
        seen.add(key)
        res["sat_claims"] += 1
        tl = [(S.varmap[a + 1], bool(s)) for a, s in key]        # the clause of the negated literals
        cert = lacert.cert_for(tt, tl)
        cert = ["LA"] + cert if cert is not None else eufcert.cert_for(tt, tl)
        if cert is None:
            continue
        lits = [-(a + 1) if s else (a + 1) for a, s in key]
        inp = tt.lean_lines() + [f"V {v - 1} {t}" for v, t in sorted(S.varmap.items())] + [f"F {max(S.varmap) + 2}"] + \
              ["TH conflict %s 0 %s" % (" ".join(map(str, lits)), " ".join(cert))]
        p = common.WORK / f"c22c-{os.getpid()}.in"
        p.write_text("\n".join(inp) + "\n")
        out = common.sh([str(common.model_exe()), "smt", str(p)]).stdout.strip().split("\n")[-1]
        p.unlink(missing_ok=True)
        if out.startswith("OK"):
            res["problems"].append({"what": f"a complete check reports consistency for the asserted literals {list(key)}, which the Lean "
                                            f"kernel certifies to be theory-unsatisfiable", "kind": "sat-claim", "unchecked_survivor": taint,
                                    "literals": [(tt.smt(S.varmap[a + 1]), bool(s)) for a, s in key]})
            break
    return res


def run(tier):
    chk = common.Check("C22", tier)
    chk.lean_obligations(THEOREMS)
    exe = common.compile_harness("tsolver_harness", ["tsolver_harness.cc"], link_lib=True)
    n = 320 if tier == "quick" else 8000
    with mp.Pool(min(common.JOBS, 14)) as pool:
        corpus = sorted(str(f) for f in (common.VERIF / "corpus" / "C22").glob("*.ops"))
        results = pool.map(run_case, [(i, chk.seed, exe) for i in corpus + list(range(n))], chunksize=4)
    by = {}
    for r in results:
        b = by.setdefault(r["theory"], {"cases": 0, "verdicts": 0, "conflicts": 0, "consistency_claims": 0})
        b["cases"] += 1; b["verdicts"] += r["verdicts"]; b["conflicts"] += r["conflicts"]; b["consistency_claims"] += r["sat_claims"]
        b["deductions"] = b.get("deductions", 0) + r.get("deductions", 0)
        b["consistency_confirmed_by_validated_model"] = b.get("consistency_confirmed_by_validated_model", 0) + r.get("sat_confirmed", 0)
        b["witness_not_validated"] = b.get("witness_not_validated", 0) + r.get("sat_model_invalid", 0)
        chk.case(key=(r["idx"], r["verdicts"], r["conflicts"]), nontrivial=r["conflicts"] > 0 or r["sat_claims"] > 0,
                 sample={"theory": r["theory"], "operations": len(r["ops"]), "conflicts": r["conflicts"], "consistency_claims": r["sat_claims"]}
                 if r["conflicts"] else None)
        chk.obligation(not r["problems"])
        chk.cov["traces_validated_against_impl"] += 1
        for pr in r["problems"][:1]:
            chk.violation("theory-verdict", f"{pr['what']} ({r['theory']})", {"ops": r["ops"], "problem": pr},
                          match_key="la-unchecked-bound-survives-backtrack" if pr.get("unchecked_survivor") and r["theory"] in ("lra", "lia") else None)
    chk.assumptions = ["a `consistent` verdict is refuted only by a kernel-checked certificate; when the (untrusted) certificate producers "
                       "find none the verdict stands unconfirmed", "array solver not driven"]
    return chk.finish(rule="one case = one sequence of declare / assert / check / backtrack operations on one theory solver; non-trivial = "
                           "the sequence contains a reported inconsistency or a complete-check consistency verdict",
                      extra={"by_theory": by})
