"""C21: TermNames vs its Lean mirror on random operation sequences (incl. mode switches); end-to-end scoping of
:named terms and define-fun through the executable, against a scope-stack reference."""
import multiprocessing as mp, os, random, subprocess
import common, runner, smtlib

THEOREMS = ["Osmt.Properties.C21_consistent", "Osmt.Properties.C21_lookup_iff_scoped", "Osmt.Properties.C21_pop_restores",
            "Osmt.Properties.C21_global_pop_keeps", "Osmt.Properties.C21_limits_follow_stack",
            "Osmt.Names.balanced_preserves_base"]


def op_sequence(rng, n):
    ops, depth = [], 0
    for _ in range(n):
        c = rng.random()
        if c < 0.45:
            ops.append(f"insert {rng.randint(1, 9)} {rng.randint(10, 14)}")
        elif c < 0.62:
            ops.append("push"); depth += 1
        elif c < 0.78 and depth > 0:
            ops.append("pop"); depth -= 1
        elif c < 0.84:
            ops.append(f"global {rng.randint(0, 1)}")
        else:
            ops.append("dump")
    ops.append("dump")
    return ops


def script_case(args):
    idx, seed, binary = args
    rng = random.Random(f"c21-{seed}-{idx}")
    glob = rng.random() < 0.25
    lines = ["(set-option :print-success true)", "(set-option :produce-unsat-cores true)", "(set-logic QF_UF)"]
    if glob:
        lines.append("(set-option :global-declarations true)")
    for b in "abcd":
        lines.append(f"(declare-fun {b} () Bool)")
    scopes = [dict()]          # name -> kind
    expect = []                # (line index, expected "success"/"error"/None)
    def cur():
        return {k for s in scopes for k in s}
    for _ in range(rng.randint(10, 28)):
        c = rng.random()
        if c < 0.3:
            nm = f"N{rng.randint(1, 4)}"
            lit = rng.choice(["a", "b", "c", "d", "(not a)", "(or a b)", "(and c (not d))"])
            lines.append(f"(assert (! {lit} :named {nm}))")
            if nm in cur():
                expect.append((len(lines) - 1, "error"))
            else:
                expect.append((len(lines) - 1, "success"))
                (scopes[0] if glob else scopes[-1])[nm] = "name"
        elif c < 0.45:
            nm = f"F{rng.randint(1, 3)}"
            lines.append(f"(define-fun {nm} () Bool {rng.choice(['a', '(not b)', '(or c d)'])})")
            if nm in cur():
                expect.append((len(lines) - 1, "error"))
            else:
                expect.append((len(lines) - 1, "success"))
                (scopes[0] if glob else scopes[-1])[nm] = "fun"
        elif c < 0.55:
            nm = f"F{rng.randint(1, 3)}"
            lines.append(f"(assert (or {nm} a))")
            expect.append((len(lines) - 1, "success" if scopes and nm in cur() and any(s.get(nm) == "fun" for s in scopes) else "error"))
        elif c < 0.7:
            k = 1 if rng.random() < 0.75 else rng.randint(2, 3)           # several levels at once
            lines.append(f"(push {k})"); expect.append((len(lines) - 1, "success"))
            for _ in range(k):
                scopes.append(dict())
        elif c < 0.85 and len(scopes) > 1:
            k = 1 if rng.random() < 0.6 else rng.randint(1, len(scopes) - 1)
            lines.append(f"(pop {k})"); expect.append((len(lines) - 1, "success"))
            for _ in range(k):
                scopes.pop()
        else:
            lines.append("(check-sat)")
            expect.append((len(lines) - 1, ("core", set(k for k in cur() if any(s.get(k) == "name" for s in scopes)))))
            lines.append("(get-unsat-core)")
    script = "\n".join(lines) + "\n"
    out, err, rc = runner.run_opensmt(binary, script, None, timeout=20)
    problems = []
    if rc == "timeout":
        return {"idx": idx, "script": script, "problems": [], "cmds": 0}       # inconclusive
    if rc not in (0, 1):
        problems.append({"what": f"opensmt terminated abnormally (status {rc})", "stderr": err[-300:]})
        return {"idx": idx, "script": script, "problems": problems, "cmds": 0}
    try:
        outs = smtlib.parse_sexps(out)
    except smtlib.ParseError as e:
        return {"idx": idx, "script": script, "problems": [{"what": f"unparsable output {e}"}], "cmds": 0}
    # a rejected assert prints two diagnostics (the specific one and "assertion returns an unknown sort"): fold them
    folded = []
    for o in outs:
        if folded and isinstance(o, list) and len(o) == 2 and smtlib.sym(o[0]) == "error" and o[1] == ("str", "assertion returns an unknown sort") \
                and isinstance(folded[-1], list) and folded[-1] and smtlib.sym(folded[-1][0]) == "error":
            continue
        folded.append(o)
    outs = folded
    if len(outs) != len(lines):
        problems.append({"what": f"{len(lines)} commands but {len(outs)} responses", "stdout": out[-400:]})
        return {"idx": idx, "script": script, "problems": problems, "cmds": 0}
    n = 0
    for li, exp in expect:
        got = outs[li]
        is_err = isinstance(got, list) and got and smtlib.sym(got[0]) == "error"
        n += 1
        if exp == "success" and is_err:
            problems.append({"what": f"line {li} `{lines[li]}` rejected: {got}, expected success"})
        elif exp == "error" and not is_err:
            problems.append({"what": f"line {li} `{lines[li]}` accepted, expected an error (name not in scope / already defined)"})
        elif isinstance(exp, tuple):
            ans = smtlib.sym(got)
            core = outs[li + 1]
            if ans == "unsat" and isinstance(core, list) and not (core and smtlib.sym(core[0]) == "error"):
                names = [smtlib.sym(x) for x in core]
                if len(set(names)) != len(names):
                    problems.append({"what": f"unsat core repeats a name: {names}"})
                stale = [x for x in names if x not in exp[1]]
                if stale:
                    problems.append({"what": f"unsat core mentions names not on the assertion stack: {stale}", "core": names})
    return {"idx": idx, "script": script, "problems": problems, "cmds": n}


def run(tier):
    chk = common.Check("C21", tier)
    chk.lean_obligations(THEOREMS)
    exe = common.compile_harness("names_harness", ["names_harness.cc"], link_lib=True)
    rng = chk.rng
    nseq = 400 if tier == "quick" else 8000
    for k in range(nseq):
        ops = op_sequence(rng, rng.randint(8, 40))
        inp = "\n".join(ops) + "\n"
        r = subprocess.run([str(exe)], input=inp, capture_output=True, text=True)
        p = common.WORK / f"names-{os.getpid()}.in"
        p.write_text(inp)
        m = common.sh([str(common.model_exe()), "names", str(p)]).stdout
        chk.case(key=tuple(ops), nontrivial="pop" in ops, sample={"ops": ops, "final": r.stdout.strip().split("\n")[-1]} if k % 97 == 0 else None)
        ok = r.returncode == 0 and r.stdout == m
        chk.obligation(ok)
        if not ok:
            cl, ml = r.stdout.split("\n"), m.split("\n")
            j = next((i for i in range(max(len(cl), len(ml))) if i >= len(cl) or i >= len(ml) or cl[i] != ml[i]), None)
            chk.violation("names", f"TermNames and the Lean mirror differ after {j} operations (status {r.returncode})",
                          {"ops": ops, "impl": cl[j] if j is not None and j < len(cl) else None,
                           "model": ml[j] if j is not None and j < len(ml) else None, "stderr": r.stderr[-300:]},
                          found_input=(r.returncode != 0))
    p.unlink(missing_ok=True)
    binary = common.opensmt_bin("hooks")
    nscr = 150 if tier == "quick" else 3000
    with mp.Pool(min(common.JOBS, 14)) as pool:
        results = pool.map(script_case, [(i, chk.seed, binary) for i in range(nscr)], chunksize=4)
    for f in sorted((common.VERIF / "corpus" / "C21").glob("*.smt2")):
        out, err, rc = runner.run_opensmt(binary, f.read_text(), None, timeout=20)
        chk.case(key=("corpus", f.name), sample={"corpus": f.name, "status": rc})
        chk.obligation(rc in (0, 1))
        if rc not in (0, 1):
            chk.violation("scoping", f"corpus script {f.name}: opensmt terminated abnormally (status {rc})",
                          {"script": f.read_text(), "stderr": err[-300:]})
    cmds = 0
    for r in results:
        cmds += r["cmds"]
        chk.case(key=("script", r["idx"]), nontrivial=r["cmds"] > 3)
        chk.obligation(not r["problems"])
        for pr in r["problems"][:1]:
            chk.violation("scoping", pr["what"], {"script": r["script"], "problem": pr})
    chk.assumptions = ["a pop is only issued at assertion level > 0 (MainSolver::pop refuses otherwise)"]
    return chk.finish(rule="(a) random sequences of insert/push/pop/global/dump on the real TermNames vs the Lean mirror, all "
                           "containers compared after every dump; (b) scripts with :named assertions, define-fun, push/pop and "
                           "global declarations: every response must be success/error as the scope-stack reference predicts and "
                           "unsat cores may only name current assertions",
                      extra={"operation_sequences": nseq, "scripts": nscr, "script_commands_checked": cmds})
