"""C04: incremental answers equal fresh answers; the frame assumptions of every check equal the Lean frames model's;
queries between checks do not change later answers."""
import multiprocessing as mp, os, random, re
import common, gen, runner, trace, smtlib, extsolve

THEOREMS = ["Osmt.Properties.C04_enabled_exact", "Osmt.Properties.C04_frames_inv",
            "Osmt.Properties.C04_pop_removes_exactly_top", "Osmt.Frames.step_inv"]
LOGICS = ["QF_BOOL", "QF_UF", "QF_LRA", "QF_LIA", "QF_RDL", "QF_IDL", "QF_UFLRA", "QF_UFLIA"]
VECTORS = [[], [":produce-models true"], [":produce-unsat-cores true"], [":produce-interpolants true"],
           [":random-seed 11"], [":do-substitutions false"]]


def queries_for(opts):
    def q(p, rng):
        out = []
        if ":produce-models true" in opts:
            out += ["(get-model)", "(get-value (%s))" % gen.smt(rng.choice(p.bools))]
        if ":produce-unsat-cores true" in opts:
            out += ["(get-unsat-core)"]
        return out
    return q


def frames_ops(script_text):
    ops = []
    for line in script_text.split("\n"):
        m = re.match(r"\((push|pop) (\d+)\)", line)
        if m:
            ops += [m.group(1)] * int(m.group(2))
        elif line.startswith("(assert"):
            ops.append("assert")
        elif line.startswith("(check-sat)"):
            ops.append("check")
    return ops


def run_case(args):
    idx, seed, binary, timeout = args
    rng = random.Random(f"c04-{seed}-{idx}")
    logic = LOGICS[idx % len(LOGICS)]
    opts = VECTORS[(idx // len(LOGICS)) % len(VECTORS)]
    if idx % 5 == 2:
        p, script, checks = gen.sibling_history(logic, rng, options=opts, after_check=queries_for(opts), big=(idx % 4 == 3))
    elif idx % 2 == 1 and ":produce-unsat-cores true" not in opts:
        p, script, checks = gen.clausal_history(logic, rng, options=opts, after_check=queries_for(opts))
    else:
        p, script, checks = gen.history(logic, rng, options=opts, big=(idx % 5 == 4), after_check=queries_for(opts),
                                        named=":produce-unsat-cores true" in opts)
    res = {"idx": idx, "logic": logic, "options": opts, "script": script, "problems": [], "checks": 0, "fresh": 0}
    tp = common.WORK / f"c04-{os.getpid()}.trace"
    tp.unlink(missing_ok=True)
    out, err, rc = runner.run_opensmt(binary, script, tp, timeout=timeout)
    if rc == "timeout":
        res["timeout"] = True
        return res
    inc = runner.answers(out)
    res["checks"] = len(inc)
    if len(inc) != len(checks):
        res["problems"].append({"what": f"{len(checks)} check-sat commands but {len(inc)} answers", "stdout": out[-500:]})
        return res
    # (1) frame assumptions of the implementation vs the Lean frames model
    if tp.exists():
        tr = trace.Trace(tp)
        tp.unlink(missing_ok=True)
        fp = common.WORK / f"c04-{os.getpid()}.frames"
        fp.write_text("\n".join(frames_ops(script)) + "\n")
        model_lines = common.sh([str(common.model_exe()), "frames", str(fp)]).stdout.strip().split("\n")
        fp.unlink(missing_ok=True)
        for sid in tr.order:
            s = tr.solvers[sid]
            if s.logic is None or sid not in tr.ms_of:
                continue
            term2var = {t: v for v, t in s.varmap.items()}
            frame_var = {}
            k = 0
            for e in tr.merged(sid):
                if e[1] == "I" and e[5] != 0 and e[3] in term2var:
                    frame_var[e[5]] = term2var[e[3]]
                if e[1] == "A" and e[2] in ("sat", "unsat"):
                    # which check-sat is this? answers given without a SAT call have no A event: align by counting res
                    pass
            # align A events with check indices through the chk/res records
            chk_i = -1
            for e in tr.merged(sid):
                if e[1] == "chk":
                    chk_i += 1
                elif e[1] == "I" and e[5] != 0 and e[3] in term2var:
                    frame_var[e[5]] = term2var[e[3]]
                elif e[1] == "A" and e[2] in ("sat", "unsat") and 0 <= chk_i < len(model_lines):
                    exp = {}
                    for tok in model_lines[chk_i].split("|")[0].split()[1:]:
                        exp[int(tok[:-1])] = tok[-1] == "+"
                    lits = set(e[3])
                    for fid, en in exp.items():
                        v = frame_var.get(fid)
                        if v is None:
                            continue
                        want = -v if en else v
                        if want not in lits:
                            res["problems"].append({"what": f"check #{chk_i}: frame {fid} should be "
                                                    f"{'enabled' if en else 'disabled'} (model) but the engine was given "
                                                    f"{'+' if -want in lits else 'no'} literal for it",
                                                    "model_assumptions": model_lines[chk_i]})
    # (2) each incremental answer vs a fresh solver on the active assertions
    decls = [p.set_logic()] + p.decls
    for k, (ans, act) in enumerate(zip(inc, checks)):
        if ans not in ("sat", "unsat"):
            continue
        fresh = "\n".join(decls + [f"(assert {gen.smt(a)})" for a in act] + ["(check-sat)"]) + "\n"
        fo, fe, frc = runner.run_opensmt(binary, fresh, None, timeout=timeout)
        fa = runner.answers(fo) if frc != "timeout" else []
        res["fresh"] += 1
        if fa and fa[0] in ("sat", "unsat") and fa[0] != ans:
            ext = extsolve.verdict(fresh)
            res["problems"].append({"what": f"check #{k}: incremental {ans}, fresh {fa[0]}, external {ext}", "fresh_script": fresh})
    # (3) the same history without the queries must give the same answers
    if any(l.startswith("(get-") for l in script.split("\n")):
        noq = "\n".join(l for l in script.split("\n") if not l.startswith("(get-")) + "\n"
        qo, qe, qrc = runner.run_opensmt(binary, noq, None, timeout=timeout)
        if qrc != "timeout":
            qa = runner.answers(qo)
            if qa != inc:
                res["problems"].append({"what": f"answers with queries {inc} differ from answers without {qa}"})
    return res


def steered_case(args):
    idx, seed, binary, timeout = args
    import engine
    c = engine.make_steered_case(idx, seed)
    r = engine.run_case((c, binary, False, timeout))
    return {"case": c, "res": r, "wrong": engine.wrong_answers(c, r)}


def run(tier):
    chk = common.Check("C04", tier)
    chk.lean_obligations(THEOREMS)
    binary = common.opensmt_bin("hooks")
    n = 200 if tier == "quick" else 4000
    with mp.Pool(min(common.JOBS, 14)) as pool:
        results = pool.map(run_case, [(i, chk.seed, binary, 8 if tier == "quick" else 30) for i in range(n)], chunksize=2)
    checks = fresh = timeouts = 0
    for r in results:
        if r.get("timeout"):
            timeouts += 1
            continue
        checks += r["checks"]
        fresh += r["fresh"]
        chk.case(key=(r["idx"], r["checks"]), nontrivial=r["checks"] >= 3 and "(pop" in r["script"],
                 sample={"logic": r["logic"], "options": r["options"], "checks": r["checks"],
                         "script_tail": r["script"][-400:]} if r["checks"] >= 3 else None)
        chk.cov["traces_validated_against_impl"] += 1
        chk.obligation(not r["problems"])
        for pr in r["problems"][:1]:
            chk.violation("incremental", f"{pr['what']} ({r['logic']} {r['options']})",
                          {"script": r["script"], "options": r["options"], "problem": pr})
    ns = 150 if tier == "quick" else 4000
    with mp.Pool(min(common.JOBS, 14)) as pool:
        sres = pool.map(steered_case, [(i, chk.seed, binary, 8 if tier == "quick" else 30) for i in range(ns)], chunksize=2)
    for x in sres:
        c, r = x["case"], x["res"]
        checks += len(r["answers"])
        bad = [v for v in r["verdicts"] if not v.startswith("OK")]
        chk.case(key=(c["idx"], len(r["answers"])), nontrivial=len(r["answers"]) >= 3,
                 sample={"kind": "steered", "answers": r["answers"]} if len(r["answers"]) >= 6 else None)
        chk.obligation(not x["wrong"] and not bad)
        if x["wrong"]:
            chk.violation("incremental", f"check #{x['wrong'][0][0]}: incremental answer {x['wrong'][0][1]}, exhaustive enumeration of "
                          f"the active clauses says {x['wrong'][0][2]}", {"script": c["script"], "impl_answers": r["answers"], "expected": c["expected"]})
        elif bad:
            chk.violation("incremental", f"{bad[0]} (steered propositional history)",
                          {"script": c["script"], "lean_verdict": bad[0], "failed_event": r.get("failed_line")})
    chk.assumptions = ["a fresh run of the same binary is the reference for the answer (its own correctness is C01/C02)"]
    return chk.finish(rule="one case = one push/pop/assert/check history (with model / core queries between checks for some "
                           "option vectors); non-trivial = at least three checks and a pop; each definitive answer is "
                           "compared with a fresh solver on the active assertions and the frame assumptions with the Lean model",
                      extra={"check_sats": checks, "fresh_comparisons": fresh, "timeouts": timeouts})
