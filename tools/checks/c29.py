"""C29: scripts that are well-sorted SMT-LIB but outside the fragment of the declared logic are either rejected with an
error or answered correctly: every `unsat` must be accepted by the Lean machine (trace replay with kernel-checked theory
lemmas), every `sat` must come with a model that the Lean evaluator validates on all accepted assertions."""
import multiprocessing as mp, os, random
from fractions import Fraction
import common, gen, runner, trace, modelcheck, engine, extsolve

THEOREMS = ["Osmt.Properties.C29_unsat_certified", "Osmt.Properties.C29_sat_certified", "Osmt.Smt.unsat_sound"]
KINDS = ["dl-sum", "dl-coeff", "dl-three", "dl-single", "nonlinear", "int-in-lra", "real-in-lia", "mixed", "uf-arith", "div-mod-real",
         "nonlinear-many", "uf-in-arith", "dl-late", "dl-late"]


def N(k, real=False):
    s = str(abs(k)) + (".0" if real else "")
    return s if k >= 0 else f"(- {s})"


def make_case(idx, seed):
    rng = random.Random(f"c29-{seed}-{idx}")
    kind = KINDS[idx % len(KINDS)]
    real = False
    if kind == "dl-late":
        # a difference logic, a scaled variable whose factor exists as a term before the variable is declared
        logic = rng.choice(["QF_IDL", "QF_RDL", "QF_UFIDL"]); real = logic == "QF_RDL"
        S = "Real" if real else "Int"
        k = rng.choice([2, 3, 5])
        op = rng.choice(["<=", "<", ">=", ">"])
        lines = ["(set-option :print-success true)", "(set-option :produce-models true)", f"(set-logic {logic})", f"(declare-fun x () {S})",
                 "(declare-fun b () Bool)", f"(assert (or b ({rng.choice(['>=', '<='])} x {N(-k, real)})))"]
        if rng.random() < 0.6:
            lines.append("(check-sat)")
        lines.append(f"(declare-fun y () {S})")
        scaled = rng.choice([f"(- x (* {N(k, real)} y))", f"(- (* {N(k, real)} y) x)", f"(+ x (* {N(-k, real)} y))", f"(- y (* {N(k, real)} x))"])
        lines.append(f"(assert ({op} {scaled} {N(rng.randint(-3, 3), real)}))")
        for _ in range(rng.randint(1, 4)):
            v = rng.choice(["x", "y"])
            lines.append(rng.choice([f"(assert ({rng.choice(['<=', '>=', '<', '>'])} {v} {N(rng.randint(-4, 4), real)}))",
                                     f"(assert ({rng.choice(['<=', '>='])} (- x y) {N(rng.randint(-4, 4), real)}))"]))
        lines += ["(check-sat)", "(get-model)"]
        return {"idx": idx, "logic": logic, "kind": kind, "options": [], "script": "\n".join(lines) + "\n"}
    if kind.startswith("dl-"):
        logic = rng.choice(["QF_IDL", "QF_RDL", "QF_UFIDL"]) if idx % 7 else rng.choice(["QF_IDL", "QF_RDL"])
        real = logic == "QF_RDL"
    elif kind == "nonlinear":
        logic = rng.choice(["QF_LRA", "QF_LIA", "QF_UFLRA"]); real = "LRA" in logic
    elif kind == "nonlinear-many":
        logic = rng.choice(["QF_LRA", "QF_LIA", "QF_UFLRA"]); real = "LRA" in logic
    elif kind == "uf-in-arith":
        logic = rng.choice(["QF_LRA", "QF_LIA", "QF_RDL", "QF_IDL"]); real = logic in ("QF_LRA", "QF_RDL")
    elif kind == "int-in-lra":
        logic, real = "QF_LRA", True
    elif kind == "real-in-lia":
        logic, real = "QF_LIA", False
    elif kind == "mixed":
        logic, real = rng.choice(["QF_LRA", "QF_LIA"]), False
    elif kind == "uf-arith":
        logic, real = "QF_UF", False
    else:
        logic, real = "QF_LRA", True
    S = "Real" if real else "Int"
    xs = ["x", "y", "z", "w"]
    decls = [f"(declare-fun {v} () {S})" for v in xs] + ["(declare-fun b () Bool)"]
    if kind == "int-in-lra":
        decls = ["(declare-fun x () Int)", "(declare-fun y () Int)", "(declare-fun z () Real)", "(declare-fun w () Real)", "(declare-fun b () Bool)"]
    if kind == "real-in-lia":
        decls = ["(declare-fun x () Real)", "(declare-fun y () Int)", "(declare-fun z () Int)", "(declare-fun w () Real)", "(declare-fun b () Bool)"]
    if kind == "mixed":
        decls = ["(declare-fun x () Int)", "(declare-fun y () Real)", "(declare-fun z () Int)", "(declare-fun w () Real)", "(declare-fun b () Bool)"]
    if "UF" in logic and kind != "uf-arith":
        decls.append(f"(declare-fun f ({S}) {S})")
    if kind == "uf-in-arith":
        decls += [f"(declare-fun f ({S}) {S})", f"(declare-fun p ({S}) Bool)"]

    def c():
        return N(rng.randint(-4, 4), real)

    def dlatom():
        a, b2 = rng.sample(xs, 2)
        return f"({rng.choice(['<=', '<', '>=', '>'])} (- {a} {b2}) {c()})"

    def odd():
        a, b2, d = rng.sample(xs, 3)
        op = rng.choice(["<=", "<", ">=", ">", "="])
        k = N(rng.choice([2, 3, -2, 5]), real)
        if kind == "dl-sum":
            return f"({op} (+ {a} {b2}) {c()})"
        if kind == "dl-coeff":
            return rng.choice([f"({op} (- (* {k} {a}) {b2}) {c()})", f"({op} (- {a} (* {k} {b2})) {c()})", f"({op} (* {k} (- {a} {b2})) {c()})"])
        if kind == "dl-three":
            return rng.choice([f"({op} (- (+ {a} {b2}) {d}) {c()})", f"({op} (- {a} {b2}) {d})", f"({op} (+ {a} {b2} {d}) {c()})"])
        if kind == "dl-single":
            return rng.choice([f"({op} {a} {c()})", f"({op} {a} {b2})", f"({op} (- {a}) {c()})"])
        if kind == "nonlinear":
            return rng.choice([f"({op} (* {a} {b2}) {c()})", f"({op} (* {a} {a}) {c()})", f"({op} (* {a} (+ {b2} {c()})) {d})",
                               f"({op} (/ {a} {b2}) {c()})" if real else f"({op} (div {a} {b2}) {c()})", f"({op} (* {k} {a}) {c()})"])
        if kind == "nonlinear-many":
            s1, s2 = f"(+ {a} {c()})", f"(- {b2} {c()})"
            return rng.choice([f"({op} (* {k} {s1} {s2}) {c()})", f"({op} (* {s1} {k} {d}) {c()})", f"({op} (* {s1} {s2}) {c()})",
                               f"({op} (* {k} {d} {s1}) {c()})", f"({op} (* {s1} (* {k} {d})) {c()})", f"({op} (* {k} {s1} {N(3, real)}) {c()})",
                               f"({op} (* {s1} {s2} {k}) {d})"])
        if kind == "uf-in-arith":
            if logic in ("QF_RDL", "QF_IDL"):
                return rng.choice([f"(p {a})", f"(not (p {b2}))", f"(<= (- {a} {b2}) 0)" if not real else f"(<= (- {a} {b2}) 0.0)",
                                   f"(<= (- {b2} {a}) 0)" if not real else f"(<= (- {b2} {a}) 0.0)", f"(= (f {a}) (f {b2}))", f"(not (= (f {a}) (f {b2})))"])
            return rng.choice([f"(p {a})", f"(not (p {b2}))", f"(<= {a} {b2})", f"(<= {b2} {a})", f"(not (= (f {a}) (f {b2})))",
                               f"({op} (f {a}) {c()})", f"(= (f {a}) {b2})", f"(p (f {a}))", f"(not (p (+ {b2} {c()})))"])
        if kind == "int-in-lra":
            return rng.choice([f"(and (< {N(0, True)} (* 2.0 z)) (< (* 2.0 z) {N(2, True)}))", "(and (< 0 x) (< x 1))", "(and (< 0 (* 2 x)) (< (* 2 x) 2))",
                               f"({op} (+ x y) {N(rng.randint(-3, 3))})", "(= (* 2 x) 1)", f"({op} (- z w) {c()})"])
        if kind == "real-in-lia":
            return rng.choice(["(and (< 0.0 x) (< x 1.0))", "(= (* 2.0 x) 1.0)", f"({op} (+ y z) {N(rng.randint(-3, 3))})",
                               "(= (* 2 y) 1)", "(< (+ x w) 0.5)", "(and (< 0 y) (< y 1))"])
        if kind == "mixed":
            return rng.choice(["(< (+ x y) 1)", "(= x y)", "(= (+ x 0.5) y)", "(< x 1.5)", "(and (< 0 x) (< x 1))",
                               "(= (* 2 z) 1)", "(< (- y w) 0.5)"])
        if kind == "uf-arith":
            return rng.choice(["(< x y)", "(= (+ x 1) y)", "(= x y)", "(distinct x y z)", "(<= (- x y) 2)"])
        return rng.choice([f"({op} (div {a} {c()}) {c()})", f"({op} (mod {a} 2.0) {c()})", f"({op} (/ {a} 0.0) {c()})", f"({op} (/ {a} {k}) {c()})",
                           f"({op} (/ {c()} {a}) {c()})"])

    lines = ["(set-option :print-success true)", "(set-option :produce-models true)", f"(set-logic {logic})"] + decls
    if kind.startswith("dl-") and rng.random() < 0.6:
        # constants that scaled variables will need exist before the variables do (see the late declarations below)
        lines.append("(assert (or b " + " ".join(f"(>= x {N(-k, real)})" for k in (2, 3, 5)) + "))")
    depth = 0
    for _ in range(rng.randint(3, 9)):
        r = rng.random()
        if r < 0.1 and depth < 2:
            lines.append("(push 1)"); depth += 1
        elif r < 0.15 and depth:
            lines.append("(pop 1)"); depth -= 1
        elif r < 0.5:
            a = odd()
            lines.append(f"(assert {a if rng.random() < 0.7 else '(or b ' + a + ')'})")
        elif r < 0.8 and kind.startswith("dl-"):
            lines.append(f"(assert {dlatom()})")
        elif r < 0.8:
            a, b2 = rng.sample(xs, 2)
            lines.append(f"(assert ({rng.choice(['<=', '<', '>=', '>'])} {a} {b2}))")
        else:
            lines += ["(check-sat)", "(get-model)"]
    lines += ["(check-sat)", "(get-model)"]
    if rng.random() < (0.8 if kind.startswith("dl-") else 0.5):
        # late declarations: a symbol is declared right before its first use, after constants and other terms exist already
        # (normal forms depend on the order in which terms were created)
        import re as _re
        late = [d for d in decls if d.startswith("(declare-fun") and d.split()[1] != "x" and rng.random() < 0.6]
        for d in late:
            name = d.split()[1]
            body = [l for l in lines if l != d]
            first = next((k for k, l in enumerate(body) if l.startswith("(assert") and _re.search(r"(?<![\w.])" + _re.escape(name) + r"(?![\w.])", l)), None)
            if first is None:
                continue
            body.insert(first, d)
            lines = body
    return {"idx": idx, "logic": logic, "kind": kind, "options": [], "script": "\n".join(lines) + "\n"}


def run_case(args):
    case, binary = args
    tp = common.WORK / f"c29-{os.getpid()}.trace"
    tp.unlink(missing_ok=True)
    out, err, rc = runner.run_opensmt(binary, case["script"], tp, timeout=15)
    res = {"idx": case["idx"], "rc": rc, "answers": runner.answers(out), "problems": [], "errors": out.count("(error"), "models": 0,
           "unsat_certified": 0, "stdout": out[-1200:]}
    if rc == "timeout":
        tp.unlink(missing_ok=True)
        return res
    if rc not in (0, 1):
        res["problems"].append({"what": f"opensmt terminated abnormally (status {rc}): {err.strip()[-200:]}", "kind": "crash"})
        tp.unlink(missing_ok=True)
        return res
    # sat answers: the printed model must satisfy every accepted assertion
    try:
        n, problems, stats = modelcheck.check_models(case["script"], out, expect_legal=False)
    except Exception as e:
        n, problems = 0, [{"what": f"model check machinery failed: {e!r}"}]
    res["models"] = n
    for pr in problems:
        pr["kind"] = "sat"
        res["problems"].append(pr)
    # unsat answers: the trace must be accepted by the Lean machine
    if "unsat" in res["answers"] and tp.exists():
        try:
            tr = trace.Trace(tp)
            for sid in tr.order:
                v, lines = runner.lean_replay(tr, sid, work_name=f"c29-{os.getpid()}", certify=True)
                if v.startswith("OK"):
                    res["unsat_certified"] += 1
                else:
                    res["problems"].append({"what": f"an unsat answer is not confirmed by the Lean machine: {v}", "kind": "unsat"})
        except Exception as e:
            res["problems"].append({"what": f"trace machinery failed: {e!r}", "kind": "machinery"})
    tp.unlink(missing_ok=True)
    # unsat answers again: the Lean machine certifies the refutation of the terms the front end *built*; whether the accepted
    # assertions as written have a model is asked of z3 (untrusted) and every proposed model is validated by the Lean evaluator
    if "unsat" in res["answers"] and not res["problems"]:
        try:
            import attack
            for pr in attack.models_against_unsat(case["script"], out):
                pr["kind"] = "unsat"
                pr["what"] += ": the front end built other terms than the ones written"
                res["problems"].append(pr)
        except Exception as e:
            res["machinery_note"] = repr(e)
    return res


def run(tier):
    chk = common.Check("C29", tier)
    chk.lean_obligations(THEOREMS)
    binary = common.opensmt_bin("hooks")
    n = 300 if tier == "quick" else 6000
    cases = [make_case(i, chk.seed) for i in range(n)]
    for f in sorted((common.VERIF / "corpus" / "C29").glob("*.smt2")):
        cases.insert(0, {"idx": f.name, "logic": "corpus", "kind": "corpus", "options": [], "script": f.read_text()})
    with mp.Pool(min(common.JOBS, 14)) as pool:
        results = pool.map(run_case, [(c, binary) for c in cases], chunksize=4)
    by_kind, answered, rejected = {}, 0, 0
    for c, r in zip(cases, results):
        k = by_kind.setdefault(c["kind"], {"cases": 0, "errors": 0, "sat": 0, "unsat": 0})
        k["cases"] += 1; k["errors"] += r["errors"]; k["sat"] += r["answers"].count("sat"); k["unsat"] += r["answers"].count("unsat")
        answered += len([a for a in r["answers"] if a in ("sat", "unsat")]); rejected += r["errors"]
        chk.case(key=(c["idx"], tuple(r["answers"]), r["errors"]), nontrivial=bool(r["answers"]) or r["errors"] > 0,
                 sample={"kind": c["kind"], "logic": c["logic"], "answers": r["answers"], "errors": r["errors"]} if r["answers"] else None)
        chk.obligation(not r["problems"])
        if r["answers"]:
            chk.cov["traces_validated_against_impl"] += 1
        for pr in r["problems"][:1]:
            import re as _re
            ext = extsolve.z3_run(_re.sub(r"\(set-logic [A-Z_]+\)", "(set-logic ALL)", extsolve.strip_options(c["script"])), 10).split()
            ext = [x for x in ext if x in ("sat", "unsat", "unknown")]
            chk.violation("out-of-logic", f"{pr['what']} ({c['logic']}, {c['kind']}); z3 on the same script: {ext[:6]}",
                          {"script": c["script"], "problem": pr, "impl_stdout": r["stdout"]}, match_key=classify(pr, c))
    chk.assumptions = ["`correct` is judged by certification of the answer, not by comparison with another solver: an unsat trace the "
                       "Lean machine accepts, a printed model the Lean evaluator validates (integrality of Int-sorted symbols included)"]
    return chk.finish(rule="one case = one script over a construct outside its declared logic (10 families); every answered check-sat is "
                           "certified, rejections are counted; non-trivial = the script got at least one answer or rejection",
                      extra={"by_family": by_kind, "answers_certified": answered, "rejections": rejected})


def classify(pr, case):
    """known findings are identified by the input family: a difference logic given an atom that is not a difference
    constraint (the solver reads the atom without checking its shape)"""
    if case["kind"].startswith("dl-") and pr.get("kind") in ("sat", "unsat"):
        return "dl-atom-shape-unchecked"
    return None
