"""C16: numeric literals: StringConv.h against the Lean model on exhaustive short strings and long literals, and the
print -> re-read round trip of numeric values through the solver."""
import itertools, os, random, subprocess
from fractions import Fraction
import common, runner, smtlib

THEOREMS = ["Osmt.Properties.C16_decimal_exact", "Osmt.Properties.C16_lexdec_accepted",
            "Osmt.Properties.C16_trailing_zeros", "Osmt.Num.s2rDec_exact"]
ALPHABET = "0159./-"


def enc(s):
    return "%" if s == "" else "".join(c if c.isalnum() or c in "./-" else "%%%02X" % ord(c) for c in s)


def py_value(s):
    """exact value of a well-formed decimal / fraction literal, None otherwise"""
    t = s[1:] if s.startswith("-") else s
    try:
        if "/" in t:
            a, b = t.split("/")
            if not (a.isdigit() and b.isdigit()) or int(b) == 0:
                return None
            v = Fraction(int(a), int(b))
        else:
            if t.count(".") > 1:
                return None
            ip, _, fp = t.partition(".")
            if not (ip + fp).isdigit() or (("." in t) and fp == ""):
                return None
            v = Fraction(int(ip + fp), 10 ** len(fp))
        return -v if s.startswith("-") else v
    except ValueError:
        return None


def run(tier):
    chk = common.Check("C16", tier)
    chk.lean_obligations(THEOREMS)
    exe = common.compile_harness("num_harness", ["num_harness.cc"],
                                 extra_flags=["-DNDEBUG", "-fsanitize=address,undefined", "-fno-sanitize-recover=all"])
    rng = chk.rng
    maxlen = 6 if tier == "quick" else 8
    strings = [""]
    for n in range(1, maxlen + 1):
        strings += ["".join(t) for t in itertools.product(ALPHABET, repeat=n)]
    # long literals
    for _ in range(300 if tier == "quick" else 5000):
        ip = "0" * rng.randint(0, 3) + "".join(rng.choice("0123456789") for _ in range(rng.randint(1, 60)))
        fp = "".join(rng.choice("0123456789") for _ in range(rng.randint(1, 60))) + "0" * rng.randint(0, 5)
        strings.append(rng.choice(["", "-"]) + ip + "." + fp)
        strings.append(rng.choice(["", "-"]) + ip)
        strings.append(rng.choice(["", "-"]) + ip.lstrip("0") + "1/" + fp.lstrip("0") + "7")
    inp = "\n".join(enc(s) for s in strings) + "\n"
    r = subprocess.run([str(exe)], input=inp, capture_output=True, text=True)
    cpp = r.stdout.split("\n")
    p = common.WORK / f"num-{os.getpid()}.in"
    p.write_text(inp)
    lean = common.sh([str(common.model_exe()), "num", str(p)]).stdout.split("\n")
    p.unlink(missing_ok=True)
    if r.returncode != 0:
        chk.obligation(False)
        chk.violation("harness-abort", f"StringConv harness died (status {r.returncode}) after {len(cpp)} lines",
                      {"input": strings[max(0, len(cpp) - 1)] if len(cpp) <= len(strings) else None, "stderr": r.stderr[-600:]})
    accepted = wrong = 0
    for i, s in enumerate(strings):
        if i >= len(cpp) - 1 and r.returncode != 0:
            break
        c, m = cpp[i].split(), (lean[i].split() if i < len(lean) else [])
        if len(c) != 3:
            continue
        v = py_value(s)
        is_real_lang = v is not None
        chk.case(key=s, nontrivial=True, sample={"string": s, "impl": cpp[i], "model": lean[i]} if i % 40009 == 7 else None)
        # L2 oracle: a string isRealString accepts must convert to its exact value; others are not our business
        if c[1] == "1":
            accepted += 1
            t = s[1:] if s.startswith("-") else s
            frac_with_dot = "/" in t and "." in t
            if c[2] == "skip-zero-den" or frac_with_dot:
                pass
            elif v is None or c[2] in ("throw",) or Fraction(c[2]) != v:
                wrong += 1
                chk.obligation(False)
                chk.violation("literal", f"literal {s!r} accepted by isRealString converts to {c[2]} (exact value {v})",
                              {"input": s, "impl": cpp[i], "exact": str(v)})
                continue
        if c[2] == "skip-zero-den" or ("/" in s and ("." in s)) or ("/" in s and (s.rstrip("/") != s or s.lstrip("-").startswith("/"))):
            continue
        ok = (c == m)
        if not ok and "/" in s and py_value(s) is None:
            continue        # malformed fraction handed to GMP: garbage in, not modelled
        chk.obligation(ok)
        if not ok:
            chk.violation("model-mismatch", f"StringConv and the Lean model differ on {s!r}: impl `{cpp[i]}` model `{lean[i] if i < len(lean) else None}`",
                          {"input": s, "impl": cpp[i], "model": lean[i] if i < len(lean) else None}, found_input=False)
    # ---- print / re-read round trip through the solver
    binary = common.opensmt_bin("hooks")
    vals = [Fraction(n, d) for n in (0, 1, -1, 7, -7, 10**9, -(2**31), 2**31, 2**32 + 1, -(2**63) - 5, 10**30 + 1)
            for d in (1, 2, 3, 8, 10, 2**31 - 1, 10**12)]
    # values of any magnitude: numerators and denominators of up to 130 digits (printing must not depend on the length)
    for nd in (1, 9, 10, 19, 20, 40, 63, 64, 65, 80, 100, 130):
        for dd in (1, 10, 20, 41, 64, 90, 130):
            num = rng.randrange(10 ** (nd - 1), 10 ** nd)
            den = rng.randrange(10 ** (dd - 1), 10 ** dd) | 1
            vals.append(Fraction(rng.choice([1, -1]) * num, den))
    lines = ["(set-option :produce-models true)", "(set-logic QF_LRA)"]
    for i, v in enumerate(vals):
        lines.append(f"(declare-fun r{i} () Real)")
        lit = f"(/ {abs(v.numerator)} {v.denominator})" if v.denominator != 1 else f"{abs(v.numerator)}.0"
        lines.append(f"(assert (= r{i} {'(- ' + lit + ')' if v < 0 else lit}))")
    lines += ["(check-sat)", "(get-value (" + " ".join(f"r{i}" for i in range(len(vals))) + "))"]
    out, err, rc = runner.run_opensmt(binary, "\n".join(lines) + "\n", None, timeout=60)
    try:
        sx = smtlib.parse_sexps(out)
        pairs = sx[1]
        tb = smtlib.Table()
        rt = 0
        for i, v in enumerate(vals):
            t = tb.term(pairs[i][1])
            def ev(k):
                op, args, _ = tb.nodes[k]
                if op.startswith("num:"): return Fraction(op[4:])
                if op == "minus" and len(args) == 1: return -ev(args[0])
                if op == "rdiv": return ev(args[0]) / ev(args[1])
                raise ValueError(op)
            got = ev(t)
            rt += 1
            chk.case(key=("roundtrip", str(v)))
            chk.obligation(got == v)
            if got != v:
                chk.violation("print", f"value {v} is printed as {pairs[i][1]} which reads back as {got}", {"value": str(v), "printed": str(pairs[i][1])})
    except Exception as e:
        chk.obligation(False)
        chk.violation("print", f"get-value output unreadable: {e!r}", {"stdout": out[-800:]}, found_input=False)
        rt = 0
    chk.assumptions = ["strings with '/' whose numerator or denominator part is empty, zero or contains a dot are not compared "
                       "(GMP is handed a malformed string; isRealString/the lexer never let them through, except `a/b.c`, see DESIGN)"]
    return chk.finish(rule=f"exhaustive over all strings of length <= {maxlen} over the alphabet {ALPHABET!r} plus long random "
                           "literals; compared: isIntString, isRealString, stringToRational (value or throw); every string "
                           "accepted by isRealString must convert to its exact value; numeric values printed by get-value are re-read",
                      extra={"strings": len(strings), "accepted_by_isRealString": accepted, "round_trips": rt, "exhaustive": True})
