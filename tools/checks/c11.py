"""C11: every theory clause of every traced run is validated by a Lean kernel (certificate from untrusted producers)."""
import common, engine

THEOREMS = ["Osmt.Properties.C11_la_clause_valid", "Osmt.Properties.C11_euf_clause_valid",
            "Osmt.Properties.C11_theory_clause_valid", "Osmt.Properties.C11_farkas", "Osmt.Properties.C11_split_valid",
            "Osmt.LA.tighten_sound", "Osmt.LA.linearize_sound", "Osmt.EUF.runSteps_sound"]
LOGICS = ["QF_UF", "QF_LRA", "QF_LIA", "QF_RDL", "QF_IDL", "QF_UFLRA", "QF_UFLIA"]


def run(tier):
    chk = common.Check("C11", tier)
    chk.lean_obligations(THEOREMS)
    n = 280 if tier == "quick" else 5000
    extra = [engine.make_boolarg_case(i, chk.seed) for i in range(80 if tier == "quick" else 1500)]
    cases, results = engine.run_corpus(n, chk.seed, logics=LOGICS, certify=True, timeout=10 if tier == "quick" else 30,
                                       extra_cases=extra)
    stats, timeouts, nth = {}, 0, 0
    for c, r in zip(cases, results):
        if r["rc"] == "timeout":
            timeouts += 1
            continue
        for k, v in r["stats"].items():
            stats[k] = stats.get(k, 0) + v
        t = sum(int(v.split("theory=")[1].split()[0]) for v in r["verdicts"] if "theory=" in v)
        nth += t
        bad = [v for v in r["verdicts"] if "theory-clause-not-certified" in v]
        chk.case(key=(c["idx"], t), nontrivial=t > 0,
                 sample={"logic": c["logic"], "options": c["options"], "theory_clauses": t, "kernels": r["stats"]} if t > 3 else None)
        chk.cov["traces_validated_against_impl"] += len(r["verdicts"])
        chk.obligation(not bad)
        if bad:
            chk.violation("theory-clause", f"{bad[0]} ({c['logic']} {c['options']})",
                          {"script": c["script"], "options": c["options"], "lean_verdict": bad[0],
                           "failed_event": r.get("failed_line")}, found_input=True)
    chk.assumptions = ["array lemmas have no kernel and array logics are not in this corpus",
                       "certificates are produced by untrusted code (z3 as LP solver, Python congruence closure)"]
    return chk.finish(rule="one case = one traced run; non-trivial = it contains theory clauses; every theory clause "
                           "(conflict, reason, root deduction, split, interface) must be accepted by laClauseCheck or eufClauseCheck",
                      extra={"theory_clauses_certified": nth, "by_kernel": stats, "timeouts": timeouts})
