"""C27: integer rounding: constant folding of div/mod and the normal forms of integer comparisons (front end, via the
Lean evaluator), the fold / bound / negate mirrors (driver `int` mode) against the implementation."""
import os, random, subprocess
from fractions import Fraction
import common, runner, trace, smtlib, termeval, gen

THEOREMS = ["Osmt.Properties.C27_fold_div", "Osmt.Properties.C27_fold_mod", "Osmt.Properties.C27_mod_range",
            "Osmt.Properties.C27_divmod_axioms", "Osmt.Properties.C27_int_bounds", "Osmt.Properties.C27_gcd_normalise",
            "Osmt.Properties.C27_negate_difference", "Osmt.Properties.C27_tighten"]
INTS = sorted({s * (b + d) for b in (0, 1, 2, 3, 7, 10, 2**31 - 1, 2**31, 2**32, 2**53, 2**63 - 1) for d in (-1, 0, 1) for s in (1, -1)})


def ilit(v):
    return str(v) if v >= 0 else f"(- {-v})"


def lean_int(lines):
    p = common.WORK / f"int-{os.getpid()}.in"
    p.write_text("\n".join(lines) + "\n")
    r = common.sh([str(common.model_exe()), "int", str(p)])
    p.unlink(missing_ok=True)
    return r.stdout.split()


def run(tier):
    chk = common.Check("C27", tier)
    chk.lean_obligations(THEOREMS)
    binary = common.opensmt_bin("hooks")
    rng = chk.rng
    # ---- (1) constant folding of div / mod through the front end, compared with the Lean mirror foldDiv/foldMod
    divisors = [d for d in INTS if d != 0 and abs(d) < 2**40]
    pairs = [(a, d) for a in (INTS if tier == "thorough" else rng.sample(INTS, 30)) for d in (divisors if tier == "thorough" else rng.sample(divisors, 24))]
    chunks = [pairs[i:i + 200] for i in range(0, len(pairs), 200)]
    folds = 0
    for chunk in chunks:
        lines = ["(set-logic QF_LIA)", "(declare-fun y () Int)"]
        for a, d in chunk:
            lines.append(f"(assert (= y (div {ilit(a)} {ilit(d)})))")
            lines.append(f"(assert (= y (mod {ilit(a)} {ilit(d)})))")
        script = "\n".join(lines) + "\n"
        tp = common.WORK / f"c27-{os.getpid()}.trace"
        tp.unlink(missing_ok=True)
        out, err, rc = runner.run_opensmt(binary, script, tp, timeout=60)
        tr = trace.Trace(tp)
        tp.unlink(missing_ok=True)
        built = [e for e in tr.main if e[1] == "as"]
        if len(built) != 2 * len(chunk):
            chk.obligation(False)
            chk.violation("front-end", f"{2*len(chunk)} asserts but {len(built)} constructed terms", {"script": script[:2000], "stdout": out[-500:]},
                          found_input=False)
            continue
        want = lean_int([x for a, d in chunk for x in (f"fdiv {a} {d}", f"fmod {a} {d}")])
        for j, e in enumerate(built):
            tt = tr.logics[e[4]]
            n = tt.nodes[e[5]]
            consts = [tt.nodes[c].op[4:] for c in n.args if tt.nodes[c].op.startswith("num:")]
            a, d = chunk[j // 2]
            kind = "div" if j % 2 == 0 else "mod"
            exact = (a // d if d > 0 else -((-a) // d) if False else None)
            # Euclidean reference in Python
            q = a // d if d > 0 else -(a // -d)
            r = a - q * d
            ref = q if kind == "div" else r
            folds += 1
            chk.case(key=(kind, a, d), sample={"op": kind, "a": a, "d": d, "impl": consts, "model": want[j]} if folds % 397 == 1 else None)
            ok = len(consts) == 1 and consts[0] == want[j]
            chk.obligation(ok)
            if not ok:
                chk.violation("fold", f"({kind} {a} {d}): opensmt folds to {consts}, Lean mirror {want[j]}, Euclidean {ref}",
                              {"input": f"({kind} {a} {d})", "impl": consts, "model": want[j], "euclidean": ref},
                              found_input=(len(consts) != 1 or int(Fraction(consts[0])) != ref))
    # ---- (2) normal forms of integer comparisons: input atom vs constructed atom under integer assignments
    n_atoms = 0
    for rep in range(6 if tier == "quick" else 60):
        lines = ["(set-logic QF_LIA)", "(declare-fun x () Int)", "(declare-fun y () Int)"]
        atoms = []
        for _ in range(60):
            k1, k2 = rng.choice([1, 2, 3, 5, -1, -2, -4, 6]), rng.choice([0, 0, 1, 2, -3, 4, 6])
            c = rng.choice([0, 1, -1, 2, 3, 5, 7, -7, 9, 10, 2**31, -2**31 - 1, 2**32 + 1])
            op = rng.choice(["<=", "<", ">=", ">", "="])
            lhs = f"(+ (* {ilit(k1)} x) (* {ilit(k2)} y))" if k2 else f"(* {ilit(k1)} x)"
            a = f"({op} {lhs} {ilit(c)})"
            if rng.random() < 0.4:
                a = f"(not {a})"
            atoms.append(a)
            lines.append(f"(assert {a})")
        script = "\n".join(lines) + "\n"
        tp = common.WORK / f"c27-{os.getpid()}.trace"
        tp.unlink(missing_ok=True)
        out, err, rc = runner.run_opensmt(binary, script, tp, timeout=60)
        tr = trace.Trace(tp)
        tp.unlink(missing_ok=True)
        sc = smtlib.Script(script)
        inputs = [a for name, a in sc.commands if name == "assert"]
        built = [e for e in tr.main if e[1] == "as"]
        if len(built) != len(inputs):
            chk.obligation(False)
            chk.violation("front-end", "assert count mismatch", {"script": script[:1500], "stdout": out[-400:]}, found_input=False)
            continue
        cache = {}
        pairs2 = [(tid, termeval.import_trace_term(sc.table, tr.logics[e[4]], e[5], cache)) for (tid, _), e in zip(inputs, built)]
        asgs = [{"x": Fraction(vx), "y": Fraction(vy)} for vx in list(range(-8, 9)) + [2**31, -2**31 - 2, 2**33 + 1] for vy in (-3, 0, 1, 2, 7)]
        ids = [x for pr in pairs2 for x in pr]
        vals = termeval.eval_under(sc.table, asgs, ids)
        for j, (a, b) in enumerate(pairs2):
            n_atoms += 1
            bad = None
            for asg, row in zip(asgs, vals):
                if row[2 * j] != row[2 * j + 1]:
                    bad = (asg, row[2 * j], row[2 * j + 1])
                    break
            chk.case(key=("atom", atoms[j]), sample={"input": atoms[j], "constructed": tr.logics[built[j][4]].smt(built[j][5])} if n_atoms % 97 == 1 else None)
            chk.obligation(bad is None)
            if bad:
                chk.violation("normal-form", f"{atoms[j]} differs from its normal form at {bad[0]}",
                              {"input": atoms[j], "constructed": tr.logics[built[j][4]].smt(built[j][5]),
                               "assignment": {k: str(v) for k, v in bad[0].items()}, "input_value": bad[1], "constructed_value": bad[2]})
    # ---- (4) the axioms that eliminate div / mod of a non-constant dividend: x is pinned to a by two bounds (no substitution, no
    # folding), then (div x d) and (mod x d) must be exactly the Euclidean quotient and remainder of the Lean mirror
    dsmall = [1, -1, 2, -2, 3, -3, 7, -7, 10, -10, 2**31, -2**31, 2**31 + 1, -(2**32 + 1)]
    asmall = [0, 1, -1, 2, -2, 5, -5, 7, -7, 9, -10, 100, -101, 2**31 - 1, -2**31, 2**32 + 3, -(2**33 + 5)]
    pairs4 = [(a, d) for a in asmall for d in dsmall]
    if tier == "quick":
        pairs4 = rng.sample(pairs4, 48)
    qr = lean_int([x for a, d in pairs4 for x in (f"fdiv {a} {d}", f"fmod {a} {d}")])
    axioms = 0
    for k in range(0, len(pairs4), 12):
        chunk = pairs4[k:k + 12]
        lines = ["(set-logic QF_LIA)", "(declare-fun x () Int)"]
        expect = []
        for j, (a, d) in enumerate(chunk):
            q, r = qr[2 * (k + j)], qr[2 * (k + j) + 1]
            pin = [f"(assert (>= x {ilit(a)}))", f"(assert (<= x {ilit(a)}))"]
            same = f"(and (= (div x {ilit(d)}) {ilit(int(q))}) (= (mod x {ilit(d)}) {ilit(int(r))}))"
            lines += ["(push 1)"] + pin + [f"(assert {same})", "(check-sat)", "(pop 1)"]; expect.append(("sat", a, d, q, r))
            lines += ["(push 1)"] + pin + [f"(assert (not {same}))", "(check-sat)", "(pop 1)"]; expect.append(("unsat", a, d, q, r))
        script = "\n".join(lines) + "\n"
        out, err, rc = runner.run_opensmt(binary, script, None, timeout=120)
        if rc == "timeout":
            continue
        ans = runner.answers(out)
        if len(ans) != len(expect):
            chk.obligation(False)
            chk.violation("front-end", f"{len(expect)} checks but {len(ans)} answers", {"script": script[:3000], "stdout": out[-500:]}, found_input=False)
            continue
        for (want_a, a, d, q, r), got in zip(expect, ans):
            axioms += 1
            chk.case(key=("axiom", want_a, a, d), sample={"x": a, "d": d, "div": q, "mod": r, "expected": want_a, "answer": got} if axioms % 41 == 1 else None)
            ok = got == want_a
            chk.obligation(ok)
            if not ok:
                chk.violation("elimination", f"x = {a}: (div x {d}) = {q} and (mod x {d}) = {r} by the Lean mirror (Euclidean), but with x pinned to {a} "
                                             f"opensmt answers {got} where {want_a} is the only correct answer",
                              {"x": a, "d": d, "div": q, "mod": r, "expected": want_a, "answer": got, "script": script})
    # ---- (3) negation of difference constraints: Converter<SafeInt>::negate vs negateDL (and exact getValue)
    exe = common.compile_harness("dl_negate", ["dl_negate.cc"], link_lib=True)
    vals = [v for v in INTS if -2**63 + 2 < v < 2**63 - 2]
    r = subprocess.run([str(exe)], input="\n".join(map(str, vals)) + "\n", capture_output=True, text=True)
    got = [l.split() for l in r.stdout.strip().split("\n")]
    want = lean_int([f"negdl {v}" for v in vals])
    for v, g, w in zip(vals, got, want):
        ok = len(g) == 2 and g[0] == w and g[1] == str(v)
        chk.case(key=("negate", v))
        chk.obligation(ok)
        if not ok:
            chk.violation("negate", f"Converter<SafeInt>: negate({v}) = {g[0] if g else None} (mirror {w}), getValue = {g[1] if len(g) > 1 else None}",
                          {"input": v, "impl": g, "model": w})
    chk.assumptions = ["values outside ptrdiff_t are rejected by the IDL solver with overflow (not part of exact rounding)"]
    return chk.finish(rule="(1) every (a, d) of a boundary lattice x {div, mod} folded by the front end vs the Lean mirror; "
                           "(2) integer comparison atoms with non-unit coefficients vs their constructed normal forms on an "
                           "integer grid incl. values beyond 2^31; (3) Converter<SafeInt>::negate/getValue on the lattice",
                      extra={"folds_compared": folds, "atoms_compared": n_atoms, "negate_values": len(vals), "elimination_checks": axioms})
