"""C14: terms built by the constructors (through the SMT-LIB front end) denote what the input denotes: the asserted
term as constructed by opensmt (hook trace) and the input term are evaluated by the Lean evaluator under many
interpretations and must agree."""
import multiprocessing as mp, os, random
from fractions import Fraction
import common, gen, runner, trace, smtlib, termeval

THEOREMS = ["Osmt.Properties.C14_mkAnd_eval", "Osmt.Properties.C14_mkOr_eval", "Osmt.Properties.C14_mkNot_eval",
            "Osmt.Properties.C14_mkImpl_eval", "Osmt.Properties.C14_mkXor_eval", "Osmt.Properties.C14_mkIte_eval",
            "Osmt.Properties.C14_mkEq_eval"]
LOGICS = ["QF_BOOL", "QF_UF", "QF_LRA", "QF_LIA", "QF_UFLRA", "QF_UFLIA", "QF_RDL", "QF_IDL"]


class RichProblem(gen.Problem):
    """more operators than the engine corpus: div/mod by constants, nested ite terms, distinct, n-ary comparisons,
    repeated / complementary / constant arguments (the cases the constructors special-case)"""

    def nterm(self, d=2):
        r = self.r
        c = r.random()
        if self.S in ("Int", "Real") and not self.dl and d > 0:
            if c < 0.10:
                return ("app", "ite", self.S, [self.fla(1), self.nterm(d - 1), self.nterm(d - 1)])
            if c < 0.13 and len(self.nums) >= 3:
                # weighted sums over three or more variables with composite coefficients (gcd normalisation, tightening)
                vs = r.sample(self.nums, r.randint(3, min(4, len(self.nums))))
                ks = [r.choice([2, 3, 4, 6, 9, 10, 12, 15, -2, -3, -4, -6, -9, -10]) for _ in vs]
                return ("app", "+", self.S, [("app", "*", self.S, [("num", Fraction(k), self.S), v]) for k, v in zip(ks, vs)])
            if c < 0.16 and self.S == "Int":
                k = r.choice([2, 3, -2, 5, 1, -1])
                return ("app", r.choice(["div", "mod"]), "Int", [self.nterm(d - 1), ("num", Fraction(k), "Int")])
            if c < 0.20 and self.S == "Real":
                k = r.choice([2, 3, -2, 4, 1, -1, -1])
                return ("app", "/", "Real", [self.nterm(d - 1), ("num", Fraction(k), "Real")])
            if c < 0.24:
                return ("app", "-", self.S, [self.nterm(d - 1)])
            if c < 0.28:
                t = self.nterm(d - 1)
                return ("app", "+", self.S, [t, ("app", "*", self.S, [("num", Fraction(-1), self.S), t])])
        return super().nterm(d)

    def atom(self):
        r = self.r
        c = r.random()
        if self.nums and c < 0.08:
            return ("app", "distinct", "Bool", [self.nterm(1) for _ in range(r.randint(2, 4))])
        if self.nums and self.arith and not self.dl and c < 0.14:
            return ("app", r.choice(["<=", "<", ">=", ">"]), "Bool", [self.nterm(1) for _ in range(3)])
        if self.nums and c < 0.18:
            t = self.nterm(1)
            return ("app", "=", "Bool", [t, t])
        return super().atom()

    def fla(self, d):
        r = self.r
        if d > 0 and r.random() < 0.12:
            a = self.fla(d - 1)
            k = r.random()
            if k < 0.3:
                return ("app", r.choice(["and", "or"]), "Bool", [a, ("app", "not", "Bool", [a]), self.fla(d - 1)])
            if k < 0.5:
                return ("app", r.choice(["and", "or", "xor", "=", "=>"]), "Bool", [a, a])
            if k < 0.7:
                return ("app", r.choice(["and", "or"]), "Bool", [a, ("var", r.choice(["true", "false"]), "Bool"), self.fla(d - 1)])
            if k < 0.85:
                return ("app", "ite", "Bool", [("var", r.choice(["true", "false"]), "Bool"), a, self.fla(d - 1)])
            return ("app", "distinct", "Bool", [a, self.fla(d - 1), self.fla(d - 1)])
        return super().fla(d)


def run_case(args):
    idx, seed, binary = args
    rng = random.Random(f"c14-{seed}-{idx}")
    logic = LOGICS[idx % len(LOGICS)]
    p = RichProblem(logic, rng, big=(idx % 6 == 5))
    asserts = [p.fla(rng.randint(1, 3)) for _ in range(rng.randint(6, 12))]
    lines = [p.set_logic()] + p.decls + [f"(assert {gen.smt(a)})" for a in asserts]
    script = "\n".join(lines) + "\n"
    tp = common.WORK / f"c14-{os.getpid()}.trace"
    tp.unlink(missing_ok=True)
    out, err, rc = runner.run_opensmt(binary, script, tp, timeout=20)
    res = {"idx": idx, "logic": logic, "script": script, "problems": [], "terms": 0, "evals": 0, "rejected": 0}
    if rc == "timeout":
        return res                    # no check-sat in these scripts: a timeout is the machine being loaded; inconclusive
    if not tp.exists():
        res["problems"].append({"what": f"no trace (status {rc})", "stdout": out[-300:], "stderr": err[-300:]})
        return res
    tr = trace.Trace(tp)
    tp.unlink(missing_ok=True)
    sc = smtlib.Script(script)
    inputs = [a for name, a in sc.commands if name == "assert"]
    built = [e for e in tr.main if e[1] == "as"]
    nerr = out.count("(error")
    res["rejected"] = nerr
    if len(built) + nerr != len(inputs):
        res["problems"].append({"what": f"{len(inputs)} asserts, {len(built)} constructed terms, {nerr} errors", "stdout": out[-400:]})
        return res
    if nerr:
        return res          # a rejected assert shifts the pairing; rejection itself is C19/C29 territory
    cache, fresh = {}, []
    pairs = []
    for (tid, _), e in zip(inputs, built):
        tt = tr.logics[e[4]]
        pairs.append((tid, termeval.import_trace_term(sc.table, tt, e[5], cache, fresh)))
    if fresh:
        res["problems"].append({"what": f"constructed terms mention symbols the script never declared: {fresh}"})
        return res
    # structural tie of the Boolean-constructor mirror (Osmt.Mk): on purely propositional scripts the mirror's
    # bottom-up construction must give the same term as opensmt, up to the order of commutative arguments
    if logic == "QF_BOOL":
        mk_lines = sc.table.lean_lines() + [x for a, b in pairs for x in (f"B {a}", f"C {b}")]
        mp_ = common.WORK / f"c14mk-{os.getpid()}.in"
        mp_.write_text("\n".join(mk_lines) + "\n")
        mo = common.sh([str(common.model_exe()), "mk", str(mp_)]).stdout.strip().split("\n")
        mp_.unlink(missing_ok=True)
        res["mirror"] = 0
        for j in range(len(pairs)):
            if 2 * j + 1 >= len(mo):
                res["problems"].append({"what": "mirror driver output mismatch"})
                break
            res["mirror"] += 1
            if mo[2 * j] != mo[2 * j + 1]:
                res["drift"] = {"what": f"assert #{j}: the mirror constructs {mo[2*j]} but opensmt constructed {mo[2*j+1]}",
                                "input": lines[len(lines) - len(asserts) + j]}
                break
    ufd = termeval.uf_defs(sc.table, rng)
    asgs = termeval.grid(sc.table, rng, 24)
    # a systematic sweep of small values of the numeric constants: boundary cases of (tightened / normalised) comparisons
    numc = [name for name, (k, asorts, rs) in sc.table.decls.items() if not asorts and rs in ("I", "R")]
    if 0 < len(numc) <= 3 and "(* " in script:
        import itertools
        for combo in itertools.product((-1, 0, 1, 2), repeat=len(numc)):
            a = dict(rng.choice(asgs[:24]))
            a.update({n: Fraction(v) for n, v in zip(numc, combo)})
            asgs.append(a)
    ids = [x for pr in pairs for x in pr]
    vals = termeval.eval_under(sc.table, asgs, ids, fun_defs=ufd)
    res["terms"] = len(pairs)
    for asg, row in zip(asgs, vals):
        if len(row) != len(ids):
            res["problems"].append({"what": "evaluator output mismatch"})
            break
        for j, (a, b) in enumerate(pairs):
            res["evals"] += 1
            if row[2 * j] != row[2 * j + 1]:
                res["problems"].append({"what": f"assert #{j}: input term evaluates to {row[2*j]}, constructed term to {row[2*j+1]}",
                                        "input": lines[len(lines) - len(asserts) + j],
                                        "constructed": tr.logics[built[j][4]].smt(built[j][5]),
                                        "assignment": {k: str(v) for k, v in asg.items()}})
                return res
    return res


def run(tier, pid="C14", theorems=THEOREMS):
    chk = common.Check(pid, tier)
    chk.lean_obligations(theorems)
    binary = common.opensmt_bin("hooks")
    n = 260 if tier == "quick" else 6000
    with mp.Pool(min(common.JOBS, 14)) as pool:
        results = pool.map(run_case, [(i, chk.seed, binary) for i in range(n)], chunksize=2)
    terms = evals = rejected = mirror = 0
    for r in results:
        terms += r["terms"]
        evals += r["evals"]
        rejected += r["rejected"]
        chk.case(key=(r["idx"], r["terms"]), nontrivial=r["terms"] > 0,
                 sample={"logic": r["logic"], "terms": r["terms"], "script_tail": r["script"][-300:]} if r["terms"] else None)
        chk.obligation(not r["problems"])
        if r["terms"]:
            chk.cov["traces_validated_against_impl"] += 1
        for pr in r["problems"][:1]:
            chk.violation("constructor", f"{pr['what']} ({r['logic']})", {"script": r["script"], "problem": pr})
        mirror += r.get("mirror", 0)
        if r.get("drift"):
            # the mirror and the code build different terms; the semantic comparison above found no input on which
            # the constructed term is wrong
            chk.obligation(False)
            chk.violation("mirror-drift", r["drift"]["what"] + "; correspondence Osmt.Mk.buildB vs Logic::mk* no longer checks",
                          {"script": r["script"], "drift": r["drift"], "theorems": ["Osmt.Mk.mkAnd_eval", "Osmt.Mk.mkOr_eval"]},
                          found_input=bool(r["problems"]))
    chk.assumptions = ["division by zero and non-linear products are not generated (rejected inputs are C19/C29)",
                       "array terms are not generated (the evaluator has no array values)"]
    return chk.finish(rule="one case = one script of 6-12 assertions; every asserted term as constructed by opensmt (trace) is "
                           "compared with the input term under 24 interpretations (Booleans, small and boundary numerics, "
                           "three-element uninterpreted sorts, non-trivial functions); non-trivial = at least one pair compared",
                      extra={"term_pairs": terms, "evaluations_in_lean": evals, "scripts_with_rejected_assert": rejected,
                             "mirror_constructions_compared_structurally": mirror})
