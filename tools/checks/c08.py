"""C08 / C09: every printed interpolant is re-decided with certified verdicts: A ∧ ¬I unsat, I ∧ B unsat (the unsat
verdicts are certified by the Lean machine accepting the trace of a fresh run; a `sat` verdict comes with a model validated
by the Lean evaluator), symbols of I occur in both A and B; for k ≥ 3 groups additionally I_j ∧ G_{j+1} ∧ ¬I_{j+1} unsat."""
import multiprocessing as mp, os, random, re
import common, gen, runner, smtlib, certify, extsolve

THEOREMS8 = ["Osmt.Properties.C08_checked_refutation_interpolant", "Osmt.Properties.C08_labelled_interpolation_sound", "Osmt.Properties.C08_labelled_interpolation_symbols",
             "Osmt.Properties.C08_farkas_interpolant", "Osmt.Properties.C08_farkas_interpolant_B",
             "Osmt.Properties.C08_farkas_dual_interpolant", "Osmt.Properties.C08_certified_split", "Osmt.Smt.unsat_sound"]
THEOREMS9 = ["Osmt.Properties.C09_labelled_path_step", "Osmt.Properties.C09_farkas_path_leaf", "Osmt.Itp.system_pairOK", "Osmt.Properties.C09_path_from_splits", "Osmt.Properties.C08_certified_split", "Osmt.Smt.unsat_sound"]
LOGICS = ["QF_UF", "QF_LRA", "QF_LIA", "QF_LRA", "QF_UF", "QF_LIA"]


def option_vector(rng, idx):
    o = [":print-success true", ":produce-interpolants true"]
    if idx % 3:
        o.append(f":interpolation-bool-algorithm {rng.choice([0, 1, 2, 3, 4, 5])}")
        o.append(f":interpolation-euf-algorithm {rng.choice([0, 2, 3])}")
        o.append(f":interpolation-lra-algorithm {rng.choice([0, 2, 3, 4, 5])}")
    if rng.random() < 0.3:
        o.append(f":interpolation-lra-factor \"{rng.choice(['1/2', '0', '1/3', '9/10', '1/1000'])}\"")
    if rng.random() < 0.3:
        o.append(f":proof-reduce {rng.choice([0, 1])}")
    if rng.random() < 0.4:
        o.append(f":simplify-interpolants {rng.choice([0, 1, 2, 3, 4])}")
    return o


def make_script(idx, seed, kmin, kmax):
    rng = random.Random(f"c08-{seed}-{idx}-{kmin}")
    logic = LOGICS[idx % len(LOGICS)]
    p = gen.Problem(logic, rng)
    lines = [f"(set-option {o})" for o in option_vector(rng, idx)] + [p.set_logic()] + p.decls
    nm = 0
    stack = [[]]
    queries = []                               # (line index of get-interpolants, groups [[names]], active [(text,name)])

    def check():
        lines.append("(check-sat)")
        active = [x for fr in stack for x in fr]
        names = [n for t, n in active if n]
        if len(names) < max(2, kmin):
            return
        for _ in range(rng.randint(1, 2)):
            k = rng.randint(kmin, min(kmax, len(names)))
            pool = names[:]
            rng.shuffle(pool)
            cut = sorted(rng.sample(range(1, len(pool)), k - 1)) if len(pool) > k - 1 and k > 1 else []
            groups = [pool[a:b] for a, b in zip([0] + cut, cut + [len(pool)])]
            if rng.random() < 0.3 and len(groups[-1]) > 1:
                groups[-1] = groups[-1][:1]        # the last group need not list everything that is left
            if rng.random() < 0.25 and len(groups[0]) > 1:
                groups[0] = groups[0][:-1]         # ... nor do the groups have to cover all names
            txt = " ".join(g[0] if len(g) == 1 else "(and " + " ".join(g) + ")" for g in groups)
            lines.append(f"(get-interpolants {txt})")
            queries.append((len(lines) - 1, groups, active))

    for _ in range(rng.randint(7, 16)):
        c = rng.random()
        if c < 0.10:
            lines.append("(push 1)"); stack.append([])
        elif c < 0.18 and len(stack) > 1:
            lines.append("(pop 1)"); stack.pop()
        elif c < 0.82:
            t = gen.smt(p.fla(rng.randint(0, 2)))
            if rng.random() < 0.8:
                nm += 1
                lines.append(f"(assert (! {t} :named N{nm}))"); stack[-1].append((t, f"N{nm}"))
            else:
                lines.append(f"(assert {t})"); stack[-1].append((t, None))
        else:
            check()
    check()
    return p, "\n".join(lines) + "\n", queries


class _PropProblem:
    """declarations of a purely propositional instance, in the shape run_case expects"""
    logic = "QF_BOOL"
    def __init__(self, nv):
        self.decls = [f"(declare-fun v{i} () Bool)" for i in range(nv)]
    def set_logic(self):
        return "(set-logic QF_UF)"


def make_prop_script(idx, seed, kmin, kmax):
    """larger propositional refutations (random 3-CNF above the threshold split into named assertions): every Boolean
    interpolation algorithm, with and without proof reduction; the proofs are big enough for the reduction rules and the
    proof-sensitive labellings to matter"""
    rng = random.Random(f"c08-prop-{seed}-{idx}-{kmin}")
    nv = rng.randint(5, 9)
    p = _PropProblem(nv)
    alg = idx % 6
    opts = [":print-success true", ":produce-interpolants true", f":interpolation-bool-algorithm {alg}"]
    if rng.random() < 0.6:
        opts.append(":proof-reduce 1")
        if rng.random() < 0.5:
            opts.append(f":proof-num-graph-traversals {rng.randint(1, 4)}")
    if rng.random() < 0.3:
        opts.append(f":simplify-interpolants {rng.choice([0, 1, 2, 3, 4])}")
    lines = [f"(set-option {o})" for o in opts] + [p.set_logic()] + p.decls
    ncl = int(nv * rng.uniform(4.6, 6.5))
    clauses = []
    for _ in range(ncl):
        vs = rng.sample(range(nv), rng.choice([2, 3, 3, 3]))
        clauses.append("(or " + " ".join((f"(not v{v})" if rng.random() < 0.5 else f"v{v}") for v in vs) + ")")
    active, nm, i = [], 0, 0
    while i < len(clauses):
        k = rng.randint(1, 3)
        t = clauses[i] if k == 1 or i + 1 >= len(clauses) else "(and " + " ".join(clauses[i:i + k]) + ")"
        i += k
        nm += 1
        lines.append(f"(assert (! {t} :named N{nm}))"); active.append((t, f"N{nm}"))
    lines.append("(check-sat)")
    queries = []
    names = [n for _, n in active]
    for _ in range(2):
        k = rng.randint(kmin, min(kmax, len(names)))
        pool = names[:]
        rng.shuffle(pool)
        cut = sorted(rng.sample(range(1, len(pool)), k - 1))
        groups = [pool[a:b] for a, b in zip([0] + cut, cut + [len(pool)])]
        txt = " ".join(g[0] if len(g) == 1 else "(and " + " ".join(g) + ")" for g in groups)
        lines.append(f"(get-interpolants {txt})")
        queries.append((len(lines) - 1, groups, active))
    return p, "\n".join(lines) + "\n", queries


class _EufProblem:
    logic = "QF_UF"
    def __init__(self, nc):
        self.decls = ["(declare-sort U 0)"] + [f"(declare-fun c{i} () U)" for i in range(nc)] + ["(declare-fun f (U) U)", "(declare-fun g (U U) U)",
                                                                                                  "(declare-fun p (U) Bool)"]
    def set_logic(self):
        return "(set-logic QF_UF)"


def make_euf_script(idx, seed, kmin, kmax):
    """equalities over uninterpreted terms, made unsatisfiable by denying a consequence of congruence closure; the equalities are
    split over the groups, so the interpolant has to speak about shared terms (every EUF interpolation algorithm, also `random`)"""
    rng = random.Random(f"c08-euf-{seed}-{idx}-{kmin}")
    nc = rng.randint(3, 6)
    p = _EufProblem(nc)
    consts = [f"c{i}" for i in range(nc)]
    def term(d):
        r = rng.random()
        if d == 0 or r < 0.45:
            return rng.choice(consts)
        if r < 0.8:
            return ("f", term(d - 1))
        return ("g", term(d - 1), term(d - 1))
    def txt(t):
        return t if isinstance(t, str) else "(" + t[0] + " " + " ".join(txt(x) for x in t[1:]) + ")"
    eqs = []
    for _ in range(rng.randint(5, 10)):
        a, b = term(2), term(2)
        if a != b:
            eqs.append((a, b))
    # congruence closure over all subterms
    terms = set()
    def sub(t):
        terms.add(t)
        if not isinstance(t, str):
            for x in t[1:]:
                sub(x)
    for a, b in eqs:
        sub(a); sub(b)
    for c in consts:
        sub(("f", c))
    par = {t: t for t in terms}
    def find(t):
        while par[t] != t:
            par[t] = par[par[t]]; t = par[t]
        return t
    for a, b in eqs:
        par[find(a)] = find(b)
    changed = True
    while changed:
        changed = False
        apps = [t for t in terms if not isinstance(t, str)]
        for i, s1 in enumerate(apps):
            for s2 in apps[i + 1:]:
                if s1[0] == s2[0] and len(s1) == len(s2) and find(s1) != find(s2) and all(find(x) == find(y) for x, y in zip(s1[1:], s2[1:])):
                    par[find(s1)] = find(s2); changed = True
    classes = {}
    for t in terms:
        classes.setdefault(find(t), []).append(t)
    big = [c for c in classes.values() if len(c) >= 2]
    alg = [0, 2, 3][idx % 3]
    opts = [":print-success true", ":produce-interpolants true", f":interpolation-euf-algorithm {alg}"]
    if rng.random() < 0.4:
        opts.append(f":random-seed {rng.randint(1, 1000)}")
    lines = [f"(set-option {o})" for o in opts] + [p.set_logic()] + p.decls
    active, nm = [], 0
    for a, b in eqs:
        nm += 1
        t = f"(= {txt(a)} {txt(b)})"
        lines.append(f"(assert (! {t} :named N{nm}))"); active.append((t, f"N{nm}"))
    if big:
        cl = rng.choice(big)
        a, b = rng.sample(cl, 2)
        nm += 1
        t = f"(not (= {txt(a)} {txt(b)}))" if rng.random() < 0.7 else f"(and (p {txt(a)}) (not (p {txt(b)})))"
        lines.append(f"(assert (! {t} :named N{nm}))"); active.append((t, f"N{nm}"))
    lines.append("(check-sat)")
    queries = []
    names = [n for _, n in active]
    for _ in range(2):
        if len(names) < max(2, kmin):
            break
        k = rng.randint(kmin, min(kmax, len(names)))
        pool = names[:]
        rng.shuffle(pool)
        cut = sorted(rng.sample(range(1, len(pool)), k - 1))
        groups = [pool[x:y] for x, y in zip([0] + cut, cut + [len(pool)])]
        lines.append("(get-interpolants " + " ".join(g[0] if len(g) == 1 else "(and " + " ".join(g) + ")" for g in groups) + ")")
        queries.append((len(lines) - 1, groups, active))
    return p, "\n".join(lines) + "\n", queries


def from_file(path):
    """a corpus script in the one-command-per-line format: queries and active assertions are read off the text"""
    script = open(path).read()
    lines = script.strip().split("\n")
    stack, queries, decls, logic_line = [[]], [], [], None
    for i, l in enumerate(lines):
        if l.startswith("(set-logic"):
            logic_line = l
        elif l.startswith("(declare-"):
            decls.append(l)
        elif l.startswith("(push"):
            stack.append([])
        elif l.startswith("(pop") and len(stack) > 1:
            stack.pop()
        elif l.endswith("; rejected"):
            continue
        elif l.startswith("(assert (! "):
            body, name = l[len("(assert (! "):-2].rsplit(" :named ", 1)
            stack[-1].append((body, name))
        elif l.startswith("(assert "):
            stack[-1].append((l[len("(assert "):-1], None))
        elif l.startswith("(get-interpolants"):
            sx = smtlib.parse_sexps(l)[0][1:]
            groups = [[smtlib.sym(g)] if not isinstance(g, list) else [smtlib.sym(x) for x in g[1:]] for g in sx]
            queries.append((i, groups, [x for fr in stack for x in fr]))

    class P:
        pass
    p = P(); p.decls = decls; p.logic = "corpus"; p.set_logic = lambda: logic_line
    return p, script, queries


def symbols(text, declared):
    return {tok for tok in re.findall(r"[^\s()]+", text) if tok in declared}


def decide(decls, logic_line, texts, binary, stats):
    v = certify.verdict(decls, texts, logic_line, binary)
    stats[v] = stats.get(v, 0) + 1
    return v


def run_case(args):
    idx, seed, binary, kmin, kmax = args
    if isinstance(idx, tuple):
        p, script, queries = (make_euf_script if idx[0] == "euf" else make_prop_script)(idx[1], seed, kmin, kmax)
    else:
        p, script, queries = from_file(idx) if isinstance(idx, str) else make_script(idx, seed, kmin, kmax)
    out, err, rc = runner.run_opensmt(binary, script, None, timeout=30)
    res = {"idx": idx, "script": script, "problems": [], "itps": 0, "queries": 0, "logic": p.logic, "stats": {}, "rejected": 0}
    if rc == "timeout":
        res["timeout"] = True
        return res
    if rc not in (0, 1):
        res["problems"].append({"what": f"opensmt terminated abnormally (status {rc}): {err.strip()[-160:]}", "stderr": err[-300:],
                                "match": "no-color-after-pop" if "No color detected for term" in err and "(pop" in script else None})
        return res
    try:
        outs = smtlib.parse_sexps(out)
    except smtlib.ParseError as e:
        res["problems"].append({"what": f"unparsable output: {e}", "stdout": out[-300:]}); return res
    lines = script.strip().split("\n")
    if len(outs) != len(lines):
        res["problems"].append({"what": f"{len(lines)} commands, {len(outs)} responses: {out.strip().splitlines()[-1][:160] if out.strip() else ''}",
                                "stdout": out[-300:],
                                "match": "no-color-after-pop" if "No color detected for term" in out and "(pop" in script else
                                         ("euf-itp-missing-node" if "internal error: map::at" in out and "QF_UF" in script else None)})
        return res
    declared = {d.split()[1] for d in p.decls if d.startswith("(declare-fun") or d.startswith("(declare-const")}
    logic_line = p.set_logic()
    raw = out                      # interpolant texts are taken from the parsed s-expressions, re-printed
    for (li, groups, active) in queries:
        # the answer of the check-sat before this query
        j = li
        while lines[j] != "(check-sat)":
            j -= 1
        if smtlib.sym(outs[j]) != "unsat":
            continue
        res["queries"] += 1
        ans = outs[li]
        if not isinstance(ans, list) or (ans and smtlib.sym(ans[0]) == "error"):
            res["rejected"] += 1
            res["problems"].append({"what": f"request `{lines[li]}` after unsat, over names of current assertions, is rejected: "
                                            f"{smtlib.unparse(ans)}", "kind": "rejected",
                                    "match": "euf-itp-missing-node" if "internal error: map::at" in smtlib.unparse(ans) and "QF_UF" in script else None})
            continue
        if len(ans) != len(groups) - 1:
            res["problems"].append({"what": f"`{lines[li]}`: {len(groups)} groups but {len(ans)} interpolants"})
            continue
        itps = [smtlib.unparse(x) for x in ans]
        text_of = {n: t for t, n in active if n}
        prevA = set()
        for m, I in enumerate(itps):
            A = set().union(*[set(g) for g in groups[:m + 1]])
            Atx = [text_of[n] for n in sorted(A)]
            Btx = [t for t, n in active if n not in A]
            res["itps"] += 1
            what = None
            v1 = decide(p.decls, logic_line, Atx + [f"(not {I})"], binary, res["stats"])
            if v1.startswith("sat"):
                what = f"A does not imply the interpolant ({v1})"
            v2 = decide(p.decls, logic_line, [I] + Btx, binary, res["stats"])
            if what is None and v2.startswith("sat"):
                what = f"the interpolant is satisfiable together with B ({v2})"
            if what is None:
                extra = symbols(I, declared) - (symbols(" ".join(Atx), declared) & symbols(" ".join(Btx), declared))
                if extra:
                    what = f"the interpolant mentions {sorted(extra)}, not shared between A and B"
            if what is None and m > 0:
                G = [text_of[n] for n in groups[m]]
                v3 = decide(p.decls, logic_line, [itps[m - 1]] + G + [f"(not {I})"], binary, res["stats"])
                if v3.startswith("sat"):
                    what = f"path property fails: I_{m} and group {m + 1} do not imply I_{m + 1} ({v3})"
                    res.setdefault("path_failures", 0); res["path_failures"] += 1
            if what:
                res["problems"].append({"what": f"`{lines[li]}` interpolant #{m + 1} `{I}`: {what}", "A": Atx, "B": Btx,
                                        "kind": "path" if what.startswith("path") else "craig"})
                break
    return res


# ---------------------------------------------------------------------------------------------------------------------
# Mirror of the labelled interpolation systems on propositional instances: the interpolant the Lean model computes from the
# printed proof, the partition of its leaves and the labelling system must be logically equal to the printed interpolant.

def lis_case(args):
    import itertools, c10
    idx, seed, binary = args
    rng = random.Random(f"c08-lis-{seed}-{idx}")
    alg = idx % 3
    nv = rng.randint(3, 5)
    vs = [f"v{i}" for i in range(nv)]
    seen, asserts = set(), []
    for _ in range(rng.randint(3, 6)):
        cls = []
        for _ in range(rng.randint(1, 3)):
            for _try in range(20):
                lits = tuple(sorted((v, rng.random() < 0.5) for v in rng.sample(vs, rng.randint(1, 3))))
                if lits not in seen:
                    seen.add(lits); cls.append(lits); break
        if cls:
            asserts.append(cls)
    def ctext(c):
        ls = [f"(not {v})" if n else v for v, n in c]
        return ls[0] if len(ls) == 1 else "(or " + " ".join(ls) + ")"
    def atext(cls):
        return ctext(cls[0]) if len(cls) == 1 else "(and " + " ".join(ctext(c) for c in cls) + ")"
    names = [f"N{i}" for i in range(len(asserts))]
    cut = rng.randint(1, len(names) - 1)
    perm = names[:]
    rng.shuffle(perm)
    ga, gb = perm[:cut], perm[cut:]
    grp = lambda g: g[0] if len(g) == 1 else "(and " + " ".join(g) + ")"
    lines = ["(set-option :print-success true)", "(set-option :produce-interpolants true)", "(set-option :produce-proofs true)",
             f"(set-option :interpolation-bool-algorithm {alg})", "(set-logic QF_UF)"] + [f"(declare-fun {v} () Bool)" for v in vs] + \
            [f"(assert (! {atext(c)} :named {n}))" for c, n in zip(asserts, names)] + ["(check-sat)", "(get-proof)", f"(get-interpolants {grp(ga)} {grp(gb)})"]
    script = "\n".join(lines) + "\n"
    res = {"idx": idx, "script": script, "problems": [], "compared": 0, "alg": alg}
    tp = common.WORK / f"c08-lis-{os.getpid()}.trace"
    tp.unlink(missing_ok=True)
    out, err, rc = runner.run_opensmt(binary, script, tp, timeout=20)
    if rc not in (0, 1) or not tp.exists():
        tp.unlink(missing_ok=True)
        return res
    try:
        outs = smtlib.parse_sexps(out)
    except smtlib.ParseError:
        tp.unlink(missing_ok=True)
        return res
    if len(outs) != len(lines) or smtlib.sym(outs[-3]) != "unsat" or modelcheck_is_error(outs[-1]) or modelcheck_is_error(outs[-2]):
        tp.unlink(missing_ok=True)
        return res
    # assertions are handed to the engine one by one and the rest is skipped once the clause set is refuted: only the
    # assertions handed over take part in the classification of the variables
    import trace as _trace
    tr = _trace.Trace(tp)
    tp.unlink(missing_ok=True)
    given = []
    for sid in tr.order:
        for e in tr.solvers[sid].events:
            if e[1] == "I" and e[2] not in given:
                given.append(e[2])
    ngiven = len([g for g in given]) - (1 if given else 0)       # the first root is the constant true of the base frame
    ngiven = max(0, min(ngiven, len(asserts)))
    sc = smtlib.Script(script)
    try:
        steps, root, _ = c10.parse_proof(sc.table, outs[-2])
    except Exception as e:
        res["problems"].append({"what": f"printed proof unreadable: {e!r}"}); return res
    vid = {v: i + 1 for i, v in enumerate(vs)}
    name_of = {}
    for v in vs:
        name_of[sc.table.term(("sym", v))] = v
    side = {}
    for c, n in zip(asserts, names):
        for cl in c:
            side[frozenset((vid[v], ng) for v, ng in cl)] = "A" if n in ga else "B"
    # the class of a variable comes from the assertions of the two sides (as opensmt's partition masks do)
    inA = sorted({vid[v] for c, n in list(zip(asserts, names))[:ngiven] if n in ga for cl in c for v, _ in cl})
    inB = sorted({vid[v] for c, n in list(zip(asserts, names))[:ngiven] if n in gb for cl in c for v, _ in cl})
    inp = [f"ALG {alg}", "INA " + " ".join(map(str, inA)), "INB " + " ".join(map(str, inB))]
    clauses = []                                    # per node: set of (var, neg)
    node_of_step = {}
    def add(line, cl):
        inp.append(line); clauses.append(cl); return len(clauses) - 1
    for k, st in enumerate(steps):
        if st[0] == "leaf":
            try:
                cl = frozenset((vid[name_of[t]], ng) for t, ng in st[1])
            except KeyError:
                return res                            # a literal that is not an input variable (constants): outside this mirror
            if cl not in side:
                return res
            node_of_step[k] = add(f"LEAF {side[cl]} " + " ".join(str(-v if ng else v) for v, ng in sorted(cl)), cl)
        else:
            cur = node_of_step[st[1]]
            for (j, piv) in st[2]:
                other = node_of_step[j]
                try:
                    p = vid[name_of[piv]]
                except KeyError:
                    return res
                pos, neg = (cur, other) if (p, False) in clauses[cur] else (other, cur)
                newc = frozenset(l for l in clauses[pos] | clauses[neg] if l[0] != p)
                cur = add(f"RES {pos} {neg} {p}", newc)
            node_of_step[k] = cur
    inp.append(f"ROOT {node_of_step[root]}")
    fp = common.WORK / f"c08-lis-{os.getpid()}.in"
    fp.write_text("\n".join(inp) + "\n")
    mo = common.sh([str(common.model_exe()), "itp", str(fp)]).stdout.strip().split("\n")
    fp.unlink(missing_ok=True)
    if not mo or not mo[-1].startswith("OK "):
        res["problems"].append({"what": f"the labelled-interpolation mirror cannot process the printed proof: {mo[-1] if mo else ''}", "input": inp})
        return res
    formula = smtlib.parse_sexps(mo[-1][3:])[0]
    def ev_model(f, asg):
        if isinstance(f, list):
            op = smtlib.sym(f[0])
            a, b = ev_model(f[1], asg), ev_model(f[2], asg)
            return (a and b) if op == "and" else (a or b)
        t = smtlib.sym(f)
        if t == "tt": return True
        if t == "ff": return False
        return (not asg[int(t[1:])]) if t.startswith("-") else asg[int(t)]
    def ev_smt(x, asg):
        if isinstance(x, list):
            op = smtlib.sym(x[0]); args = [ev_smt(y, asg) for y in x[1:]]
            if op == "and": return all(args)
            if op == "or": return any(args)
            if op == "not": return not args[0]
            if op == "=>": return (not args[0]) or args[1]
            if op == "=": return args[0] == args[1]
            if op == "xor": return args[0] != args[1]
            if op == "ite": return args[1] if args[0] else args[2]
            raise ValueError(op)
        t = smtlib.sym(x)
        if t == "true": return True
        if t == "false": return False
        return asg[vid[t]]
    printed = outs[-1][0]
    try:
        for bits in itertools.product([False, True], repeat=nv):
            asg = {i + 1: b for i, b in enumerate(bits)}
            if ev_model(formula, asg) != ev_smt(printed, asg):
                res["problems"].append({"what": f"algorithm {alg}: the printed interpolant {smtlib.unparse(printed)} differs from the interpolant of the "
                                                f"labelled-interpolation model for the printed proof, {mo[-1][3:][:200]}, at {asg}", "mirror_input": inp})
                break
        res["compared"] = 1
    except (ValueError, KeyError) as e:
        res["problems"].append({"what": f"printed interpolant outside the propositional fragment: {e!r}"})
    return res


def _ev_model(f, asg):
    if isinstance(f, list):
        op = smtlib.sym(f[0])
        a, b = _ev_model(f[1], asg), _ev_model(f[2], asg)
        return (a and b) if op == "and" else (a or b)
    t = smtlib.sym(f)
    if t == "tt": return True
    if t == "ff": return False
    return (not asg[int(t[1:])]) if t.startswith("-") else asg[int(t)]


def _ev_smt(x, asg, vid):
    if isinstance(x, list):
        op = smtlib.sym(x[0]); args = [_ev_smt(y, asg, vid) for y in x[1:]]
        if op == "and": return all(args)
        if op == "or": return any(args)
        if op == "not": return not args[0]
        if op == "=>": return (not args[0]) or args[1]
        if op == "=": return args[0] == args[1]
        if op == "xor": return args[0] != args[1]
        if op == "ite": return args[1] if args[0] else args[2]
        raise ValueError(op)
    t = smtlib.sym(x)
    if t == "true": return True
    if t == "false": return False
    return asg[vid[t]]


def path_case(args):
    """C09 mirror: a propositional sequence request over k >= 3 groups; for every middle group the printed proof is labelled for
    the two cuts around it, the Lean model checks that the labels fit (`labelsOK`, hypothesis of `C09_labelled_path_step`) and
    computes both interpolants, which must equal the two printed ones."""
    import itertools, c10
    idx, seed, binary = args
    rng = random.Random(f"c09-path-{seed}-{idx}")
    alg = idx % 3
    nv = rng.randint(3, 6)
    vs = [f"v{i}" for i in range(nv)]
    seen, asserts = set(), []
    for _ in range(rng.randint(3, 7)):
        cls = []
        for _ in range(rng.randint(1, 3)):
            for _try in range(20):
                lits = tuple(sorted((v, rng.random() < 0.5) for v in rng.sample(vs, rng.randint(1, 3))))
                if lits not in seen:
                    seen.add(lits); cls.append(lits); break
        if cls:
            asserts.append(cls)
    def ctext(c):
        ls = [f"(not {v})" if n else v for v, n in c]
        return ls[0] if len(ls) == 1 else "(or " + " ".join(ls) + ")"
    def atext(cls):
        return ctext(cls[0]) if len(cls) == 1 else "(and " + " ".join(ctext(c) for c in cls) + ")"
    names = [f"N{i}" for i in range(len(asserts))]
    k = rng.randint(3, min(4, len(names)))
    perm = names[:]
    rng.shuffle(perm)
    cuts = sorted(rng.sample(range(1, len(names)), k - 1))
    groups = [perm[a:b] for a, b in zip([0] + cuts, cuts + [len(names)])]
    gof = {n: gi for gi, g in enumerate(groups) for n in g}
    grp = lambda g: g[0] if len(g) == 1 else "(and " + " ".join(g) + ")"
    lines = ["(set-option :print-success true)", "(set-option :produce-interpolants true)", "(set-option :produce-proofs true)",
             f"(set-option :interpolation-bool-algorithm {alg})", "(set-logic QF_UF)"] + [f"(declare-fun {v} () Bool)" for v in vs] + \
            [f"(assert (! {atext(c)} :named {n}))" for c, n in zip(asserts, names)] + \
            ["(check-sat)", "(get-proof)", "(get-interpolants " + " ".join(grp(g) for g in groups) + ")"]
    script = "\n".join(lines) + "\n"
    res = {"idx": idx, "script": script, "problems": [], "compared": 0, "alg": alg, "k": k}
    tp = common.WORK / f"c09-path-{os.getpid()}.trace"
    tp.unlink(missing_ok=True)
    out, err, rc = runner.run_opensmt(binary, script, tp, timeout=20)
    if rc not in (0, 1) or not tp.exists():
        tp.unlink(missing_ok=True)
        return res
    try:
        outs = smtlib.parse_sexps(out)
    except smtlib.ParseError:
        tp.unlink(missing_ok=True)
        return res
    if len(outs) != len(lines) or smtlib.sym(outs[-3]) != "unsat" or modelcheck_is_error(outs[-1]) or modelcheck_is_error(outs[-2]):
        tp.unlink(missing_ok=True)
        return res
    import trace as _trace
    tr = _trace.Trace(tp)
    tp.unlink(missing_ok=True)
    given = []
    for sid in tr.order:
        for e in tr.solvers[sid].events:
            if e[1] == "I" and e[2] not in given:
                given.append(e[2])
    ngiven = max(0, min(len(given) - (1 if given else 0), len(asserts)))
    sc = smtlib.Script(script)
    try:
        steps, root, _ = c10.parse_proof(sc.table, outs[-2])
    except Exception as e:
        res["problems"].append({"what": f"printed proof unreadable: {e!r}"}); return res
    printed = outs[-1]
    if not isinstance(printed, list) or len(printed) != k - 1:
        res["problems"].append({"what": f"{k} groups but {len(printed) if isinstance(printed, list) else 0} interpolants printed"}); return res
    vid = {v: i + 1 for i, v in enumerate(vs)}
    name_of = {sc.table.term(("sym", v)): v for v in vs}
    group_of_clause = {}
    for c, n in zip(asserts, names):
        for cl in c:
            group_of_clause[frozenset((vid[v], ng) for v, ng in cl)] = gof[n]
    head = [f"ALG {alg}"]
    for gi in range(k):
        gv = sorted({vid[v] for c, n in list(zip(asserts, names))[:ngiven] if gof[n] == gi for cl in c for v, _ in cl})
        head.append(f"GRP {gi} " + " ".join(map(str, gv)))
    body, clauses, node_of_step = [], [], {}
    def add(line, cl):
        body.append(line); clauses.append(cl); return len(clauses) - 1
    for kk, st in enumerate(steps):
        if st[0] == "leaf":
            try:
                cl = frozenset((vid[name_of[t]], ng) for t, ng in st[1])
            except KeyError:
                return res
            if cl not in group_of_clause:
                return res
            node_of_step[kk] = add(f"LEAF {group_of_clause[cl]} " + " ".join(str(-v if ng else v) for v, ng in sorted(cl)), cl)
        else:
            cur = node_of_step[st[1]]
            for (j, piv) in st[2]:
                other = node_of_step[j]
                try:
                    p = vid[name_of[piv]]
                except KeyError:
                    return res
                pos, neg = (cur, other) if (p, False) in clauses[cur] else (other, cur)
                newc = frozenset(l for l in clauses[pos] | clauses[neg] if l[0] != p)
                cur = add(f"RES {pos} {neg} {p}", newc)
            node_of_step[kk] = cur
    body.append(f"ROOT {node_of_step[root]}")
    for mid in range(1, k - 1):
        inp = head + [f"MID {mid}"] + body
        fp = common.WORK / f"c09-path-{os.getpid()}.in"
        fp.write_text("\n".join(inp) + "\n")
        mo = common.sh([str(common.model_exe()), "itp2", str(fp)]).stdout.strip().split("\n")
        fp.unlink(missing_ok=True)
        if not mo or not mo[-1].startswith("OK "):
            res["problems"].append({"what": f"the two-cut interpolation mirror cannot process the printed proof (middle group {mid}): "
                                            f"{mo[-1] if mo else ''}", "mirror_input": inp})
            return res
        f1s, f2s = mo[-1][3:].split(" | ")
        try:
            for which, fs, pr in ((mid - 1, f1s, printed[mid - 1]), (mid, f2s, printed[mid])):
                formula = smtlib.parse_sexps(fs)[0]
                for bits in itertools.product([False, True], repeat=nv):
                    asg = {i + 1: b for i, b in enumerate(bits)}
                    if _ev_model(formula, asg) != _ev_smt(pr, asg, vid):
                        res["problems"].append({"what": f"algorithm {alg}: printed interpolant {which + 1} of {k - 1}, {smtlib.unparse(pr)}, differs from "
                                                        f"the interpolant of the two-cut labelled model for the printed proof, {fs[:200]}, at {asg}",
                                                "mirror_input": inp})
                        return res
            res["compared"] += 2
        except (ValueError, KeyError) as e:
            res["problems"].append({"what": f"printed interpolant outside the propositional fragment: {e!r}"})
            return res
    return res


def modelcheck_is_error(sx):
    return isinstance(sx, list) and sx and smtlib.sym(sx[0]) == "error"


def run(tier, pid="C08"):
    chk = common.Check(pid, tier)
    chk.lean_obligations(THEOREMS8 if pid == "C08" else THEOREMS9)
    binary = common.opensmt_bin("hooks")
    n = (130 if tier == "quick" else 2500)
    kmin, kmax = (2, 2) if pid == "C08" else (3, 5)
    with mp.Pool(min(common.JOBS, 14)) as pool:
        corpus = sorted(str(f) for f in (common.VERIF / "corpus" / pid).glob("*.smt2"))
        nprop = 48 if tier == "quick" else 1200
        results = pool.map(run_case, [(i, chk.seed, binary, kmin, kmax) for i in corpus + list(range(n)) + [("prop", j) for j in range(nprop)] + [("euf", j) for j in range(nprop)]],
                           chunksize=2)
    stats, itps, queries = {}, 0, 0
    for r in results:
        itps += r["itps"]; queries += r["queries"]
        for k, v in r["stats"].items():
            stats[k] = stats.get(k, 0) + v
        chk.case(key=(r["idx"], r["itps"]), nontrivial=r["itps"] > 0,
                 sample={"logic": r["logic"], "queries": r["queries"], "interpolants": r["itps"]} if r["itps"] else None)
        if pid == "C09":                  # rejection of a legal request is C08's statement, not the path property's
            r["problems"] = [pr for pr in r["problems"] if pr.get("kind") != "rejected"]
        chk.obligation(not r["problems"])
        if r["itps"]:
            chk.cov["traces_validated_against_impl"] += 1
        for pr in r["problems"][:1]:
            key = pr.get("match")
            if pid == "C09" and pr.get("kind") == "path" and ":interpolation-lra-algorithm 3" in r["script"]:
                key = "lra-factor-path"
            chk.violation("interpolant", f"{pr['what']} ({r['logic']})", {"script": r["script"], "problem": pr}, match_key=key)
    if pid == "C08":
        with mp.Pool(min(common.JOBS, 14)) as pool:
            lres = pool.map(lis_case, [(i, chk.seed, binary) for i in range(150 if tier == "quick" else 4000)], chunksize=4)
        ncmp = sum(r["compared"] for r in lres)
        chk.notes["lis_mirror_interpolants_compared"] = ncmp
        for r in lres:
            chk.case(key=("lis", r["idx"], r["compared"]), nontrivial=r["compared"] > 0,
                     sample={"mirror": "labelled interpolation system", "algorithm": r["alg"]} if r["compared"] and r["idx"] < 3 else None)
            chk.obligation(not r["problems"])
            for pr in r["problems"][:1]:
                chk.violation("lis-mirror", pr["what"], {"script": r["script"], "problem": pr})
    else:
        with mp.Pool(min(common.JOBS, 14)) as pool:
            lres = pool.map(path_case, [(i, chk.seed, binary) for i in range(150 if tier == "quick" else 4000)], chunksize=4)
        chk.notes["path_mirror_interpolants_compared"] = sum(r["compared"] for r in lres)
        for r in lres:
            chk.case(key=("path", r["idx"], r["compared"]), nontrivial=r["compared"] > 0,
                     sample={"mirror": "two-cut labelled interpolation", "algorithm": r["alg"], "groups": r["k"]}
                     if r["compared"] and r["idx"] < 3 else None)
            chk.obligation(not r["problems"])
            for pr in r["problems"][:1]:
                chk.violation("path-mirror", pr["what"], {"script": r["script"], "problem": pr})
    chk.assumptions = ["an interpolant counts as verified only when both refutations are certified by the Lean machine "
                       "(`unsat-certified`); uncertified verdicts are counted and reported, `sat` verdicts are violations only "
                       "when the model is validated by the Lean evaluator or opensmt itself answers sat"]
    return chk.finish(rule="one case = one incremental script with named assertions; after every unsat check, 1-2 interpolation "
                           "requests over random groupings of the current names; non-trivial = at least one interpolant re-decided",
                      extra={"interpolation_requests": queries, "interpolants_checked": itps, "verdicts": stats})
