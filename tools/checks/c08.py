"""C08 / C09: every printed interpolant is re-decided with certified verdicts: A ∧ ¬I unsat, I ∧ B unsat (the unsat
verdicts are certified by the Lean machine accepting the trace of a fresh run; a `sat` verdict comes with a model validated
by the Lean evaluator), symbols of I occur in both A and B; for k ≥ 3 groups additionally I_j ∧ G_{j+1} ∧ ¬I_{j+1} unsat."""
import multiprocessing as mp, os, random, re
import common, gen, runner, smtlib, certify, extsolve

THEOREMS8 = ["Osmt.Properties.C08_labelled_interpolation_sound", "Osmt.Properties.C08_labelled_interpolation_symbols",
             "Osmt.Properties.C08_farkas_interpolant", "Osmt.Properties.C08_farkas_interpolant_B",
             "Osmt.Properties.C08_farkas_dual_interpolant", "Osmt.Properties.C08_certified_split", "Osmt.Smt.unsat_sound"]
THEOREMS9 = ["Osmt.Properties.C09_path_from_splits", "Osmt.Properties.C08_certified_split", "Osmt.Smt.unsat_sound"]
LOGICS = ["QF_UF", "QF_LRA", "QF_LIA", "QF_LRA", "QF_UF", "QF_LIA"]


def option_vector(rng, idx):
    o = [":print-success true", ":produce-interpolants true"]
    if idx % 3:
        o.append(f":interpolation-bool-algorithm {rng.choice([0, 1, 2, 3, 4, 5])}")
        o.append(f":interpolation-euf-algorithm {rng.choice([0, 2, 3])}")
        o.append(f":interpolation-lra-algorithm {rng.choice([0, 2, 3, 4, 5])}")
    if rng.random() < 0.3:
        o.append(f":interpolation-lra-factor \"{rng.choice(['1/2', '0', '1/3', '9/10', '1/1000'])}\"")
    if rng.random() < 0.3:
        o.append(f":proof-reduce {rng.choice([0, 1])}")
    if rng.random() < 0.4:
        o.append(f":simplify-interpolants {rng.choice([0, 1, 2, 3, 4])}")
    return o


def make_script(idx, seed, kmin, kmax):
    rng = random.Random(f"c08-{seed}-{idx}-{kmin}")
    logic = LOGICS[idx % len(LOGICS)]
    p = gen.Problem(logic, rng)
    lines = [f"(set-option {o})" for o in option_vector(rng, idx)] + [p.set_logic()] + p.decls
    nm = 0
    stack = [[]]
    queries = []                               # (line index of get-interpolants, groups [[names]], active [(text,name)])

    def check():
        lines.append("(check-sat)")
        active = [x for fr in stack for x in fr]
        names = [n for t, n in active if n]
        if len(names) < max(2, kmin):
            return
        for _ in range(rng.randint(1, 2)):
            k = rng.randint(kmin, min(kmax, len(names)))
            pool = names[:]
            rng.shuffle(pool)
            cut = sorted(rng.sample(range(1, len(pool)), k - 1)) if len(pool) > k - 1 and k > 1 else []
            groups = [pool[a:b] for a, b in zip([0] + cut, cut + [len(pool)])]
            if rng.random() < 0.3 and len(groups[-1]) > 1:
                groups[-1] = groups[-1][:1]        # the last group need not list everything that is left
            if rng.random() < 0.25 and len(groups[0]) > 1:
                groups[0] = groups[0][:-1]         # ... nor do the groups have to cover all names
            txt = " ".join(g[0] if len(g) == 1 else "(and " + " ".join(g) + ")" for g in groups)
            lines.append(f"(get-interpolants {txt})")
            queries.append((len(lines) - 1, groups, active))

    for _ in range(rng.randint(7, 16)):
        c = rng.random()
        if c < 0.10:
            lines.append("(push 1)"); stack.append([])
        elif c < 0.18 and len(stack) > 1:
            lines.append("(pop 1)"); stack.pop()
        elif c < 0.82:
            t = gen.smt(p.fla(rng.randint(0, 2)))
            if rng.random() < 0.8:
                nm += 1
                lines.append(f"(assert (! {t} :named N{nm}))"); stack[-1].append((t, f"N{nm}"))
            else:
                lines.append(f"(assert {t})"); stack[-1].append((t, None))
        else:
            check()
    check()
    return p, "\n".join(lines) + "\n", queries


def from_file(path):
    """a corpus script in the one-command-per-line format: queries and active assertions are read off the text"""
    script = open(path).read()
    lines = script.strip().split("\n")
    stack, queries, decls, logic_line = [[]], [], [], None
    for i, l in enumerate(lines):
        if l.startswith("(set-logic"):
            logic_line = l
        elif l.startswith("(declare-"):
            decls.append(l)
        elif l.startswith("(push"):
            stack.append([])
        elif l.startswith("(pop") and len(stack) > 1:
            stack.pop()
        elif l.endswith("; rejected"):
            continue
        elif l.startswith("(assert (! "):
            body, name = l[len("(assert (! "):-2].rsplit(" :named ", 1)
            stack[-1].append((body, name))
        elif l.startswith("(assert "):
            stack[-1].append((l[len("(assert "):-1], None))
        elif l.startswith("(get-interpolants"):
            sx = smtlib.parse_sexps(l)[0][1:]
            groups = [[smtlib.sym(g)] if not isinstance(g, list) else [smtlib.sym(x) for x in g[1:]] for g in sx]
            queries.append((i, groups, [x for fr in stack for x in fr]))

    class P:
        pass
    p = P(); p.decls = decls; p.logic = "corpus"; p.set_logic = lambda: logic_line
    return p, script, queries


def symbols(text, declared):
    return {tok for tok in re.findall(r"[^\s()]+", text) if tok in declared}


def decide(decls, logic_line, texts, binary, stats):
    v = certify.verdict(decls, texts, logic_line, binary)
    stats[v] = stats.get(v, 0) + 1
    return v


def run_case(args):
    idx, seed, binary, kmin, kmax = args
    p, script, queries = from_file(idx) if isinstance(idx, str) else make_script(idx, seed, kmin, kmax)
    out, err, rc = runner.run_opensmt(binary, script, None, timeout=30)
    res = {"idx": idx, "script": script, "problems": [], "itps": 0, "queries": 0, "logic": p.logic, "stats": {}, "rejected": 0}
    if rc not in (0, 1):
        res["problems"].append({"what": f"opensmt terminated abnormally (status {rc}): {err.strip()[-160:]}", "stderr": err[-300:],
                                "match": "no-color-after-pop" if "No color detected for term" in err and "(pop" in script else None})
        return res
    try:
        outs = smtlib.parse_sexps(out)
    except smtlib.ParseError as e:
        res["problems"].append({"what": f"unparsable output: {e}", "stdout": out[-300:]}); return res
    lines = script.strip().split("\n")
    if len(outs) != len(lines):
        res["problems"].append({"what": f"{len(lines)} commands, {len(outs)} responses: {out.strip().splitlines()[-1][:160] if out.strip() else ''}",
                                "stdout": out[-300:],
                                "match": "no-color-after-pop" if "No color detected for term" in out and "(pop" in script else None})
        return res
    declared = {d.split()[1] for d in p.decls if d.startswith("(declare-fun") or d.startswith("(declare-const")}
    logic_line = p.set_logic()
    raw = out                      # interpolant texts are taken from the parsed s-expressions, re-printed
    for (li, groups, active) in queries:
        # the answer of the check-sat before this query
        j = li
        while lines[j] != "(check-sat)":
            j -= 1
        if smtlib.sym(outs[j]) != "unsat":
            continue
        res["queries"] += 1
        ans = outs[li]
        if not isinstance(ans, list) or (ans and smtlib.sym(ans[0]) == "error"):
            res["rejected"] += 1
            res["problems"].append({"what": f"request `{lines[li]}` after unsat, over names of current assertions, is rejected: "
                                            f"{smtlib.unparse(ans)}", "kind": "rejected"})
            continue
        if len(ans) != len(groups) - 1:
            res["problems"].append({"what": f"`{lines[li]}`: {len(groups)} groups but {len(ans)} interpolants"})
            continue
        itps = [smtlib.unparse(x) for x in ans]
        text_of = {n: t for t, n in active if n}
        prevA = set()
        for m, I in enumerate(itps):
            A = set().union(*[set(g) for g in groups[:m + 1]])
            Atx = [text_of[n] for n in sorted(A)]
            Btx = [t for t, n in active if n not in A]
            res["itps"] += 1
            what = None
            v1 = decide(p.decls, logic_line, Atx + [f"(not {I})"], binary, res["stats"])
            if v1.startswith("sat"):
                what = f"A does not imply the interpolant ({v1})"
            v2 = decide(p.decls, logic_line, [I] + Btx, binary, res["stats"])
            if what is None and v2.startswith("sat"):
                what = f"the interpolant is satisfiable together with B ({v2})"
            if what is None:
                extra = symbols(I, declared) - (symbols(" ".join(Atx), declared) & symbols(" ".join(Btx), declared))
                if extra:
                    what = f"the interpolant mentions {sorted(extra)}, not shared between A and B"
            if what is None and m > 0:
                G = [text_of[n] for n in groups[m]]
                v3 = decide(p.decls, logic_line, [itps[m - 1]] + G + [f"(not {I})"], binary, res["stats"])
                if v3.startswith("sat"):
                    what = f"path property fails: I_{m} and group {m + 1} do not imply I_{m + 1} ({v3})"
                    res.setdefault("path_failures", 0); res["path_failures"] += 1
            if what:
                res["problems"].append({"what": f"`{lines[li]}` interpolant #{m + 1} `{I}`: {what}", "A": Atx, "B": Btx,
                                        "kind": "path" if what.startswith("path") else "craig"})
                break
    return res


def run(tier, pid="C08"):
    chk = common.Check(pid, tier)
    chk.lean_obligations(THEOREMS8 if pid == "C08" else THEOREMS9)
    binary = common.opensmt_bin("hooks")
    n = (130 if tier == "quick" else 2500)
    kmin, kmax = (2, 2) if pid == "C08" else (3, 5)
    with mp.Pool(min(common.JOBS, 14)) as pool:
        corpus = sorted(str(f) for f in (common.VERIF / "corpus" / pid).glob("*.smt2"))
        results = pool.map(run_case, [(i, chk.seed, binary, kmin, kmax) for i in corpus + list(range(n))], chunksize=2)
    stats, itps, queries = {}, 0, 0
    for r in results:
        itps += r["itps"]; queries += r["queries"]
        for k, v in r["stats"].items():
            stats[k] = stats.get(k, 0) + v
        chk.case(key=(r["idx"], r["itps"]), nontrivial=r["itps"] > 0,
                 sample={"logic": r["logic"], "queries": r["queries"], "interpolants": r["itps"]} if r["itps"] else None)
        chk.obligation(not r["problems"])
        if r["itps"]:
            chk.cov["traces_validated_against_impl"] += 1
        for pr in r["problems"][:1]:
            if pid == "C09" and pr.get("kind") == "rejected":
                continue                  # rejection of a legal request is C08's statement
            chk.violation("interpolant", f"{pr['what']} ({r['logic']})", {"script": r["script"], "problem": pr},
                          match_key=pr.get("match"))
    chk.assumptions = ["an interpolant counts as verified only when both refutations are certified by the Lean machine "
                       "(`unsat-certified`); uncertified verdicts are counted and reported, `sat` verdicts are violations only "
                       "when the model is validated by the Lean evaluator or opensmt itself answers sat"]
    return chk.finish(rule="one case = one incremental script with named assertions; after every unsat check, 1-2 interpolation "
                           "requests over random groupings of the current names; non-trivial = at least one interpolant re-decided",
                      extra={"interpolation_requests": queries, "interpolants_checked": itps, "verdicts": stats})
