import c06


def run(tier):
    return c06.run(tier, pid="C07")
