"""C02: sat answers are certified: (a) the engine's Boolean model makes every root true from atom values (Lean
machine), (b) a printed model is validated by the Lean evaluator on every current assertion."""
import multiprocessing as mp, random
import common, engine, gen, runner, modelcheck, extsolve
import c03

THEOREMS = ["Osmt.Properties.C02_sat_roots", "Osmt.Properties.C02_validated_model", "Osmt.Properties.C02_not_unsat",
            "Osmt.Smt.sat_sound", "Osmt.eval3_sound", "Osmt.Cdcl.step_sat_sound"]
LOGICS = ["QF_UF", "QF_LRA", "QF_LIA", "QF_RDL", "QF_IDL", "QF_UFLRA", "QF_UFLIA", "QF_LIA", "QF_IDL"]


def corpus_case(args):
    path, binary = args
    txt = open(path).read()
    out, err, rc = runner.run_opensmt(binary, txt, None, timeout=20)
    expect = [l.split("expect:")[1].split() for l in txt.split("\n") if l.startswith("; expect:")]
    return {"path": str(path), "answers": runner.answers(out), "expect": expect[0] if expect else None}


def _dl_case(args):
    import certify
    i, seed, binary = args
    rng = random.Random(f"c02-dl-{seed}-{i}")
    logic = ["QF_IDL", "QF_RDL", "QF_IDL", "QF_UFIDL"][i % 4]
    f = [gen.dl_chain, gen.dl_chain, gen.dl_paths][i % 3]
    p, asserts, script = f(logic, rng)
    out, err, rc = runner.run_opensmt(binary, script, None, timeout=10)
    ans = runner.answers(out)
    res = {"idx": i, "logic": logic, "shape": f.__name__, "script": script, "answer": ans[0] if ans and rc != "timeout" else "none", "verdict": None,
           "embedding": {"QF_IDL": "QF_LIA", "QF_RDL": "QF_LRA", "QF_UFIDL": "QF_UFLIA"}[logic]}
    if res["answer"] == "sat":
        res["verdict"] = certify.verdict(p.decls, [gen.smt(a) for a in asserts], f"(set-logic {res['embedding']})", binary=binary, timeout=15)
    return res


def run(tier):
    chk = common.Check("C02", tier)
    chk.lean_obligations(THEOREMS)
    binary = common.opensmt_bin("hooks")
    # (0) minimised past failures with their expected answers
    for f in sorted((common.VERIF / "corpus" / "C02").glob("*.smt2")):
        r = corpus_case((f, binary))
        ok = r["expect"] is None or r["answers"] == r["expect"] or "unknown" in r["answers"]
        chk.case(key=("corpus", f.name), sample={"corpus": f.name, "answers": r["answers"], "expected": r["expect"]})
        chk.obligation(ok)
        if not ok:
            chk.violation("wrong-answer", f"corpus script {f.name}: answers {r['answers']}, expected {r['expect']}",
                          {"script": open(f).read(), "impl_answers": r["answers"]})
    # corpus traces of listed findings (so that each is re-observed on every run)
    for f in sorted((common.VERIF / "corpus" / "C02").glob("*.smt2")):
        txt = f.read_text()
        if "; expect-finding:" not in txt:
            continue
        key = txt.split("; expect-finding:")[1].split()[0]
        case = {"idx": f.name, "logic": "corpus", "options": [l[12:-1] for l in txt.split("\n") if l.startswith("(set-option")],
                "kind": "corpus", "script": txt}
        r = engine.run_case((case, binary, False, 20))
        bad = [v for v in r["verdicts"] if "sat-model" in v]
        chk.case(key=("corpus-trace", f.name), sample={"corpus": f.name, "lean": r["verdicts"]})
        if bad:
            chk.violation("sat-answer", f"{bad[0]} (corpus {f.name})", {"script": txt, "lean_verdict": bad[0]}, match_key=key)
    # (a) engine traces: every sat answer must be accepted by the machine
    n = 160 if tier == "quick" else 3000
    cases = [engine.make_case(i, chk.seed, LOGICS, engine.OPTION_VECTORS, big=True) for i in range(n)]
    cases += [engine.make_steered_case(i, chk.seed) for i in range(120 if tier == "quick" else 3000)]
    results = engine.run_cases(cases, certify=False, timeout=10 if tier == "quick" else 30)
    sat_seen = timeouts = 0
    for c, r in zip(cases, results):
        if r["rc"] == "timeout":
            timeouts += 1
            continue
        ns = r["answers"].count("sat")
        sat_seen += ns
        bad = [v for v in r["verdicts"] if "sat-model" in v]
        wrong = [w for w in engine.wrong_answers(c, r) if w[1] == "sat"]
        if wrong:
            chk.obligation(False)
            chk.violation("wrong-answer", f"check #{wrong[0][0]} answers sat, the assertions are unsatisfiable (exhaustive "
                          "enumeration of the propositional history)",
                          {"script": c["script"], "impl_answers": r["answers"], "expected": c["expected"]})
        chk.case(key=("trace", c["idx"], ns), nontrivial=ns > 0,
                 sample={"logic": c["logic"], "options": c["options"], "answers": r["answers"]} if ns else None)
        chk.cov["traces_validated_against_impl"] += len(r["verdicts"])
        chk.obligation(not bad)
        if bad:
            chk.violation("sat-answer", f"{bad[0]} ({c['logic']} {c['options']})",
                          {"script": c["script"], "options": c["options"], "lean_verdict": bad[0],
                           "failed_event": r.get("failed_line"), "impl_answers": r["answers"]},
                          match_key="picky-partial-model" if ":picky true" in c["options"] and
                          "unsatisfied clause" in (r.get("stdout", "") + r.get("stderr", "")) else None)
    # (b) printed models validated on all assertions (big constants, LIA/IDL emphasis)
    m = 200 if tier == "quick" else 4000
    mcases = []
    for i in range(m):
        rng = random.Random(f"c02-{chk.seed}-{i}")
        logic = LOGICS[i % len(LOGICS)]
        opts = [":print-success true", ":produce-models true"] + ([":random-seed %d" % rng.randint(1, 99)] if i % 3 == 0 else [])
        if rng.random() < 0.3:
            p, script, checks = gen.history(logic, rng, options=opts, big=True, after_check=lambda p, r: ["(get-model)"])
        else:
            p, a, script = gen.single_query(logic, rng, options=opts, big=True, after_check=lambda p, r: ["(get-model)"])
        mcases.append({"idx": i, "logic": logic, "options": opts, "script": script})
    # integer instances that are feasible over the rationals and need many branch / cut rounds in one process:
    # unbounded variables, equalities with non-unit coefficients (parity-style), several checks per script
    for i in range(40 if tier == "quick" else 800):
        rng = random.Random(f"c02-lia-{chk.seed}-{i}")
        nv = rng.randint(3, 6)
        xs = [f"x{j}" for j in range(nv)]
        lines = ["(set-option :print-success true)", "(set-option :produce-models true)", "(set-logic QF_LIA)"]
        lines += [f"(declare-fun {x} () Int)" for x in xs]
        N = lambda k: str(k) if k >= 0 else f"(- {-k})"
        def lin():
            vs = rng.sample(xs, rng.randint(2, min(4, nv)))
            return "(+ " + " ".join(f"(* {N(rng.choice([2, 3, 4, 5, 6, -2, -3, -4, 7]))} {v})" for v in vs) + ")"
        depth = 0
        for _ in range(rng.randint(14, 28)):
            c = rng.random()
            if c < 0.1 and depth < 3:
                lines.append("(push 1)"); depth += 1
            elif c < 0.18 and depth:
                lines.append("(pop 1)"); depth -= 1
            elif c < 0.45:
                lines.append(f"(assert (= {lin()} {N(rng.randint(-9, 9))}))")
            elif c < 0.6:
                lines.append(f"(assert (<= {lin()} {N(rng.randint(-9, 9))}))")
            elif c < 0.68:
                lines.append(f"(assert (or (= {lin()} {N(rng.randint(-5, 5))}) (>= {lin()} {N(rng.randint(-5, 5))})))")
            else:
                lines += ["(check-sat)", "(get-model)"]
        lines += ["(check-sat)", "(get-model)"]
        mcases.append({"idx": f"lia-{i}", "logic": "QF_LIA", "options": [], "script": "\n".join(lines) + "\n"})
    for f in sorted((common.VERIF / "corpus" / "C02" / "models").glob("*.smt2")):
        mcases.insert(0, {"idx": f.name, "logic": "corpus", "options": [], "script": f.read_text()})
    with mp.Pool(min(common.JOBS, 14)) as pool:
        mres = pool.map(c03.run_case, [(c, binary, 10 if tier == "quick" else 30) for c in mcases], chunksize=4)
    models = 0
    for c, r in zip(mcases, mres):
        if r["rc"] == "timeout":
            timeouts += 1
            continue
        models += r["n"]
        chk.case(key=("model", c["idx"], r["n"]), nontrivial=r["n"] > 0,
                 sample={"logic": c["logic"], "models_validated": r["n"], "script_head": c["script"][:300]} if r["n"] else None)
        chk.obligation(not r["problems"])
        for pr in r["problems"][:1]:
            # opensmt said sat and printed a model that is not a model: is the assertion set unsat?
            ext = extsolve.verdict(c["script"]) if c["script"].count("(check-sat)") == 1 else "n/a"
            chk.violation("sat-without-model", f"{pr['what']}; external verdict {ext} ({c['logic']})",
                          {"script": c["script"], "problem": pr, "external_verdict": ext, "impl_stdout": r.get("stdout")},
                          match_key=c03.classify(pr, c))
    # (c) difference-logic graph shapes: every sat answer of the IDL / RDL solvers is attacked through the embedding logic (the
    # same assertions under QF_LIA / QF_LRA, decided by Simplex): a refutation there that the Lean machine accepts contradicts it
    with mp.Pool(min(common.JOBS, 14)) as pool:
        dres = pool.map(_dl_case, [(i, chk.seed, binary) for i in range(360 if tier == "quick" else 8000)], chunksize=4)
    dl_sat = dl_refuted = 0
    for r in dres:
        dl_sat += 1 if r["answer"] == "sat" else 0
        chk.case(key=("dl", r["idx"], r["answer"]), nontrivial=r["answer"] in ("sat", "unsat"),
                 sample={"logic": r["logic"], "shape": r["shape"], "answer": r["answer"]} if r["idx"] < 3 else None)
        chk.obligation(r["verdict"] != "unsat-certified")
        if r["verdict"] == "unsat-certified":
            dl_refuted += 1
            chk.violation("sat-answer", f"sat under {r['logic']}, but the same assertions are refuted under {r['embedding']} by a run the Lean machine accepts "
                                        f"({r['shape']})", {"script": r["script"], "embedding_logic": r["embedding"]})
    chk.notes["dl_shapes"] = {"cases": len(dres), "sat_answers_attacked": dl_sat}
    chk.assumptions = ["array logics excluded (no model printing)",
                       "completeness of the theory solvers' final check is certified per run by the validated model, not proved"]
    return chk.finish(rule="cases: corpus scripts with expected answers; traced runs (non-trivial = has a sat answer, accepted "
                           "only if all roots evaluate to true from the atom values of the engine's model); model runs "
                           "(non-trivial = a printed model was evaluated on all active assertions)",
                      extra={"sat_answers_in_traces": sat_seen, "models_validated": models, "timeouts": timeouts})
