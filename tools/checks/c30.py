"""C30 (PARTIAL): check-sat returns outside integer arithmetic.

Proved: the trail machine `Search.step?` (decide / propagate / backjump / restart) has no infinite run inside a restart period
and none at all under conflict limits that reach 3^n.  Tie: the guarded hooks make the default engine emit every change of its
trail; every event must be a legal step of the machine.  Searched for (a test, not a theorem): small instances of the
non-integer logics that the reference solver decides at once are run under every engine and tracking option with a time limit.
"""
import multiprocessing as mp, os, random, time
import common, gen, runner, extsolve

THEOREMS = ["Osmt.Properties.C30_period_finite", "Osmt.Properties.C30_run_finite", "Osmt.Properties.C30_restart_needs_limit"]
LOGICS = ["QF_BOOL", "QF_UF", "QF_LRA", "QF_RDL", "QF_UFLRA"]
# configurations of the default engine whose trail is replayed on the machine
CDCL_VECTORS = [[], [":luby-restart false", ":restart-first 3"], [":restart-first 1"], [":luby-restart false", ":restart-first 2", ":restart-inc 1.5"],
                [":random-seed 7"], [":ccmin-mode 0"], [":produce-proofs true"], [":produce-models true"]]
# every engine / tracking option for the search with a time limit
ALL_VECTORS = [[], [":random-seed 99"], [":pure-lookahead true"], [":picky true"], [":pure-lookahead true", ":picky true"], [":ghost-vars true"],
               [":incremental false"], [":produce-proofs true"], [":produce-interpolants true"], [":produce-unsat-cores true"],
               [":produce-models true"], [":produce-assignments true"], [":do-substitutions false"],
               [":luby-restart false", ":restart-first 3"], [":restart-first 1"], [":ccmin-mode 0"], [":ccmin-mode 1"],
               [":pure-lookahead true", ":produce-proofs true"], [":minimal-unsat-cores true", ":produce-unsat-cores true"]]
LIMIT = 20          # seconds for a run of an instance the reference decides in well under a second
RETRY_LIMIT = 90    # a run that exceeds LIMIT is repeated (three at a time) with this limit before it is judged
MAX_RETRY = 9       # at most this many runs are repeated; further ones are counted as not judged


def random_3sat(rng):
    n = rng.randint(20, 60)
    m = int(n * rng.uniform(4.0, 4.5))
    lines = ["(set-logic QF_UF)"] + [f"(declare-fun p{i} () Bool)" for i in range(n)]
    for _ in range(m):
        vs = rng.sample(range(n), 3)
        lines.append("(assert (or " + " ".join((f"(not p{v})" if rng.random() < 0.5 else f"p{v}") for v in vs) + "))")
    lines.append("(check-sat)")
    if rng.random() < 0.4:
        lines += ["(push 1)", f"(assert p{rng.randrange(n)})", "(check-sat)", "(pop 1)",
                  f"(assert (not p{rng.randrange(n)}))", "(check-sat)"]
    return "\n".join(lines) + "\n"


def random_diff(rng):
    """difference constraints over the reals with Boolean structure: many theory conflicts"""
    n = rng.randint(4, 8)
    lines = ["(set-logic QF_RDL)" if rng.random() < 0.5 else "(set-logic QF_LRA)"] + [f"(declare-fun x{i} () Real)" for i in range(n)]
    def atom():
        a, b = rng.sample(range(n), 2)
        return f"({rng.choice(['<=', '<', '>=', '>'])} (- x{a} x{b}) {num(rng.randint(-4, 4))})"
    for _ in range(rng.randint(10, 26)):
        k = rng.randint(1, 3)
        ats = [atom() if rng.random() < 0.75 else f"(not {atom()})" for _ in range(k)]
        lines.append("(assert " + (ats[0] if k == 1 else "(or " + " ".join(ats) + ")") + ")")
    lines.append("(check-sat)")
    return "\n".join(lines) + "\n"


def num(k):
    return str(k) if k >= 0 else f"(- {-k})"


def make_script(idx, seed):
    rng = random.Random(f"c30-{seed}-{idx}")
    kind = idx % 8
    if kind == 4:
        return "QF_UF", random_3sat(rng)
    if kind == 5:
        return "QF_RDL/QF_LRA", random_diff(rng)
    if kind == 6:
        # short clauses over few atoms in nested levels: clauses satisfied at the base level, variables that lose and regain their clauses
        logic = LOGICS[(idx // 8) % len(LOGICS)]
        _, script, _ = gen.clausal_history(logic, rng)
        return logic, script
    if kind == 7:
        # difference constraints over the reals: chains, longer direct edges, cycles of weight zero
        f = rng.choice([gen.dl_chain, gen.dl_paths, gen.dl_conjunction])
        _, _, script = f("QF_RDL", rng)
        if rng.random() < 0.5:
            script = script.replace("(check-sat)", "(check-sat)\n(push 1)\n(assert (<= (- x0 x1) 0.0))\n(assert (<= (- x1 x0) 0.0))\n(check-sat)\n(pop 1)\n(check-sat)")
        return "QF_RDL", script
    logic = LOGICS[idx % len(LOGICS)]
    if rng.random() < 0.5:
        _, script, _ = gen.history(logic, rng, big=(idx % 4 == 3))
    else:
        _, _, script = gen.single_query(logic, rng, big=(idx % 4 == 3))
    return logic, script


def with_options(vec, script):
    return "".join(f"(set-option {o})\n" for o in vec) + script


def search_lines(trace_path):
    """trail events of every SAT solver instance of the trace -> input lines of `osmt-model search` (one run per search episode)"""
    per = {}
    for line in open(trace_path, errors="replace"):
        if not line.startswith("s"):
            continue
        w = line.split()
        if w[0] in ("sq", "sk", "ss", "sr", "sc", "se"):
            per.setdefault(w[1], []).append(w)
    out, nruns = [], 0
    for sid, evs in per.items():
        trail = []                     # (var, 'D'|'P') mirror of the solver's trail
        run, nmax = [], 0              # lines of the current run, number of variables seen
        pending_cut = None             # size after the truncations since the last conflict / restart announcement
        after_conflict = after_restart = False
        restart_info = None
        in_run = False
        in_search = False              # between the start and the end of a search() call
        lemma_cut = None               # cut inside search() that waits for the literal implied by a theory lemma
        def flush():
            nonlocal run, nmax, in_run
            if in_run and run:
                out.append(f"N {nmax}"); out.extend(run); out.append("END")
            run, in_run = [], False
        def settle_cut():
            """a truncation that was not followed by the enqueue of a conflict: not a step of the search"""
            nonlocal pending_cut, after_conflict
            if pending_cut is not None:
                if in_search:
                    run.append(f"X the trail is cut to {pending_cut} after a conflict inside search() but no literal is enqueued there")
                run.append(f"T {pending_cut}")
                del trail[pending_cut:]
                pending_cut = None
            after_conflict = False
        for w in evs:
            tag = w[0]
            if lemma_cut is not None and tag != "sq" and tag != "sk":
                run.append(f"X the trail is cut to {lemma_cut} inside search() without a conflict or a restart and no literal follows")
                run.append(f"T {lemma_cut}")
                del trail[lemma_cut:]
                lemma_cut = None
            if tag == "se":
                # end of a search() call: a conflict at the root leaves its cut without a literal
                if pending_cut is not None:
                    run.append(f"T {pending_cut}")
                    del trail[pending_cut:]
                    pending_cut = None
                after_conflict = False
                in_search = False
                continue
            if tag == "ss":
                in_search = True
                lim, nv, tsize = int(w[2]), int(w[3]), int(w[4])
                if after_restart:
                    after_restart = False          # the next period of the same run
                    if pending_cut is not None:      # restart whose cancelUntil(0) changed nothing is announced without a cut
                        pending_cut = None
                else:
                    settle_cut()
                    flush()
                    nruns += 1
                    in_run = True
                    run = [f"P {v}" for v, _ in trail]     # the surviving prefix is propagated again: a fresh run
                    nmax = 0
                nmax = max(nmax, nv, max([v + 1 for v, _ in trail] + [0]))
                if tsize != len(trail):
                    run.append(f"X trail size {tsize} reported, {len(trail)} replayed")
            elif tag == "sq":
                v, pos, first = int(w[2]), int(w[3]), int(w[4])
                if not in_run:
                    in_run = True; run = []; nmax = 0
                nmax = max(nmax, v + 1)
                if after_conflict and pending_cut is not None:
                    k = pending_cut
                    pending_cut = None; after_conflict = False
                    if pos != k:
                        run.append(f"X enqueue at {pos} after a cut to {k}")
                    run.append(f"B {k} {v}")
                    del trail[k:]
                    trail.append((v, "P"))
                    continue
                if lemma_cut is not None:
                    k = lemma_cut
                    lemma_cut = None
                    if pos != k or first:
                        run.append(f"X the trail is cut to {k} inside search() without a conflict or a restart and the next literal goes to {pos}")
                    run.append(f"J {k} {v}")
                    del trail[k:]
                    trail.append((v, "P"))
                    continue
                settle_cut()
                if pos != len(trail):
                    run.append(f"X enqueue at {pos}, replayed trail has {len(trail)}")
                run.append(("D " if first else "P ") + str(v))
                trail.append((v, "D" if first else "P"))
            elif tag == "sk":
                k = int(w[2])
                if restart_info is not None:
                    c, lim = restart_info
                    restart_info = None
                    run.append(f"R {k} {c} {lim}")
                    del trail[k:]
                    after_restart = True
                    continue
                if after_conflict:
                    pending_cut = k if pending_cut is None else min(pending_cut, k)
                    continue
                settle_cut()
                if in_search:
                    # no conflict, no restart: only a new theory lemma that is unit below the current level cuts here,
                    # and the implied literal is enqueued at the cut
                    lemma_cut = k if lemma_cut is None else min(lemma_cut, k)
                    continue
                run.append(f"T {k}")
                del trail[k:]
            elif tag == "sc":
                settle_cut()
                after_conflict = True
                pending_cut = None
            elif tag == "sr":
                settle_cut()
                restart_info = (int(w[2]), int(w[3]))
                if not trail or all(m == "P" for _, m in trail):
                    # no decision level to cancel: cancelUntil(0) reports nothing; the restart keeps the whole trail
                    run.append(f"R {len(trail)} {restart_info[0]} {restart_info[1]}")
                    restart_info = None
                    after_restart = True
        if after_conflict and pending_cut is not None:
            # conflict analysed, the run ended before the asserting literal was enqueued (cannot happen in search())
            del trail[pending_cut:]
            run.append(f"T {pending_cut}")
        flush()
    return out, nruns


def refine_case(args):
    idx, seed, binary = args
    logic, script = make_script(idx, seed)
    vec = CDCL_VECTORS[(idx // 8) % len(CDCL_VECTORS)]
    sc = with_options(vec, script)
    tp = common.WORK / f"c30-{os.getpid()}.trace"
    tp.unlink(missing_ok=True)
    res = {"idx": idx, "logic": logic, "vector": " ".join(vec) or "default", "script": sc, "problems": [], "runs": 0, "steps": 0,
           "backjumps": 0, "restarts": 0, "timeout": False}
    out, err, rc = runner.run_opensmt(binary, sc, tp, timeout=60, env_extra={"OPENSMT_VERIF_SEARCH": "1"})
    if rc == "timeout" or not tp.exists():
        tp.unlink(missing_ok=True)
        res["timeout"] = rc == "timeout"
        return res
    lines, nruns = search_lines(tp)
    tp.unlink(missing_ok=True)
    bad = [l for l in lines if l.startswith("X ")]
    if bad:
        res["problems"].append({"what": f"the trail events do not replay: {bad[0][2:]}", "model_input": lines[:400]})
        return res
    fp = common.WORK / f"c30-{os.getpid()}.in"
    fp.write_text("\n".join(lines) + "\n")
    mo = [l for l in common.sh([str(common.model_exe()), "search", str(fp)]).stdout.strip().split("\n") if l]
    fp.unlink(missing_ok=True)
    if len(mo) != nruns and len(mo) != sum(1 for l in lines if l == "END"):
        res["problems"].append({"what": f"{sum(1 for l in lines if l == 'END')} runs given to the trail machine, {len(mo)} verdicts", "model_input": lines[:400]})
        return res
    for v in mo:
        if not v.startswith("OK "):
            res["problems"].append({"what": f"a step of the search loop is not a step of the trail machine: {v}", "model_input": lines[:2000]})
            return res
        kv = dict(x.split("=") for x in v.split()[1:])
        res["runs"] += 1; res["steps"] += int(kv["steps"]); res["backjumps"] += int(kv["backjumps"]); res["restarts"] += int(kv["restarts"])
    return res


def hang_case(args):
    idx, seed, binary, nvec = args
    if isinstance(idx, str):                         # corpus file: run as it is (it carries its options)
        script = open(idx).read()
        res = {"idx": os.path.basename(idx), "logic": "corpus", "script": script, "problems": [], "runs": 1, "slowest": 0.0, "skipped": None}
        t = time.time()
        out, err, rc = runner.run_opensmt(binary, script, None, timeout=LIMIT)
        res["slowest"] = time.time() - t
        if rc == "timeout":
            res["problems"].append({"vector": ["as in the file"], "script": script, "first_limit": LIMIT})
        return res
    logic, script = make_script(idx, seed)
    rng = random.Random(f"c30-vec-{seed}-{idx}")
    res = {"idx": idx, "logic": logic, "script": script, "problems": [], "runs": 0, "slowest": 0.0, "skipped": None}
    t0 = time.time()
    ref = extsolve.verdict(script) if script.count("(check-sat)") == 1 else "n/a"
    if time.time() - t0 > 2.0:
        res["skipped"] = "the reference solver needs more than two seconds"      # not a small instance in the sense of the property
        return res
    single = script.count("(check-sat)") == 1 and "(push" not in script
    vecs = [ALL_VECTORS[0]] + rng.sample(ALL_VECTORS[1:], nvec - 1) if nvec < len(ALL_VECTORS) else ALL_VECTORS
    for vec in vecs:
        if ":incremental false" in vec and not single:
            continue
        sc = with_options(vec, script)
        t = time.time()
        out, err, rc = runner.run_opensmt(binary, sc, None, timeout=LIMIT)
        dt = time.time() - t
        res["runs"] += 1
        res["slowest"] = max(res["slowest"], dt)
        if rc == "timeout":
            res["problems"].append({"vector": vec, "script": sc, "first_limit": LIMIT})
    return res


def retry_case(args):
    binary, script = args
    t = time.time()
    out, err, rc = runner.run_opensmt(binary, script, None, timeout=RETRY_LIMIT)
    return "timeout" if rc == "timeout" else time.time() - t


def run(tier):
    chk = common.Check("C30", tier)
    chk.lean_obligations(THEOREMS)
    binary = common.opensmt_bin("hooks")
    n_ref, n_hang, nvec = (180, 96, 8) if tier == "quick" else (3000, 1200, len(ALL_VECTORS))
    with mp.Pool(min(common.JOBS, 14)) as pool:
        rres = pool.map(refine_case, [(i, chk.seed, binary) for i in range(n_ref)], chunksize=2)
        corpus = sorted(str(f) for f in (common.VERIF / "corpus" / "C30").glob("*.smt2"))
        hres = pool.map(hang_case, [(i, chk.seed, binary, nvec) for i in corpus + list(range(n_hang))], chunksize=1)
    tot = {"runs": 0, "steps": 0, "backjumps": 0, "restarts": 0, "timeouts": 0}
    for r in rres:
        for k in ("runs", "steps", "backjumps", "restarts"):
            tot[k] += r[k]
        tot["timeouts"] += 1 if r["timeout"] else 0
        chk.case(key=("refine", r["idx"], r["steps"]), nontrivial=r["backjumps"] > 0,
                 sample={"logic": r["logic"], "options": r["vector"], "steps": r["steps"], "backjumps": r["backjumps"], "restarts": r["restarts"]}
                 if r["restarts"] and r["idx"] < 60 else None)
        chk.obligation(not r["problems"])
        if r["runs"]:
            chk.cov["traces_validated_against_impl"] += 1
        for pr in r["problems"][:1]:
            chk.violation("trail-refinement", f"{pr['what']} ({r['logic']}, {r['vector']})", {"script": r["script"], "problem": pr})
    # runs over the limit are repeated, few at a time and with a generous limit, before they are judged; at most MAX_RETRY of them
    pending = [(r["idx"], k) for r in hres for k in range(len(r["problems"]))][:MAX_RETRY]
    by_idx = {r["idx"]: r for r in hres}
    with mp.Pool(3) as pool:
        outcomes = pool.map(retry_case, [(binary, by_idx[i]["problems"][k]["script"]) for i, k in pending], chunksize=1)
    verdict = {key: o for key, o in zip(pending, outcomes)}
    hruns = skipped = unjudged = 0
    slowest = 0.0
    for r in hres:
        hruns += r["runs"]; slowest = max(slowest, r["slowest"])
        if r["skipped"]:
            skipped += 1
        judged = []
        for k, pr in enumerate(r["problems"]):
            o = verdict.get((r["idx"], k))
            if o is None:
                unjudged += 1
            elif o == "timeout":
                judged.append(pr)
            else:
                slowest = max(slowest, o)
        chk.case(key=("limit", r["idx"], r["runs"]), nontrivial=r["runs"] >= 3 or r["logic"] == "corpus",
                 sample={"logic": r["logic"], "configurations": r["runs"], "slowest_s": round(r["slowest"], 2)}
                 if isinstance(r["idx"], int) and r["idx"] < 3 else None)
        chk.obligation(not judged)
        for pr in judged[:1]:
            chk.violation("no-answer", f"no answer within {RETRY_LIMIT} s under {' '.join(pr['vector']) or 'default'} on an instance the "
                                       f"reference solver decides at once ({r['logic']})", {"script": pr["script"], "options": pr["vector"]},
                          match_key="picky-no-answer" if "(set-option :picky true)" in pr["script"] else None)
    chk.assumptions = ["termination of the single steps (propagation, conflict analysis, Simplex pivoting, congruence closure, lemma generation) "
                       "and of the lookahead engines is not proved; it is searched for with a time limit",
                       "that the restart limits of the solver reach 3^n is not proved (floating-point policy)",
                       "the reference solver (z3) only classifies an instance as small; it does not judge answers here"]
    return chk.finish(rule="one case = one script (generated history / single query / random 3-SAT / random difference constraints) of a non-integer "
                           "logic; refinement cases replay the trail of the default engine on the Lean trail machine (non-trivial = at least one "
                           "backjump), limit cases run it under sampled engine and tracking options (non-trivial = at least three configurations ran)",
                      extra={"trail_machine": tot, "limit_runs": hruns, "limit_s": LIMIT, "retry_limit_s": RETRY_LIMIT, "slowest_run_s": round(slowest, 2),
                             "instances_not_small_for_reference": skipped,
                             "runs_over_limit_not_judged": unjudged})
