"""C28: hash-consing. The same construction sequences are run through the Logic API (harness) and through the Lean store
model; the equality pattern of the results (which constructions return an existing identity, which a new one), the order of
identities and `children before parents` are compared."""
import multiprocessing as mp, os, random, subprocess
import common

THEOREMS = ["Osmt.Properties.C28_same_node_same_identity", "Osmt.Properties.C28_identity_holds_node", "Osmt.Properties.C28_identities_stable",
            "Osmt.Properties.C28_distinct_identities_distinct_terms", "Osmt.Properties.C28_invariant_kept",
            "Osmt.Properties.C28_subterms_first", "Osmt.Properties.C28_commutative_order_insensitive"]


def make_ops(rng, n):
    ops, kinds, keys = [], [], []          # kinds[i]: "U" or "B"; keys[i]: structural key of the result (generator's own)

    def add(op):
        t = op.split()
        if t[0] == "leaf":
            key, kind = ("leaf", t[1]), "U"
        elif t[0] == "app":
            key, kind = ("app", t[1], tuple(keys[int(x)] for x in t[2:])), "U"
        elif t[0] == "pred":
            key, kind = ("pred", keys[int(t[1])]), "B"
        elif t[0] == "eq":
            a, b = keys[int(t[1])], keys[int(t[2])]
            key, kind = ("TRUE",) if a == b else ("eq", tuple(sorted([a, b], key=repr))), "B"
        else:
            key, kind = (t[0], tuple(sorted((keys[int(x)] for x in t[1:]), key=repr))), "B"
        ops.append(op); kinds.append(kind); keys.append(key)

    for k in range(rng.randint(2, 4)):
        add(f"leaf {k}")
    for _ in range(n):
        us = [i for i, k in enumerate(kinds) if k == "U"]
        # Boolean arguments of and / or: pairwise different terms, none the constant true (the constructors simplify those)
        bs, seen = [], set()
        for i, k in enumerate(kinds):
            if k == "B" and keys[i] != ("TRUE",) and keys[i] not in seen:
                seen.add(keys[i]); bs.append(i)
        c = rng.random()
        if c < 0.08:
            add(f"leaf {rng.randint(0, 5)}")
        elif c < 0.5:
            ar = rng.randint(1, 3)
            add(f"app {rng.choice(['f', 'g', 'h'])} " + " ".join(str(rng.choice(us)) for _ in range(ar)))
        elif c < 0.62:
            add(f"pred {rng.choice(us)}")
        elif c < 0.82 or len(bs) < 3:
            add(f"eq {rng.choice(us)} {rng.choice(us)}")
        else:
            add(f"{rng.choice(['and', 'or'])} " + " ".join(map(str, rng.sample(bs, rng.randint(2, min(4, len(bs)))))))
        # repeat an earlier construction, possibly with permuted arguments
        if rng.random() < 0.3:
            j = rng.randrange(len(ops))
            toks = ops[j].split()
            if toks[0] in ("eq", "and", "or") and rng.random() < 0.7:
                a = toks[1:]; rng.shuffle(a); toks = [toks[0]] + a
            elif toks[0] == "app" and rng.random() < 0.3 and len(toks) > 3:
                a = toks[2:]; rng.shuffle(a); toks = toks[:2] + a
            add(" ".join(toks))
    return ops


def make_arith_ops(rng, n):
    """integer variables, scaled variables, sums over pairwise different variables (nothing for the constructor to merge),
    equalities and exclusive ors, each also repeated with permuted arguments"""
    ops, info = [], []                      # info[i]: ("I", base variable set) | ("B", key)
    def add(op, inf):
        ops.append(op); info.append(inf)
    nv = rng.randint(2, 5)
    order = list(range(nv)); rng.shuffle(order)
    for k in order[:2]:
        add(f"ivar {k}", ("V", k))
    for k in range(rng.randint(2, 3)):
        add(f"bvar {k}", ("B", ("b", k)))
    for _ in range(n):
        vars_ = [i for i, x in enumerate(info) if x[0] == "V"]
        addends = [i for i, x in enumerate(info) if x[0] in ("V", "S")]
        ints = [i for i, x in enumerate(info) if x[0] in ("V", "S", "P")]
        bools = [i for i, x in enumerate(info) if x[0] == "B"]
        c = rng.random()
        if c < 0.12:
            k = rng.randrange(nv); add(f"ivar {k}", ("V", k))
        elif c < 0.3:
            i = rng.choice(vars_); add(f"scale {rng.choice([2, 3, 5, -2, 7])} {i}", ("S", info[i][1]))
        elif c < 0.6:
            rng.shuffle(addends)
            chosen, used = [], set()
            for i in addends:
                if info[i][1] not in used:
                    used.add(info[i][1]); chosen.append(i)
                if len(chosen) == 4:
                    break
            if len(chosen) >= 2:
                chosen = chosen[:rng.randint(2, len(chosen))]
                add("plus " + " ".join(map(str, chosen)), ("P", None))
        elif c < 0.75 and len(ints) >= 2:
            i, j = rng.sample(ints, 2)
            if ops[i] != ops[j]:
                add(f"eq {i} {j}", ("E", None))
        elif len(bools) >= 2:
            i, j = rng.sample(bools, 2)
            if info[i][1] != info[j][1]:
                add(f"xor {i} {j}", ("X", None))
        if rng.random() < 0.4 and ops:
            j = rng.randrange(len(ops))
            toks = ops[j].split()
            if toks[0] in ("plus", "eq", "xor"):
                a = toks[1:]; rng.shuffle(a)
                add(" ".join([toks[0]] + a), info[j])
    return ops


def run_case(args):
    idx, seed, exe = args
    rng = random.Random(f"c28-{seed}-{idx}")
    if isinstance(exe, tuple):                 # (harness, "arith")
        exe = exe[0]
        ops = make_arith_ops(rng, rng.randint(15, 60))
    else:
        ops = make_ops(rng, rng.randint(20, 80))
    text = "\n".join(ops) + "\n"
    r = subprocess.run([str(exe)], input=text, capture_output=True, text=True, timeout=60)
    res = {"idx": idx, "ops": ops, "problems": [], "n": len(ops), "shared": 0}
    if r.returncode != 0:
        res["problems"].append({"what": f"harness terminated abnormally ({r.returncode}): {r.stderr[-200:]}"}); return res
    impl = [l.split() for l in r.stdout.strip().split("\n")]
    fp = common.WORK / f"c28-{os.getpid()}.in"
    fp.write_text(text)
    mo = [l.split() for l in common.sh([str(common.model_exe()), "store", str(fp)]).stdout.strip().split("\n")]
    fp.unlink(missing_ok=True)
    if len(impl) != len(ops) or len(mo) != len(ops):
        res["problems"].append({"what": f"{len(ops)} operations, {len(impl)} harness lines, {len(mo)} model lines"}); return res
    # and / or over arguments that simplify (complementary literals cannot occur; a conjunct that is itself true can)
    seen_impl, seen_model = {}, {}
    for k, (op, a, m) in enumerate(zip(ops, impl, mo)):
        if a[0] == "error":
            res["problems"].append({"what": f"op #{k} `{op}`: {' '.join(a)}"}); break
        ref, pid, nch = int(a[0]), int(a[1]), int(a[2])
        kids = [int(x) for x in a[3:3 + nch]]
        is_true = a[-1] == "TRUE"
        mid = int(m[0])
        if op.split()[0] in ("and", "or"):
            argrefs = [int(impl[int(t)][0]) for t in op.split()[1:]]
            if any(impl[int(t)][-1] == "TRUE" for t in op.split()[1:]) or len(set(argrefs)) < len(argrefs):
                res["skipped"] = res.get("skipped", 0) + 1
                # constant or repeated conjuncts are simplified by the constructor (C14's subject): keep the maps aligned
                seen_impl.setdefault(ref, k); seen_model.setdefault(mid, k)
                continue
        # same result as an earlier operation? must agree between the implementation and the model
        fi, fm = seen_impl.get(ref), seen_model.get(mid)
        if (fi is None) != (fm is None) or (fi is not None and fi != fm):
            res["problems"].append({"what": f"op #{k} `{op}`: opensmt returns the identity of op #{fi} (PTRef {ref}), the model that of op #{fm}",
                                    "ops": ops[:k + 1]})
            break
        if fi is not None:
            res["shared"] += 1
        seen_impl.setdefault(ref, k); seen_model.setdefault(mid, k)
        # children are older
        if any(c >= ref for c in kids):
            res["problems"].append({"what": f"op #{k} `{op}`: PTRef {ref} has a child with a larger PTRef {kids}"}); break
        if fi is None and not is_true:
            # a new term: its Pterm id is larger than the ids of all earlier new terms
            if pid <= res.get("last_pid", -1):
                res["problems"].append({"what": f"op #{k} `{op}`: new term with Pterm id {pid} after id {res['last_pid']}"}); break
            res["last_pid"] = pid
    return res


def run(tier):
    chk = common.Check("C28", tier)
    chk.lean_obligations(THEOREMS)
    exe = common.compile_harness("store_harness", ["store_harness.cc"], link_lib=True)
    n = 400 if tier == "quick" else 8000
    with mp.Pool(min(common.JOBS, 14)) as pool:
        results = pool.map(run_case, [(i, chk.seed, exe) for i in range(n)], chunksize=8)
        exe2 = common.compile_harness("store_arith_harness", ["store_arith_harness.cc"], link_lib=True)
        results += pool.map(run_case, [(f"a{i}", chk.seed, (exe2, "arith")) for i in range(n // 2)], chunksize=8)
    total = shared = 0
    for r in results:
        total += r["n"]; shared += r["shared"]
        chk.case(key=(r["idx"], r["n"], r["shared"]), nontrivial=r["shared"] > 0,
                 sample={"operations": r["n"], "results_shared_with_an_earlier_operation": r["shared"]} if r["shared"] else None)
        chk.obligation(not r["problems"])
        chk.cov["traces_validated_against_impl"] += 1
        for pr in r["problems"][:1]:
            chk.violation("hash-consing", pr["what"], {"ops": pr.get("ops", r["ops"]), "problem": pr})
    chk.assumptions = ["constructors that simplify (constant or repeated conjuncts) are outside the store model; they are C14's subject"]
    return chk.finish(rule="one case = one sequence of 20-80 constructions (constants, uninterpreted applications of arity 1-3, a predicate, "
                           "equalities, conjunctions / disjunctions; in the arithmetic harness integer variables, scaled variables, sums over different variables, "
                           "equalities, exclusive ors) with repetitions and permuted repetitions; non-trivial = some result "
                           "coincides with an earlier one",
                      extra={"constructions": total, "coinciding_results": shared})
