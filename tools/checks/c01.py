"""C01: every unsat answer of every traced run is confirmed by the Lean machine (certified theory clauses, input
clauses entailed by their roots, final conflict by propagation)."""
import common, engine, extsolve

THEOREMS = ["Osmt.Properties.C01_unsat_sound", "Osmt.Properties.C01_unsat_roots", "Osmt.Smt.unsat_sound",
            "Osmt.inputOk_sound", "Osmt.Smt.theoryOk_sound", "Osmt.Cdcl.step_unsat_sound", "Osmt.rup_sound"]


def _attack(args):
    import attack
    try:
        return attack.models_against_unsat(*args)
    except Exception:
        return []


def run(tier):
    chk = common.Check("C01", tier)
    chk.lean_obligations(THEOREMS)
    n = 300 if tier == "quick" else 5000
    cases = [engine.make_case(i, chk.seed, engine.LOGICS_KERNEL, engine.OPTION_VECTORS) for i in range(n)]
    cases += [engine.make_steered_case(i, chk.seed, engine.OPTION_VECTORS[i % 7] if i % 3 == 0 and ":incremental false" not in engine.OPTION_VECTORS[i % 7] else ())
              for i in range(100 if tier == "quick" else 3000)]
    results = engine.run_cases(cases, certify=True, timeout=10 if tier == "quick" else 30)
    unsat = sat = timeouts = 0
    stats = {}
    for c, r in zip(cases, results):
        if r["rc"] == "timeout":
            timeouts += 1
            continue
        nu = r["answers"].count("unsat")
        unsat += nu
        sat += r["answers"].count("sat")
        for k, v in r["stats"].items():
            stats[k] = stats.get(k, 0) + v
        ok = all(v.startswith("OK") for v in r["verdicts"])
        wrong = [w for w in engine.wrong_answers(c, r) if w[1] == "unsat"]
        if wrong:
            chk.obligation(False)
            chk.violation("wrong-answer", f"check #{wrong[0][0]} answers unsat, the assertions are satisfiable (exhaustive "
                          f"enumeration of the propositional history) ({c['options']})",
                          {"script": c["script"], "impl_answers": r["answers"], "expected": c["expected"]})
        chk.case(key=(c["idx"], nu), nontrivial=nu > 0,
                 sample={"logic": c["logic"], "options": c["options"], "kind": c["kind"], "answers": r["answers"],
                         "lean": r["verdicts"]} if nu > 0 else None)
        chk.cov["traces_validated_against_impl"] += len(r["verdicts"])
        chk.obligation(ok)
        if not ok:
            bad = [v for v in r["verdicts"] if not v.startswith("OK")][0]
            if "sat-model" in bad:
                chk.discharged += 1      # C02's acceptance, not C01's
                continue
            witness = None
            if c["kind"] == "single" and r["answers"] == ["unsat"]:
                witness = extsolve.find_model(c["script"])
            chk.violation("trace-refinement", f"{bad} ({c['logic']} {c['options']})",
                          {"script": c["script"], "options": c["options"], "lean_verdict": bad,
                           "failed_event": r.get("failed_line"), "impl_answers": r["answers"],
                           "external_model_of_assertions": witness},
                          found_input=True)
        # cross-examination of unsat answers by an external solver (untrusted; a disagreement is reported as such)
        if ok and c["kind"] == "single" and r["answers"] == ["unsat"] and tier == "thorough":
            witness = extsolve.find_model(c["script"])
            if witness is not None:
                chk.violation("external-disagreement", "opensmt answers unsat, z3 finds a model (uncertified)",
                              {"script": c["script"], "external_model_of_assertions": witness})
    # every certified unsat answer is attacked from the other side: z3 proposes a model of the assertions as written, the Lean
    # evaluator validates it (a validated model contradicts the answer whatever the front end and the preprocessor did)
    import multiprocessing as mp
    cand = [(c, r) for c, r in zip(cases, results) if r["rc"] != "timeout" and "unsat" in r["answers"]
            and all(v.startswith("OK") for v in r["verdicts"])]
    with mp.Pool(min(common.JOBS, 14)) as pool:
        found = pool.map(_attack, [(c["script"], r["stdout"]) for c, r in cand], chunksize=4)
    attacked = 0
    for (c, r), prs in zip(cand, found):
        attacked += 1
        chk.obligation(not prs)
        for pr in prs[:1]:
            chk.violation("wrong-answer", f"check #{pr['check']}: {pr['what']} ({c['logic']} {c['options']})",
                          {"script": c["script"], "impl_answers": r["answers"], "assertions": pr["assertions"]})
    chk.notes["unsat_answers_attacked_with_models"] = attacked
    chk.assumptions = ["roots handed to the engine vs. the user's assertions: C13 (and the model attack on every unsat answer)", "frame literals are fresh Boolean variables",
                       "array logics are not in this corpus (no array kernel)"]
    return chk.finish(rule="one case = one generated script under one option vector; non-trivial = at least one unsat answer "
                           "whose whole trace was accepted; distinct by case index",
                      extra={"unsat_answers_confirmed": unsat, "sat_answers_seen": sat, "timeouts": timeouts,
                             "theory_clauses_by_kernel": stats})
