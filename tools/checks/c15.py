"""C15: FastRational vs its Lean mirror model (value, representation, hash) on the boundary lattice, with GMP as
an independent oracle inside the harness."""
import itertools, random, subprocess
import common

THEOREMS = ["Osmt.Properties.C15_add_exact", "Osmt.Properties.C15_add_wf", "Osmt.Properties.C15_ofRat_exact",
            "Osmt.Properties.C15_canonical", "Osmt.Properties.C15_gcdU_eq", "Osmt.Properties.C15_neg_exact",
            "Osmt.Properties.C15_compare_exact", "Osmt.Properties.C15_mul_exact",
            "Osmt.Properties.C15_add_representation_independent", "Osmt.FR.knuth_gcd_dvd"]
BIN = ["add", "sub", "mul", "div", "addA", "subA", "mulA", "divA", "cmp", "eq"]
UN = ["neg", "negate", "inv", "sign", "isint", "ceil", "floor", "id"]
LEAN_NAME = {"addA": "add", "subA": "sub", "mulA": "mul", "divA": "div", "negate": "neg"}


def lattice(rng, extra=0):
    base = [0, 1, 2, 3, 7, 2**15, 2**16, 2**31 - 1, 2**31, 2**32 - 1, 2**32, 2**53, 2**63 - 1, 2**63, 2**64]
    nums = set()
    for b in base:
        for d in (-1, 0, 1):
            for s in (1, -1):
                nums.add(s * (b + d))
    nums = sorted(nums)
    dens = sorted({d for d in [1, 2, 3, 6, 7, 2**16, 2**31 - 1, 2**31, 2**32 - 1, 2**32 - 5, 2**32, 2**32 + 1]})
    vals = []
    for n in nums:
        for d in (1, 2, 3, 2**31 - 1, 2**32 - 1, 2**32 + 1):
            vals.append(f"{n}/{d}")
    for _ in range(extra):
        vals.append(f"{rng.randint(-2**33, 2**33)}/{rng.randint(1, 2**33)}")
    # values reached through arithmetic (mpq memory allocated but word-valid afterwards)
    vals += [f"c:{rng.choice(vals)}:{2**70 + 3}/7" for _ in range(20)]
    return vals


def run_cpp(lines, exe):
    """runs the harness; an abort (sanitizer report, SIGFPE, assertion) is attributed to the first line without
    output, recorded, and the run continues after it. Returns (outputs, [(line, stderr)])"""
    outs, aborts, start = [], [], 0
    while start < len(lines):
        r = subprocess.run([str(exe)], input="\n".join(lines[start:]) + "\n", capture_output=True, text=True)
        got = r.stdout.split("\n")
        if got and got[-1] == "":
            got.pop()
        if r.returncode == 0:
            outs += got
            break
        k = min(len(got), len(lines) - start - 1)
        # a partially written last line belongs to the failing op
        outs += got[:k] + ["<abort>"]
        aborts.append((lines[start + k], r.stderr[-600:]))
        start += k + 1
    return outs, aborts


def run_both(lines, exe):
    cpp, aborts = run_cpp(lines, exe)
    p = common.WORK / "rat.in"
    lean_lines = []
    for l in lines:
        w = l.split()
        w[0] = LEAN_NAME.get(w[0], w[0])
        lean_lines.append(" ".join(w))
    p.write_text("\n".join(lean_lines) + "\n")
    lr = common.sh([str(common.model_exe()), "rat", str(p)])
    return cpp, lr.stdout.split("\n"), aborts


def run(tier):
    chk = common.Check("C15", tier)
    chk.lean_obligations(THEOREMS)
    exe = common.compile_harness("rat_harness", ["rat_harness.cc"],
                                 extra_flags=["-fsanitize=address,undefined", "-fno-sanitize-recover=all",
                                              str(common.REPO / "src/common/numbers/FastRational.cc")])
    rng = chk.rng
    vals = lattice(rng, extra=30 if tier == "quick" else 300)
    sample = vals if tier == "thorough" else rng.sample(vals, 130)
    lines = []
    for a in vals:
        for op in UN:
            if op == "inv" and a.split("/")[0].lstrip("c:") in ("0", "-0"):
                continue
            lines.append(f"{op} {a}")
    for a in sample:
        for b in sample:
            zero_b = b.split("/")[0] in ("0",) or b.startswith("c:0/")
            for op in BIN:
                if op in ("div", "divA") and zero_b:
                    continue
                lines.append(f"{op} {a} {b}")
    n_modelled = len(lines)
    # integer-only operations checked against GMP alone (not mirrored in Lean): gcd, lcm, operator%
    ints = [v for v in vals if v.endswith("/1") and not v.startswith("c:")]
    isample = ints if tier == "thorough" else rng.sample(ints, min(len(ints), 60))
    for a in isample:
        for b in isample:
            for op in ("gcd", "lcm", "mod"):
                if op == "mod" and b.split("/")[0] == "0":
                    continue
                if op in ("gcd",) and a.split("/")[0] == "0" and b.split("/")[0] == "0":
                    continue
                lines.append(f"{op} {a} {b}")
    cpp, lean, aborts = run_both(lines, exe)
    for line, err in aborts:
        w = line.split()
        key = "mod-intmin-minus-one" if w[0] == "mod" and w[1] == "-2147483648/1" and w[2] == "-1/1" else None
        chk.obligation(False)
        chk.violation("harness-abort", f"FastRational aborts / undefined behaviour on `{line}`", {"input": line, "stderr": err},
                      match_key=key)
    branch = {"w": 0, "b": 0}
    mism = 0
    for i, l in enumerate(lines):
        c = cpp[i] if i < len(cpp) else "<missing>"
        if c == "<abort>":
            continue
        m = lean[i] if i < len(lean) else "<missing>"
        flags = [f for f in ("ORACLE-MISMATCH", "NOT-WELLFORMED", "REPRESENTATION-MISMATCH") if f in c]
        core = " ".join(w for w in c.split() if w not in ("ORACLE-MISMATCH", "NOT-WELLFORMED", "REPRESENTATION-MISMATCH"))
        for k in ("w", "b"):
            if f" {k} " in core + " ":
                branch[k] += 1
        chk.case(key=l, nontrivial=True, sample={"op": l, "impl": c, "model": m} if i % 9973 == 0 else None)
        if flags:
            key = None
            w = l.split()
            if w[0] == "mod" and (w[1].startswith("-") or w[2].startswith("-")) and "REPRESENTATION" not in c:
                key = "mod-word-path-negative"
            chk.obligation(False)
            chk.violation("oracle", f"FastRational disagrees with GMP: {l} -> {c}", {"input": l, "impl": c, "model": m},
                          match_key=key)
            if key is None:
                mism += 1
        elif i < n_modelled and core != m:
            chk.obligation(False)
            mism += 1
            if mism <= 10:
                chk.violation("model-mismatch", f"implementation and Lean mirror differ on `{l}`: impl `{core}` model `{m}` "
                              "(GMP oracle agrees with the implementation: structural drift or model error)",
                              {"input": l, "impl": c, "model": m}, found_input=False)
    chk.obligation(mism == 0)
    chk.assumptions = ["GMP is exact", "division / inverse by zero excluded (the C++ aborts by design)",
                       "gcd, lcm, operator% are checked against GMP only (see known findings)"]
    return chk.finish(rule="exhaustive over unary ops x boundary lattice and binary ops x sampled lattice pairs; every case is "
                           "distinct (op, operands); compared: value, word/big representation, hash of word values",
                      extra={"lattice_values": len(vals), "results_word": branch["w"], "results_big": branch["b"],
                             "exhaustive": False})
