"""C10: printed resolution proofs: closed, every step a resolution on a pivot with opposite signs, root empty (Lean
checker); every leaf is an input clause of an active level, the activation of an active level, or a theory clause of
the traced run (whose validity the Lean kernels certify)."""
import multiprocessing as mp, os, random
import common, gen, runner, smtlib, trace, termeval

THEOREMS = ["Osmt.Properties.C10_checked_proof_refutes_leaves", "Osmt.Properties.C06_resolve_sound", "Osmt.Proof.runChain_sound"]
LOGICS = ["QF_BOOL", "QF_UF", "QF_LRA", "QF_LIA", "QF_UFLRA"]


def term_or_declare(table, sx):
    for _ in range(40):
        try:
            return table.term(sx)
        except smtlib.ParseError as e:
            msg = str(e)
            if msg.startswith("unknown symbol "):
                table.declare(msg[len("unknown symbol "):], [], "B")      # solver-internal Boolean (frame literals)
            else:
                raise
    raise smtlib.ParseError("too many unknown symbols")


def split_lit(table, t):
    op, args, _ = table.nodes[t]
    if op == "not" and len(args) == 1:
        return (args[0], True)
    return (t, False)


def parse_proof(table, sx, known=None):
    """returns (steps, root index, names); steps: ("leaf", [(term, neg)]) | ("chain", first, [(idx, pivot term)])"""
    if not isinstance(sx, list) or smtlib.sym(sx[0]) != "proof":
        raise smtlib.ParseError("not a proof")
    body = sx[1]
    names, steps = {}, []
    def chain(e):
        """flatten (res (res a b p) c q) -> first, [(b,p),(c,q)]"""
        if isinstance(e, list) and smtlib.sym(e[0]) == "res":
            first, rest = chain(e[1])
            nm = smtlib.sym(e[2])
            if nm not in names:
                raise smtlib.ParseError(f"unbound clause name {nm}")
            return first, rest + [(names[nm], term_or_declare(table, e[3]))]
        nm = smtlib.sym(e)
        if nm not in names:
            raise smtlib.ParseError(f"unbound clause name {nm}")
        return names[nm], []
    while isinstance(body, list) and body and smtlib.sym(body[0]) == "let":
        binding = body[1]
        nm = smtlib.sym(binding[0])
        if len(binding) == 1:
            raise smtlib.ParseError(f"clause {nm} is bound to nothing")
        val = binding[1]
        if isinstance(val, list) and smtlib.sym(val[0]) == "res":
            first, rest = chain(val)
            steps.append(("chain", first, rest))
        elif smtlib.sym(val) == "-":
            steps.append(("leaf", []))
        else:
            if isinstance(val, list) and smtlib.sym(val[0]) == "or":
                lits = [split_lit(table, term_or_declare(table, x)) for x in val[1:]]
                # the printed format does not distinguish the clause (or a b) from the unit clause whose only literal is
                # the term (or a b); the clauses of the traced run decide which one is meant
                unit = [split_lit(table, term_or_declare(table, val))]
                if known is not None and frozenset(lits) not in known and frozenset(unit) in known:
                    lits = unit
            else:
                lits = [split_lit(table, term_or_declare(table, val))]
            steps.append(("leaf", lits))
        names[nm] = len(steps) - 1
        body = body[2]
    root = smtlib.sym(body)
    if root not in names:
        raise smtlib.ParseError(f"the proof body refers to the unbound name {root}")
    return steps, names[root], names


def run_case(args):
    idx, seed, binary = args
    rng = random.Random(f"c10-{seed}-{idx}")
    logic = LOGICS[idx % len(LOGICS)] if not isinstance(idx, str) else "corpus"
    opts = [":print-success true", ":produce-proofs true"]
    if isinstance(idx, str):
        script = open(idx).read()
    elif idx % 5 == 4:
        # refutations found while clauses are added (complementary units, at several levels, after popped refutations)
        p = gen.Problem("QF_BOOL" if idx % 2 else logic, rng)
        lines = [f"(set-option {o})" for o in opts] + [p.set_logic()] + p.decls
        depth = 0
        for _ in range(rng.randint(6, 14)):
            c = rng.random()
            if rng.random() < 0.12 and depth < 2:
                # a clause, then units falsifying its literals one by one in deeper scopes (refutation by propagation from
                # the scope assumptions through a reason clause that holds a literal already false at the base level)
                vs = rng.sample(p.bools, 3)
                ls = [gen.smt(b) if rng.random() < 0.5 else f"(not {gen.smt(b)})" for b in vs]
                neg = lambda l: l[5:-1] if l.startswith("(not ") else f"(not {l})"
                lines += ["(assert (or " + " ".join(ls) + "))", f"(assert {neg(ls[0])})"]
                for l in ls[1:]:
                    lines += ["(push 1)", f"(assert {neg(l)})"]; depth += 1
                lines += ["(check-sat)", "(get-proof)"]
                continue
            if c < 0.2 and depth < 3:
                lines.append("(push 1)"); depth += 1
            elif c < 0.35 and depth:
                lines.append("(pop 1)"); depth -= 1
                if rng.random() < 0.4:
                    lines.append("(get-proof)")          # no check-sat since the stack changed: there is no proof to print
            elif c < 0.75:
                b = rng.choice(p.bools)
                f = b if rng.random() < 0.5 else ("app", "not", "Bool", [b])
                if rng.random() < 0.3:
                    f = p.fla(1)
                lines.append(f"(assert {gen.smt(f)})")
            else:
                lines += ["(check-sat)", "(get-proof)"]
        lines += ["(check-sat)", "(get-proof)"]
        script = "\n".join(lines) + "\n"
    elif idx % 3 == 2:
        p, script, checks = gen.clausal_history(logic, rng, options=opts, after_check=lambda p, r: ["(get-proof)"])
    else:
        p, script, checks = gen.history(logic, rng, options=opts, after_check=lambda p, r: ["(get-proof)"])
    tp = common.WORK / f"c10-{os.getpid()}.trace"
    tp.unlink(missing_ok=True)
    out, err, rc = runner.run_opensmt(binary, script, tp, timeout=30)
    res = {"idx": idx, "logic": logic, "script": script, "problems": [], "proofs": 0, "steps": 0, "leaves": 0}
    if rc == "timeout":
        tp.unlink(missing_ok=True)
        return res                    # inconclusive
    if rc not in (0, 1) or not tp.exists():
        res["problems"].append({"what": f"opensmt terminated abnormally (status {rc})", "stderr": err[-300:]}); return res
    try:
        outs = smtlib.parse_sexps(out)
    except smtlib.ParseError as e:
        res["problems"].append({"what": f"output unreadable: {e}", "stdout": out[-400:]}); return res
    lines = script.strip().split("\n")
    if len(outs) != len(lines):
        res["problems"].append({"what": f"{len(lines)} commands, {len(outs)} responses"}); return res
    tr = trace.Trace(tp)
    tp.unlink(missing_ok=True)
    # the whole trace must be accepted (this certifies every theory clause of the run)
    accepted = {}
    for sid in tr.order:
        accepted[sid] = runner.lean_replay(tr, sid, work_name=f"c10-{os.getpid()}")[0]
    sc = smtlib.Script(script)
    # clauses of the run, as sets of (term, neg) in the script's table
    sid0 = next((s for s in tr.order if tr.solvers[s].logic is not None and s in tr.ms_of), None)
    if sid0 is None:
        return res
    S = tr.solvers[sid0]
    tt = tr.logics[S.logic]
    cache = {}
    def lits_of(clause):
        out_ = []
        for l in clause:
            t = termeval.import_trace_term(sc.table, tt, S.varmap[abs(l)], cache)
            out_.append((t, l < 0))
        return frozenset(out_)
    inputs, theory, frame_var_term = [], set(), {}
    active, k = [], -1
    proofs = []            # per check: (active frames snapshot, set of input clauses so far with frames, theory clauses so far)
    events = tr.merged(sid0)
    snap = {}
    for e in events:
        if e[1] == "I":
            try:
                inputs.append((e[5], lits_of(e[4])))
                if e[5] != 0:
                    frame_var_term[e[5]] = termeval.import_trace_term(sc.table, tt, e[3], cache)
            except KeyError:
                pass
        elif e[1] == "TH":
            try:
                theory.add(lits_of(e[3]))
            except KeyError:
                pass
        elif e[1] == "fr":
            if e[3] == "push":
                active.append(e[4])
            elif active:
                active.pop()
        elif e[1] == "res":
            k += 1
            snap[k] = (list(active), list(inputs), set(theory))
    k = -1
    for i, l in enumerate(lines):
        if l == "(get-proof)" and i > 0 and lines[i - 1] != "(check-sat)":
            o = outs[i]
            if not (isinstance(o, list) and o and smtlib.sym(o[0]) == "error"):
                res["problems"].append({"what": f"`(get-proof)` after `{lines[i - 1]}` prints a proof although the assertion stack changed since the last "
                                                f"check-sat (a refutation of assertions that are no longer current)", "proof": str(o)[:400]})
        if l == "(check-sat)":
            k += 1
            if smtlib.sym(outs[i]) != "unsat" or i + 1 >= len(lines) or lines[i + 1] != "(get-proof)":
                continue
            res["proofs"] += 1
            try:
                act, inps, ths = snap.get(k, ([], [], set()))
                steps, root, names = parse_proof(sc.table, outs[i + 1], known={cl for _, cl in inps} | ths)
            except smtlib.ParseError as e:
                res["problems"].append({"what": f"check #{k}: printed proof is not well formed: {e}", "proof": str(outs[i + 1])[:600]}); continue
            plines = sc.table.lean_lines()
            for s in steps:
                if s[0] == "leaf":
                    plines.append("LEAF " + " ".join(f"{t} {1 if n else 0}" for t, n in s[1]))
                else:
                    plines.append(f"CHAIN {s[1]} " + " ".join(f"{j} {p}" for j, p in s[2]))
            plines.append(f"ROOT {root}")
            pp = common.WORK / f"c10-{os.getpid()}.in"
            pp.write_text("\n".join(plines) + "\n")
            verdict = common.sh([str(common.model_exe()), "proof", str(pp)]).stdout.strip().split("\n")[-1]
            pp.unlink(missing_ok=True)
            res["steps"] += len(steps)
            if verdict != "OK":
                res["problems"].append({"what": f"check #{k}: the Lean proof checker rejects the printed proof: {verdict}",
                                        "proof": str(outs[i + 1])[:800]}); continue
            act, inps, ths = snap.get(k, ([], [], set()))
            for s in steps:
                if s[0] != "leaf":
                    continue
                res["leaves"] += 1
                c = frozenset(s[1])
                ok = any(f in ([0] + act) and c == cl for f, cl in inps) or c in ths
                if not ok and len(c) == 1:
                    (t, neg), = c
                    ok = neg and any(frame_var_term.get(f) == t for f in act)          # activation of an active level
                if not ok:
                    stale = any(c == cl for f, cl in inps)
                    res["problems"].append({"what": f"check #{k}: a leaf of the printed proof is "
                                            + ("a clause of a level that is not active" if stale else "neither an input clause of an active level nor a theory clause of this run"),
                                            "leaf": [(sc.table.nodes[t][0], n) for t, n in s[1]]})
                    break
    bad = [v for v in accepted.values() if not v.startswith("OK")]
    if bad and res["proofs"]:
        res["problems"].append({"what": f"the trace of the run is not accepted by the Lean machine: {bad[0]}"})
    return res


def run(tier):
    chk = common.Check("C10", tier)
    chk.lean_obligations(THEOREMS)
    binary = common.opensmt_bin("hooks")
    n = 150 if tier == "quick" else 3000
    with mp.Pool(min(common.JOBS, 14)) as pool:
        corpus = sorted(str(f) for f in (common.VERIF / "corpus" / "C10").glob("*.smt2"))
        results = pool.map(run_case, [(i, chk.seed, binary) for i in corpus + list(range(n))], chunksize=2)
    proofs = steps = leaves = 0
    for r in results:
        proofs += r["proofs"]; steps += r["steps"]; leaves += r["leaves"]
        chk.case(key=(r["idx"], r["proofs"], r["steps"]), nontrivial=r["proofs"] > 0,
                 sample={"logic": r["logic"], "proofs": r["proofs"], "steps": r["steps"]} if r["proofs"] else None)
        chk.obligation(not r["problems"])
        if r["proofs"]:
            chk.cov["traces_validated_against_impl"] += 1
        for pr in r["problems"][:1]:
            chk.violation("proof", f"{pr['what']} ({r['logic']})", {"script": r["script"], "problem": pr})
    chk.assumptions = ["theory leaves are accepted when they are theory clauses of the traced run; their validity is certified by the "
                       "LA/EUF kernels through acceptance of the whole trace", "input leaves are related to their root formulas by C01's inputOk"]
    return chk.finish(rule="one case = one history with :produce-proofs and (get-proof) after every check; non-trivial = at least one "
                           "proof printed; every proof is parsed, replayed by the Lean checker, and its leaves matched against the "
                           "clauses of the traced run per active level",
                      extra={"proofs_checked": proofs, "proof_steps": steps, "leaves_matched": leaves})
