"""C13: the roots handed to the search engine vs the asserted formulas of the active levels: every model of the roots
must satisfy the assertions, and every model of the assertions must extend (over the auxiliary symbols) to a model of
the roots. Models are proposed by z3 (untrusted) and every one of them is validated by the Lean evaluator."""
import multiprocessing as mp, os, random, subprocess
from fractions import Fraction
import common, gen, runner, trace, smtlib, extsolve, certify
from c14 import RichProblem

THEOREMS = ["Osmt.Properties.C13_subst_eval", "Osmt.Properties.C13_subst_equiv", "Osmt.Properties.C13_distinct_expand",
            "Osmt.Properties.C13_eq_split", "Osmt.Properties.C13_divmod_axioms", "Osmt.Properties.C13_ite_definition", "Osmt.Properties.C13_extension_wf", "Osmt.Properties.C13_flatten_and", "Osmt.Properties.C13_flatten_or",
            "Osmt.Properties.C13_transitivity_fact_valid"]
LOGICS = ["QF_BOOL", "QF_LRA", "QF_LIA", "QF_UF", "QF_RDL", "QF_IDL", "QF_LIA", "QF_UFLRA", "QF_LRA", "QF_UF", "QF_UFLIA"]


def z3_model(decls, asserts, timeout=8):
    script = "\n".join(decls + [f"(assert {a})" for a in asserts] + ["(check-sat)", "(get-model)"]) + "\n"
    out = extsolve.z3_run(script, timeout)
    head = out.lstrip().split("\n", 1)[0].strip()
    if head != "sat":
        return head, None
    try:
        sx = smtlib.parse_sexps(out.split("\n", 1)[1])
    except smtlib.ParseError:
        return "sat", None
    model = {}
    items = sx[0] if sx and isinstance(sx[0], list) else []
    if items and smtlib.sym(items[0]) == "model":
        items = items[1:]
    tb = smtlib.Table()
    for d in items:
        if not isinstance(d, list) or smtlib.sym(d[0]) != "define-fun" or d[2]:
            continue
        try:
            t = tb.term(d[4])
        except smtlib.ParseError:
            continue
        op = tb.nodes[t][0]
        if op == "tru": model[smtlib.sym(d[1])] = True
        elif op == "fls": model[smtlib.sym(d[1])] = False
        elif op.startswith("num:"): model[smtlib.sym(d[1])] = Fraction(op[4:])
    return "sat", model


def lean_eval_trace_terms(tt, model, term_ids):
    """evaluate trace terms under a model {symbol name: value} (constants only); symbols without a value get the default"""
    lines = tt.lean_lines()
    nxt = len(tt.nodes)
    defs = []
    for (name, st, ar), k in tt.decl.items():
        if ar != 0 or name not in model:
            continue
        v = model[name]
        if st == "B":
            lines.append(f"T {nxt} {'tru' if v else 'fls'} ")
        else:
            lines.append(f"T {nxt} num:{Fraction(v)} ")
        defs.append(f"DEF {k} {st} 0 {nxt}")
        nxt += 1
    lines += defs + [f"E {t}" for t in term_ids]
    p = common.WORK / f"c13-{os.getpid()}.in"
    p.write_text("\n".join(lines) + "\n")
    r = common.sh([str(common.model_exe()), "model", str(p)])
    p.unlink(missing_ok=True)
    return r.stdout.split()


def z3_validated_model(decls, logic_line, texts, extra_eval=()):
    """ask z3 for a model of `texts` and validate it with the Lean evaluator; True / False (z3 has no model) / None"""
    import re, modelcheck
    script = "\n".join(["(set-logic ALL)"] + [d for d in decls] + [f"(assert {t})" for t in texts] + ["(check-sat)", "(get-model)"]) + "\n"
    out = extsolve.z3_run(script, 10)
    head = out.lstrip().split("\n", 1)[0].strip()
    if head == "unsat":
        return False
    if head != "sat":
        return None
    body = re.sub(r"([A-Za-z_][A-Za-z0-9_]*)!val!(\d+)", r"(as @\2 \1)", out.split("\n", 1)[1])
    try:
        sx = smtlib.parse_sexps(body)[0]
        sx = [d for d in sx if isinstance(d, list) and smtlib.sym(d[0]) == "define-fun"]
        sc = smtlib.Script("\n".join([logic_line] + list(decls) + [f"(assert {t})" for t in texts]) + "\n")
        ids = [a for name, a in sc.commands if name == "assert"]
        ids = [a[0] if isinstance(a, tuple) else a for a in ids]
        defs, probs = smtlib.parse_model(sc.table, sx)
        if probs:
            return None
        vals = modelcheck.lean_eval(sc.table, list(sc.table.abstract.items()), defs, ids)
    except Exception:
        return None
    return True if len(vals) == len(ids) + 1 and all(v == "b:true" for v in vals[:-1]) and vals[-1] == "wf" else None


def value_smt(v, sort):
    if isinstance(v, bool):
        return "true" if v else "false"
    return gen.num_smt(Fraction(v), "Real" if sort == "R" else "Int")


def run_case(args):
    idx, seed, binary = args
    if isinstance(idx, str):
        return compare(idx, "corpus", [], open(idx).read(), binary,
                       next(l for l in open(idx).read().split("\n") if l.startswith("(set-logic")))
    rng = random.Random(f"c13-{seed}-{idx}")
    logic = LOGICS[idx % len(LOGICS)]
    opts = [[], [":do-substitutions false"], [":produce-interpolants true"], [":produce-unsat-cores true"]][idx % 4]
    p = RichProblem(logic, rng) if idx % 2 == 0 else gen.Problem(logic, rng)
    lines = [f"(set-option {o})" for o in opts] + [p.set_logic()] + p.decls
    depth = 0

    def fla():
        f = p.fla(rng.randint(1, 3))
        c = rng.random()
        if c < 0.3 and p.nums:                     # equalities that preprocessing turns into substitutions
            x = rng.choice(p.nums)
            f = ("app", "=", "Bool", [x, p.nterm(2)])
        elif c < 0.4:                              # Boolean units / definitions
            b = rng.choice(p.bools)
            f = b if c < 0.33 else (("app", "not", "Bool", [b]) if c < 0.36 else ("app", "=", "Bool", [b, p.fla(1)]))
        elif c < 0.45:
            f = ("var", "true", "Bool")
        elif c < 0.6 and p.S == "U" and len(p.nums) >= 3:
            # disjunctions of equality chains (what the transitivity learner looks at), full and half diamonds
            def eq(a, b):
                return ("app", "=", "Bool", [a, b])
            pool = p.nums + [("uf", "f", "U", [v]) for v in p.nums[:2]] if p.uf else p.nums
            a, b, d = rng.sample(pool, 3)
            e, g = rng.choice(pool), rng.choice(pool)
            second = rng.choice([[eq(a, e), eq(e, d)], [eq(g, e), eq(e, a)], [eq(d, e), eq(e, g)]])
            f = ("app", "or", "Bool", [("app", "and", "Bool", [eq(a, b), eq(b, d)]), ("app", "and", "Bool", second)])
            if rng.random() < 0.5:
                lines.append(f"(assert (not {gen.smt(eq(a, d))}))")
        return f

    for _ in range(rng.randint(6, 16)):
        c = rng.random()
        if c < 0.10 and depth < 3:
            lines.append("(push 1)"); depth += 1
        elif c < 0.18 and depth > 0:
            lines.append("(pop 1)"); depth -= 1
        elif c < 0.24 and depth < 3:
            # an empty or unchecked frame, then a checked frame that is popped, then a fresh frame over the same symbols
            lines += ["(push 1)"] + ([f"(assert {gen.smt(fla())})"] if rng.random() < 0.5 else []) + ["(pop 1)"]
            lines += ["(push 1)", f"(assert {gen.smt(fla())})", "(check-sat)", "(pop 1)"]
            lines += ["(push 1)", f"(assert {gen.smt(fla())})"]; depth += 1
        elif c < 0.82:
            lines.append(f"(assert {gen.smt(fla())})")
        else:
            lines.append("(check-sat)")
    lines.append("(check-sat)")
    script = "\n".join(lines) + "\n"
    return compare(idx, logic, opts, script, binary, p.set_logic())


def compare(idx, logic, opts, script, binary, logic_line):
    tp = common.WORK / f"c13-{os.getpid()}.trace"
    tp.unlink(missing_ok=True)
    out, err, rc = runner.run_opensmt(binary, script, tp, timeout=20)
    res = {"idx": idx, "logic": logic, "options": opts, "script": script, "problems": [], "checks": 0, "models": 0, "skipped": 0,
           "stats": {}}
    if rc == "timeout" or not tp.exists():
        return res
    tr = trace.Trace(tp)
    tp.unlink(missing_ok=True)
    sid = next((s for s in tr.order if tr.solvers[s].logic is not None and s in tr.ms_of), None)
    if sid is None:
        return res
    S = tr.solvers[sid]
    tt = tr.logics[S.logic]
    decls = tt.declarations()
    levels, active = [[]], []
    roots = {}                 # frame id -> list of root term idx
    seen_pairs = set()

    def decide(texts):
        v = certify.verdict(decls, texts, logic_line, binary)
        res["stats"][v] = res["stats"].get(v, 0) + 1
        return v

    for e in tr.merged(sid):
        if e[1] == "as":
            while len(levels) <= e[3]:
                levels.append([])
            levels[e[3]].append(e[5])
        elif e[1] == "fr":
            if e[3] == "push":
                active.append(e[4]); levels.append([])
            else:
                if active: active.pop()
                if len(levels) > 1: levels.pop()
        elif e[1] == "I":
            roots.setdefault(e[5], [])
            if e[2] not in roots[e[5]]:
                roots[e[5]].append(e[2])
        elif e[1] == "res" and e[3] in ("sat", "unsat"):
            A = [t for lv in levels for t in lv]
            R = [t for f in [0] + active for t in roots.get(f, [])]
            key = (tuple(A), tuple(R))
            if not A or key in seen_pairs:
                continue
            seen_pairs.add(key)
            res["checks"] += 1
            Atxt, Rtxt = [tt.smt(t) for t in A], [tt.smt(t) for t in R]
            # (1) every model of the roots satisfies the assertions: look for a model of R and not A
            negA = "(not (and " + " ".join(Atxt) + " true))"
            v1 = decide(Rtxt + [negA])
            if v1 == "sat-certified":
                res["problems"].append({"what": "a model of the formula handed to the engine falsifies an asserted formula (the model "
                                        "of roots + not(assertions) printed by opensmt is validated by the Lean evaluator)",
                                        "roots": Rtxt[:8], "assertions": Atxt[:8], "kind": "model"})
                continue
            if v1.startswith("unsat"):
                res["models"] += 1
            # (2) the roots are satisfiable when the assertions are
            vA = decide(Atxt)
            if vA != "sat-certified" and z3_validated_model(decls, logic_line, Atxt) is True:
                res["stats"]["sat-by-z3-model-validated"] = res["stats"].get("sat-by-z3-model-validated", 0) + 1
                vA = "sat-certified"               # a model proposed by z3, validated by the Lean evaluator
            if vA == "sat-certified":
                vR = decide(Rtxt)
                if vR.startswith("unsat"):
                    z = extsolve.z3_run("\n".join(["(set-logic ALL)"] + decls + [f"(assert {r})" for r in Rtxt] + ["(check-sat)"]) + "\n", 10)
                    if z.strip().startswith("unsat"):
                        res["problems"].append({"what": f"the asserted formulas have a model (validated by the Lean evaluator) but the formula "
                                                f"handed to the engine is unsatisfiable ({vR}; z3 agrees)",
                                                "roots": Rtxt[:8], "assertions": Atxt[:8], "kind": "equisat"})
                        continue
                    res["skipped"] += 1
                elif vR == "sat-certified":
                    res["models"] += 1
                else:
                    res["skipped"] += 1
            elif not vA.startswith("unsat"):
                res["skipped"] += 1
    return res


def run(tier):
    chk = common.Check("C13", tier)
    chk.lean_obligations(THEOREMS)
    binary = common.opensmt_bin("hooks")
    n = 130 if tier == "quick" else 3000
    with mp.Pool(min(common.JOBS, 14)) as pool:
        corpus = sorted(str(f) for f in (common.VERIF / "corpus" / "C13").glob("*.smt2"))
        results = pool.map(run_case, [(i, chk.seed, binary) for i in corpus + list(range(n))], chunksize=2)
    checks = models = skipped = 0
    stats = {}
    for r in results:
        checks += r["checks"]; models += r["models"]; skipped += r["skipped"]
        for k, v in r["stats"].items():
            stats[k] = stats.get(k, 0) + v
        chk.case(key=(r["idx"], r["checks"], r["models"]), nontrivial=r["models"] > 0,
                 sample={"logic": r["logic"], "options": r["options"], "checks": r["checks"], "settled": r["models"]} if r["models"] else None)
        chk.obligation(not r["problems"])
        if r["checks"]:
            chk.cov["traces_validated_against_impl"] += 1
        for pr in r["problems"][:1]:
            chk.violation("preprocessing", f"{pr['what']} ({r['logic']} {r['options']})", {"script": r["script"], "problem": pr})
    chk.assumptions = ["a violation is reported only on a model validated by the Lean evaluator (roots + not assertions, or the assertions "
                       "alone with the roots refuted by opensmt and by z3); `unsat` verdicts mean that no counterexample was found",
                       "array logics are not in this corpus"]
    return chk.finish(rule="one case = one incremental history (substitution-friendly equalities, Boolean units, empty / unchecked / "
                           "popped frames; whole-frame and per-partition modes); at every check the conjunction R of the roots handed to "
                           "the engine for the active levels is compared with the asserted formulas A of those levels: R and not A must have "
                           "no model, and if A has a validated model R must be satisfiable; non-trivial = at least one comparison settled",
                      extra={"checks_compared": checks, "comparisons_settled": models, "inconclusive": skipped, "verdicts": stats})
