"""C25: asynchronous stop; shares the harness and the machinery of C24."""
import c24


def run(tier):
    return c24.run(tier, pid="C25")
