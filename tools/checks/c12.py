"""C12: every learnt / derived clause of every engine run is confirmed by RUP in the Lean machine."""
import common, engine

THEOREMS = ["Osmt.Properties.C12_rup_sound", "Osmt.Properties.C12_learnt_implied",
            "Osmt.Properties.C12_learn_accepts_only_rup", "Osmt.Cdcl.run_inv", "Osmt.rup_sound"]


def run(tier):
    chk = common.Check("C12", tier)
    chk.lean_obligations(THEOREMS)
    n, nbig = (200, 360) if tier == "quick" else (3000, 6000)
    cases = [engine.make_case(i, chk.seed, engine.LOGICS_KERNEL, engine.OPTION_VECTORS) for i in range(n)]
    cases += [engine.make_big_case(i, chk.seed) for i in range(nbig)]
    cases += [engine.make_steered_case(i, chk.seed) for i in range(120 if tier == "quick" else 3000)]
    results = engine.run_cases(cases, certify=False, timeout=10 if tier == "quick" else 30)
    learnt = timeouts = 0
    per = {}
    for c, r in zip(cases, results):
        key = (c["logic"], " ".join(c["options"]))
        if r["rc"] == "timeout":
            timeouts += 1
            continue
        ok = all(v.startswith("OK") for v in r["verdicts"])
        nl = sum(int(v.split("learnt=")[1].split()[0]) for v in r["verdicts"] if "learnt=" in v)
        learnt += nl
        per[key] = per.get(key, 0) + nl
        chk.case(key=(c["idx"], nl), nontrivial=nl > 2,
                 sample={"logic": c["logic"], "options": c["options"], "kind": c["kind"], "learnt_or_derived": nl,
                         "answers": r["answers"]} if nl > 2 else None)
        chk.cov["traces_validated_against_impl"] += len(r["verdicts"])
        chk.obligation(ok)
        if not ok:
            bad = [v for v in r["verdicts"] if not v.startswith("OK")][0]
            if "not-RUP" in bad or "unsat-not-confirmed" in bad or "trace" in bad or "driver" in bad:
                chk.violation("trace-refinement", f"{bad} ({c['logic']} {c['options']})",
                              {"script": c["script"], "options": c["options"], "lean_verdict": bad,
                               "failed_event": r.get("failed_line"), "impl_answers": r["answers"],
                               "how_to_replay": "run the hooks build of opensmt on `script` with OPENSMT_VERIF_TRACE set and "
                                                "feed the converted trace to `osmt-model smt`"})
            else:
                chk.discharged += 1      # failure of another property's acceptance (input / sat model): not C12's business
    chk.assumptions = ["theory clauses are taken as given here (their validity is C11)",
                       "hooks print the clauses the engine actually learnt (hook sites: search, handleUnsat, lookahead, "
                       "addOriginalSMTClause for SatELite resolvents, strengthenClause)"]
    return chk.finish(rule="one case = one generated script (single query or push/pop history) under one option vector, run "
                           "by the real engine; non-trivial = the run produced more than two learnt/derived clauses; distinct "
                           "by (case index, count)",
                      extra={"learnt_or_derived_clauses_checked": learnt, "timeouts": timeouts,
                             "by_logic_and_options": {f"{k[0]} {k[1]}": v for k, v in sorted(per.items())}})
