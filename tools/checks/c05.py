"""C05: no two configurations give contradicting definitive answers on the same assertions."""
import multiprocessing as mp, random
import common, gen, runner, extsolve

THEOREMS = ["Osmt.Properties.C05_no_contradiction", "Osmt.Properties.C05_unsat_vs_model",
            "Osmt.Properties.C01_unsat_roots", "Osmt.Properties.C02_validated_model"]
VECTORS = [
    [], [":random-seed 99"], [":pure-lookahead true"], [":picky true"], [":ghost-vars true"], [":incremental false"],
    [":produce-proofs true"], [":produce-interpolants true"], [":produce-unsat-cores true"], [":produce-models true"],
    [":produce-assignments true"], [":do-substitutions false"], [":luby-restart false", ":restart-first 3"],
    [":ccmin-mode 0"], [":ccmin-mode 1"],
]
EMBED = {"QF_IDL": ["QF_LIA", "QF_UFLIA"], "QF_RDL": ["QF_LRA", "QF_UFLRA"], "QF_UF": ["QF_UFLRA", "QF_UFLIA"],
         "QF_LRA": ["QF_UFLRA"], "QF_LIA": ["QF_UFLIA"], "QF_BOOL": ["QF_LRA", "QF_LIA"]}
LOGICS = ["QF_BOOL", "QF_UF", "QF_LRA", "QF_LIA", "QF_RDL", "QF_IDL", "QF_UFLRA", "QF_UFLIA"]


def variants(base_script, logic, rng, k):
    """the same commands under k option vectors and under the more expressive logics"""
    out = []
    vecs = [VECTORS[0]] + rng.sample(VECTORS[1:], k - 1)
    for v in vecs:
        single = base_script.count("(check-sat)") == 1 and "(push" not in base_script
        if ":incremental false" in v and not single:
            continue
        out.append((" ".join(v) or "default", "".join(f"(set-option {o})\n" for o in v) + base_script))
    decl = "QF_UF" if logic == "QF_BOOL" else logic
    for l2 in EMBED.get(logic, []):
        out.append((f"logic={l2}", base_script.replace(f"(set-logic {decl})", f"(set-logic {l2})")))
    return out


def run_case(args):
    idx, seed, binary, k, timeout = args
    if isinstance(idx, str):                       # corpus file: every option vector
        script = open(idx).read()
        rng = random.Random(f"c05-{seed}-{idx}")
        res = []
        for name, sc in variants(script, "corpus", rng, len(VECTORS)):
            out, err, rc = runner.run_opensmt(binary, sc, None, timeout=timeout)
            res.append((name, runner.answers(out) if rc != "timeout" else "timeout", sc))
        return {"idx": idx, "logic": "corpus", "script": script, "runs": res}
    if isinstance(idx, tuple):                     # difference-logic graph shapes under the logic and its embeddings only
        rng = random.Random(f"c05-dl-{seed}-{idx[1]}")
        logic = ["QF_IDL", "QF_RDL"][idx[1] % 2]
        p, a, script = [gen.dl_chain, gen.dl_chain, gen.dl_paths][idx[1] % 3](logic, rng)
        res = []
        for name, sc in [("default", script)] + [(f"logic={l2}", script.replace(f"(set-logic {logic})", f"(set-logic {l2})")) for l2 in EMBED[logic][:1]]:
            out, err, rc = runner.run_opensmt(binary, sc, None, timeout=timeout)
            res.append((name, runner.answers(out) if rc != "timeout" else "timeout", sc))
        return {"idx": f"dl{idx[1]}", "logic": logic, "script": script, "runs": res}
    rng = random.Random(f"c05-{seed}-{idx}")
    logic = LOGICS[idx % len(LOGICS)]
    fam = idx % 7
    if fam == 4 and logic in ("QF_IDL", "QF_RDL"):
        # dense conjunctions of difference constraints: the difference-logic solvers against the Simplex of the embedding logic
        p, a, script = rng.choice([gen.dl_conjunction, gen.dl_paths, gen.dl_chain])(logic, rng)
    elif fam == 5:
        # short clauses over few Boolean and theory atoms: propositional conflicts among theory atoms
        p, script, checks = gen.clausal_history(logic, rng, steps=rng.choice([None, 10]))
        if rng.random() < 0.5:                      # a single query: the same clauses without the history
            ls = [l for l in script.split("\n") if l and not l.startswith(("(push", "(pop", "(check-sat"))]
            script = "\n".join(ls + ["(check-sat)"]) + "\n"
    elif fam == 6:
        # functions and predicates with Boolean arguments (needs a logic with uninterpreted functions)
        import engine
        c = engine.make_boolarg_case(idx, seed)
        logic, script = c["logic"], c["script"]
    elif rng.random() < 0.3:
        p, script, checks = gen.history(logic, rng, big=(idx % 4 == 3))
    else:
        p, a, script = gen.single_query(logic, rng, big=(idx % 4 == 3))
    res = []
    for name, sc in variants(script, logic, rng, k):
        out, err, rc = runner.run_opensmt(binary, sc, None, timeout=timeout)
        res.append((name, runner.answers(out) if rc != "timeout" else "timeout", sc))
    return {"idx": idx, "logic": logic, "script": script, "runs": res}


def run(tier):
    chk = common.Check("C05", tier)
    chk.lean_obligations(THEOREMS)
    binary = common.opensmt_bin("hooks")
    n, k = (110, 7) if tier == "quick" else (2000, 15)
    with mp.Pool(min(common.JOBS, 14)) as pool:
        corpus = sorted(str(f) for f in (common.VERIF / "corpus" / "C05").glob("*.smt2"))
        results = pool.map(run_case, [(i, chk.seed, binary, k, 8 if tier == "quick" else 30) for i in corpus + list(range(n)) + [("dl", j) for j in range(300 if tier == "quick" else 6000)]], chunksize=2)
    runs = timeouts = pairs = 0
    for r in results:
        ans = [(nm, a) for nm, a, _ in r["runs"] if a != "timeout"]
        timeouts += sum(1 for _, a, _ in r["runs"] if a == "timeout")
        runs += len(ans)
        nchecks = max((len(a) for _, a in ans), default=0)
        contradiction = None
        for j in range(nchecks):
            col = {nm: a[j] for nm, a in ans if len(a) > j}
            sats = [nm for nm, x in col.items() if x == "sat"]
            unsats = [nm for nm, x in col.items() if x == "unsat"]
            pairs += len(col) * (len(col) - 1) // 2
            if sats and unsats:
                contradiction = (j, sats, unsats)
                break
        definitive = sum(1 for _, a in ans for x in a if x in ("sat", "unsat"))
        chk.case(key=(r["idx"], len(ans)), nontrivial=(len(ans) >= 3 or str(r["idx"]).startswith("dl")) and definitive > 0,
                 sample={"logic": r["logic"], "answers": {nm: a for nm, a in ans}} if len(ans) >= 3 else None)
        chk.obligation(contradiction is None)
        if contradiction:
            j, sats, unsats = contradiction
            ext = extsolve.verdict(r["script"]) if r["script"].count("(check-sat)") == 1 else "n/a"
            key = None
            if ext in ("sat", "unsat"):
                wrong = sats if ext == "unsat" else unsats
                if all("ghost-vars" in w for w in wrong):
                    key = "ghost-vars-wrong-answer"
                elif all("picky" in w for w in wrong):
                    key = "picky-wrong-answer"
            elif all("ghost-vars" in w for w in sats) or all("ghost-vars" in w for w in unsats):
                key = "ghost-vars-wrong-answer"
            chk.violation("contradiction", f"check #{j}: sat under {sats}, unsat under {unsats}; external verdict {ext} ({r['logic']})",
                          {"script": r["script"], "sat_configs": sats, "unsat_configs": unsats, "external_verdict": ext,
                           "all_answers": {nm: a for nm, a in ans}}, match_key=key)
    chk.assumptions = ["which side of a contradiction is wrong is decided by an external solver (untrusted) only to label the replay"]
    return chk.finish(rule="one case = one input run under k configurations (option vectors and more expressive logics); "
                           "non-trivial = at least three configurations answered and some answer is definitive",
                      extra={"runs": runs, "answer_pairs_compared": pairs, "timeouts": timeouts})
