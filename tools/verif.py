#!/usr/bin/env python3
"""Entry point: verif.py setup | check <Cxx> --tier quick|thorough | replay <Cxx> <file>"""
import argparse, importlib, json, os, sys, traceback
from pathlib import Path
sys.path.insert(0, str(Path(__file__).resolve().parent))
sys.path.insert(0, str(Path(__file__).resolve().parent / "checks"))
import common


def setup():
    common.WORK.mkdir(parents=True, exist_ok=True)
    ok, log = common.lean_build()
    print(log[-1500:])
    if not ok:
        print("setup: lake build failed")
        return 1
    common.build_repo("hooks")
    print("setup: ok")
    return 0


def main():
    ap = argparse.ArgumentParser()
    sub = ap.add_subparsers(dest="cmd", required=True)
    sub.add_parser("setup")
    c = sub.add_parser("check")
    c.add_argument("pid")
    c.add_argument("--tier", default=os.environ.get("VERIF_TIER", "quick"), choices=["quick", "thorough"])
    r = sub.add_parser("replay")
    r.add_argument("pid")
    r.add_argument("path")
    a = ap.parse_args()
    if a.cmd == "setup":
        return setup()
    common.WORK.mkdir(parents=True, exist_ok=True)
    # scratch files of cases that were interrupted or reported (kept for inspection) are dropped after two hours
    import time
    for f in common.WORK.iterdir():
        try:
            if f.is_file() and not f.name.startswith(".lock") and time.time() - f.stat().st_mtime > 7200:
                f.unlink()
        except OSError:
            pass
    mod = importlib.import_module(a.pid.lower())
    if a.cmd == "check":
        try:
            return mod.run(a.tier)
        except Exception:
            # one retry: a transient failure of the machinery (load, a concurrent build) must not become an alarm
            traceback.print_exc(file=sys.stderr)
            import time
            time.sleep(3)
        try:
            return mod.run(a.tier)
        except Exception:
            # machinery failure: report as a violation without input (the property is not shown to hold)
            traceback.print_exc()
            chk = common.Check(a.pid, a.tier)
            chk.obligation(False)
            chk.violation("machinery", "the check could not be completed: " + traceback.format_exc()[-1500:], {}, found_input=False)
            return chk.finish()
    if a.cmd == "replay":
        if hasattr(mod, "replay"):
            return mod.replay(a.path)
        print(Path(a.path).read_text())
        return 0


if __name__ == "__main__":
    sys.exit(main())
