#!/usr/bin/env python3
"""Re-runs every seeded change against the checks that are recorded as detecting it (seeded/*/meta.json) and reports which
still do. usage: sweep_seeded.py [--seed N]  (applies each patch to /repo, runs, reverts; /repo must be clean)"""
import json, re, subprocess, sys
from pathlib import Path
V = Path(__file__).resolve().parents[1]
seed = sys.argv[sys.argv.index("--seed") + 1] if "--seed" in sys.argv else "1"
rows = []
for m in sorted((V / "seeded").glob("*/meta.json")):
    d = json.load(open(m))
    checks = []
    for k, v in d.get("detected_by", {}).items():
        c = k.split()[0]
        if re.match(r"C\d\d$", c) and not v.lower().startswith("not detected"):
            checks.append(c)
    if not checks:
        checks = [d["property"]]
    r = subprocess.run(["python3-vt", str(V / "tools" / "selftest.py"), str(m.parent / "patch.diff")] + checks + ["--seed", seed],
                       capture_output=True, text=True)
    for line in r.stdout.splitlines():
        mm = re.match(r"(C\d\d) (\{.*)", line)
        if mm:
            res = json.loads(mm.group(2))
            rows.append((d["id"], mm.group(1), res["exit"], res["violations"]))
            print(d["id"], mm.group(1), "DETECTED" if res["exit"] == 1 else "MISSED", res["violations"], flush=True)
    if r.returncode or not r.stdout.strip():
        print(d["id"], "selftest problem:", (r.stdout + r.stderr)[-300:], flush=True)
json.dump(rows, open(V / "seeded" / f"sweep-seed{seed}.json", "w"), indent=1)
