"""Untrusted producer of certificates for the Lean LA kernel (`Osmt.LA.laClauseCheck`).
Mirrors `itemOf`/`linearize`/`tighten` only to know which constraints the kernel will see; the weights are
found with z3 as an exact LP solver. Nothing here is trusted: the Lean kernel re-checks the certificate."""
from fractions import Fraction
import math

try:
    import z3
except ImportError:          # pragma: no cover
    z3 = None


def lin_add(a, b, k=Fraction(1)):
    p = dict(a[0])
    for v, c in b[0].items():
        p[v] = p.get(v, Fraction(0)) + k * c
    return (p, a[1] + k * b[1])


def lin_scale(k, a):
    return ({v: k * c for v, c in a[0].items()}, k * a[1])


def is_const(a):
    return all(c == 0 for c in a[0].values())


def linearize(tt, idx):
    n = tt.nodes[idx]
    op = n.op
    if op.startswith("num:"):
        return ({}, Fraction(op[4:]))
    if op == "plus":
        r = ({}, Fraction(0))
        for a in n.args:
            r = lin_add(r, linearize(tt, a))
        return r
    if op == "times":
        return lin_prod(tt, list(n.args), idx)
    if op == "minus":
        if not n.args:
            return ({}, Fraction(0))
        if len(n.args) == 1:
            return lin_scale(Fraction(-1), linearize(tt, n.args[0]))
        r = linearize(tt, n.args[0])
        for a in n.args[1:]:
            r = lin_add(r, linearize(tt, a), Fraction(-1))
        return r
    return ({idx: Fraction(1)}, Fraction(0))


def lin_prod(tt, args, whole):
    if not args:
        return ({}, Fraction(1))
    a = linearize(tt, args[0])
    b = lin_prod(tt, args[1:], None)
    if is_const(a):
        return lin_scale(a[1], b)
    if is_const(b):
        return lin_scale(b[1], a)
    # non-linear: the kernel makes the (sub)product an unknown keyed by the term `times (t :: r)`; that term has
    # an index only when it is the whole product -- otherwise we cannot name it and give up on this clause
    if whole is None:
        raise ValueError("nonlinear")
    return ({whole: Fraction(1)}, Fraction(0))


def is_int_unknown(tt, idx):
    n = tt.nodes[idx]
    return n.op.startswith(("var:", "uf:")) and n.sort == "I"


def is_num(tt, idx):
    n = tt.nodes[idx]
    if n.op.startswith("num:") or n.op in ("plus", "times", "minus", "rdiv", "idiv", "imod"):
        return True
    if n.op.startswith(("var:", "uf:")):
        return n.sort in ("I", "R")
    if n.op == "ite" and len(n.args) == 3:
        return is_num(tt, n.args[1]) and is_num(tt, n.args[2])
    return False


def is_bool(tt, idx):
    n = tt.nodes[idx]
    if n.op in ("tru", "fls", "not", "and", "or", "xor", "imp", "eq", "distinct", "leq", "lt", "geq", "gt"):
        return True
    if n.op.startswith(("var:", "uf:")):
        return n.sort == "B"
    if n.op == "ite":
        return len(n.args) != 3 or (is_bool(tt, n.args[1]) and is_bool(tt, n.args[2]))
    return False


def tighten(tt, ineq):
    (p, k), strict = ineq
    if all(is_int_unknown(tt, v) and c.denominator == 1 for v, c in p.items()):
        if strict:
            return ((p, Fraction(math.ceil(k) - 1)), False)
        return ((p, Fraction(math.floor(k))), False)
    return ineq


def item_of(tt, atom, neg):
    """constraints contributed by the literal (atom, neg) being TRUE; mirrors Osmt.LA.itemOf"""
    n = tt.nodes[atom]
    if n.op in ("leq", "lt", "geq", "gt") and len(n.args) == 2:
        a, b = linearize(tt, n.args[0]), linearize(tt, n.args[1])
        amb, bma = lin_add(a, b, Fraction(-1)), lin_add(b, a, Fraction(-1))
        table = {("leq", False): (bma, False), ("leq", True): (amb, True),
                 ("lt", False): (bma, True), ("lt", True): (amb, False),
                 ("geq", False): (amb, False), ("geq", True): (bma, True),
                 ("gt", False): (amb, True), ("gt", True): (bma, False)}
        return ("conj", [tighten(tt, table[(n.op, neg)])])
    if n.op == "eq" and len(n.args) == 2:
        if is_bool(tt, n.args[0]) or is_bool(tt, n.args[1]):
            return ("skip",)
        a, b = linearize(tt, n.args[0]), linearize(tt, n.args[1])
        d1, d2 = lin_add(a, b, Fraction(-1)), lin_add(b, a, Fraction(-1))
        if neg:
            if is_num(tt, n.args[0]) and is_num(tt, n.args[1]):
                return ("disj", tighten(tt, (d1, True)), tighten(tt, (d2, True)))
            return ("skip",)
        return ("conj", [(d1, False), (d2, False)])
    return ("skip",)


def farkas(ineqs):
    """weights w_i >= 0 with sum w_i*p_i = 0 and sum w_i*k_i contradictory; None if not found"""
    if not ineqs:
        return None
    s = z3.Solver()
    s.set("timeout", 5000)
    ws = [z3.Real(f"w{i}") for i in range(len(ineqs))]
    unknowns = sorted({v for ((p, _), _) in ineqs for v in p})
    for w in ws:
        s.add(w >= 0)
    def q(fr):
        return z3.Q(fr.numerator, fr.denominator)
    for v in unknowns:
        s.add(z3.Sum([ws[i] * q(p.get(v, Fraction(0))) for i, ((p, _), _) in enumerate(ineqs)]) == 0)
    const = z3.Sum([ws[i] * q(k) for i, ((_, k), _) in enumerate(ineqs)])
    strict_pos = z3.Or([ws[i] > 0 for i, (_, st) in enumerate(ineqs) if st] + [z3.BoolVal(False)])
    s.add(z3.Or(const < 0, z3.And(const <= 0, strict_pos)))
    r = s.check()
    if r == z3.unknown:                 # wall-clock timeout on a loaded machine: a tiny LP, ask again with a generous limit
        s.set("timeout", 180000)
        r = s.check()
    if r != z3.sat:
        return None
    m = s.model()
    out = []
    for w in ws:
        v = m.eval(w, model_completion=True)
        out.append(Fraction(v.numerator_as_long(), v.denominator_as_long()))
    return out


def cert_for(tt, lits):
    """`lits`: list of (atom idx, negated?) of the CLAUSE. Returns certificate tokens or None."""
    try:
        items = [item_of(tt, a, not neg) for a, neg in lits]
    except ValueError:
        return None
    conj, disjs = [], []
    for it in items:
        if it[0] == "conj":
            conj += it[1]
        elif it[0] == "disj":
            disjs.append((it[1], it[2]))
    if len(disjs) > 6:
        return None
    def rec(conj, disjs):
        w = farkas(conj)
        if w is not None:
            return ["F", str(len(w))] + [str(x) for x in w]
        if not disjs:
            return None
        (a, b), rest = disjs[0], disjs[1:]
        lo = rec([a] + conj, rest)
        if lo is None:
            return None
        hi = rec([b] + conj, rest)
        if hi is None:
            return None
        return ["S"] + lo + hi
    return rec(conj, disjs)
