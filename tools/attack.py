"""Attack on `unsat` answers: the Lean machine certifies the refutation of the formulas the front end built and preprocessed; whether
the accepted assertions as written have a model is asked of z3 (untrusted) and every proposed model is validated by the Lean
evaluator.  A validated model together with an `unsat` answer is a violation whatever went wrong in between."""
import sys
from pathlib import Path
sys.path.insert(0, str(Path(__file__).resolve().parent / "checks"))
import smtlib, modelcheck


def models_against_unsat(script, stdout, limit=3):
    """-> list of {"what", "assertions", "check"} (one per refuted unsat answer, at most `limit` answers are attacked)"""
    import c13
    problems = []
    sxs = smtlib.parse_sexps(script)
    sc = smtlib.Script(script)
    if ":print-success true" in script:
        al, extra = modelcheck.align_outputs(sc, stdout)
        if al is None:
            return problems
        rejected = {i for i, name, o in al if modelcheck.is_error(o)}
        answer_of = {i: smtlib.sym(o) for i, name, o in al if name == "check-sat" and o is not None and not isinstance(o, list)}
    else:
        # without print-success only the check-sat answers can be told apart; a script with an error response is left alone
        if "(error" in stdout:
            return problems
        answers = [l.strip() for l in stdout.split("\n") if l.strip() in ("sat", "unsat", "unknown")]
        idxs = [i for i, sx in enumerate(sxs) if smtlib.sym(sx[0]) == "check-sat"]
        if len(answers) != len(idxs):
            return problems
        rejected, answer_of = set(), dict(zip(idxs, answers))
    decls, stack, logic_line, attacked, nchk = [], [[]], None, 0, -1
    for i, sx in enumerate(sxs):
        name = smtlib.sym(sx[0])
        if name == "set-logic":
            logic_line = smtlib.unparse(sx)
        if name == "check-sat":
            nchk += 1
        if i in rejected and name != "check-sat":
            continue
        if name in ("declare-fun", "declare-const", "declare-sort"):
            decls.append(smtlib.unparse(sx))
        elif name == "assert":
            stack[-1].append(smtlib.unparse(sx[1]))
        elif name == "push":
            stack += [[] for _ in range(int(smtlib.sym(sx[1])) if len(sx) > 1 else 1)]
        elif name == "pop":
            for _ in range(int(smtlib.sym(sx[1])) if len(sx) > 1 else 1):
                if len(stack) > 1:
                    stack.pop()
        elif name == "check-sat" and answer_of.get(i) == "unsat" and attacked < limit:
            attacked += 1
            texts = [t for fr in stack for t in fr]
            if texts and c13.z3_validated_model(decls, logic_line, texts) is True:
                problems.append({"what": "an unsat answer although the accepted assertions have a model (proposed by z3, validated by the Lean evaluator)",
                                 "assertions": texts, "check": nchk})
    return problems
