#!/usr/bin/env python3
"""Writes /verif/MANIFEST.json from the table below (run after changing which properties are claimed)."""
import json
from pathlib import Path
VERIF = Path(__file__).resolve().parents[1]

TB = ("Trusted: Lean 4.33 kernel with axioms propext/Classical.choice/Quot.sound only (audited each run); the Lean "
      "statements (Osmt/Term.lean semantics, OsmtProofs/Properties); the tie = guarded hooks in /repo + /verif/tools "
      "(trace conversion, generators, certificate producers are untrusted, their output is checked by Lean kernels) + "
      "/verif/harness. Modelled, not verified: the engines themselves (decision heuristics, watches, allocator) are the "
      "nondeterminism of the abstract machine; the theorem holds for every accepted event sequence and transfers to "
      "unexplored runs of the C++ only through the sampled trace refinement.")

CLAIMS = {
    "C12": dict(
        technique="Lean 4 proof (RUP soundness + clause-learning machine invariant) tied by trace refinement of the real engines",
        text="Theorems: rup_sound, Cdcl.run_inv / Smt.learnt_implied (every database clause of every accepted event "
             "sequence is implied by the input and theory clauses), proved for all sequences. Tie: every learnt, derived "
             "(SatELite resolvent, strengthening) and unit clause of every traced run of the real engines (CDCL, lookahead, "
             "picky; proof tracking on/off; incremental histories) is replayed through the proved executable step function; "
             "a clause that is not RUP at that moment is rejected with the script as replay.",
        design_ref="5 C12, 4 Prop/Cdcl"),
    "C08": dict(
        technique="Lean 4 proof (soundness of the SMT-level checker + labelled interpolation systems + Farkas interpolants) tied by certified re-decision of every printed interpolant",
        text="Theorems: Smt.unsat_sound (a trace accepted by the executable checker makes the traced assertions unsatisfiable), "
             "C08_certified_split (two such refutations are Craig's conditions), the labelled-interpolation-system theorem (for "
             "every refutation and every labelling, McMillan/Pudlak/McMillan'/proof-sensitive included, the root partial "
             "interpolant is implied by A, inconsistent with B, and over shared variables; leaves may be theory lemmas that carry a "
             "partial interpolant meeting the two leaf conditions) and the Farkas / dual Farkas "
             "interpolant theorems. Tie: for generated incremental scripts over QF_UF/QF_LRA/QF_LIA with named assertions, all "
             "interpolation algorithms, strength factors, proof reduction and simplification levels, every printed interpolant of "
             "random groupings is re-decided: A+not I and I+B must be refuted by a fresh run whose trace the Lean machine "
             "accepts (LA and EUF lemmas kernel-checked), and its symbols must be shared; a rejected legal request is a "
             "violation; two more families run through the same re-decision: larger propositional refutations (random 3-CNF above the "
             "threshold, all six Boolean algorithms, with and without proof reduction) and EUF problems built from congruence "
             "closure (all three EUF algorithms). Mirror: on propositional instances with :produce-proofs, the printed proof, the partition of its leaves "
             "and the labelling system (McMillan, Pudlak, McMillan') are given to the Lean model of the labelled interpolation "
             "systems; after its executable well-formedness check the model's root interpolant must be logically equal (all "
             "assignments) to the printed interpolant. Partial: the proof-sensitive systems, the theory interpolants (EUF, "
             "Farkas variants as implemented) and proof reduction are covered by the certified re-decision only.",
        design_ref="5 C08"),
    "C09": dict(
        technique="Lean 4 proof (path property of labelled interpolation systems for two consecutive cuts of one refutation; checker soundness; step condition from certified refutations) tied by a two-cut mirror of the printed proof and by certified re-decision of every printed interpolant sequence",
        text="Theorem C09_labelled_path_step: for every resolution refutation labelled for two consecutive cuts with labels that fit "
             "(pairOK; system_pairOK proves McMillan, Pudlak and McMillan' fit), I_j and the middle group imply I_(j+1); theory lemmas "
             "enter as leaves with a pair of partial interpolants that meet the two-cut leaf condition. Tie: (1) as "
             "C08 for requests with 3-5 groups: every member is re-decided as a Craig interpolant of its cumulative split and "
             "I_j + G_(j+1) + not I_(j+1) must be refuted by a run the Lean machine accepts (C09_path_from_splits); (2) mirror: on "
             "propositional instances the printed proof with its leaves assigned to the groups is labelled for both cuts around "
             "every middle group by the Lean model, which checks the hypotheses of the theorem (labelsOK, structOk, empty root) and "
             "computes both interpolants; they must be logically equal to the two printed ones. C09_farkas_path_leaf: the same step for "
             "the Farkas interpolants of an arithmetic conflict (not composed with the resolution part). Partial: proof-sensitive labelling "
             "systems, theory interpolants and proof reduction are covered by the certified re-decision only.",
        design_ref="5 C09"),
    "C17": dict(
        technique="Lean 4 proof (name printing: printed symbols read back as the same name; quoting happens exactly where needed) tied by a mirror of Logic::protectName and by re-reading every printed object with two readers",
        text="Theorems: for every name without bars and backslashes the printed form is a symbol token that reads back as that "
             "name, and a name printed between bars would not read back as itself if printed bare. Tie: (1) Logic::protectName "
             "against its Lean mirror on thousands of generated names; (2) scripts whose symbols carry awkward names (quoted, with "
             "spaces, parentheses, semicolons, quotes, tabs; keywords; digit-first and number-like; names that look like the "
             "solver's own): the printed model and get-value answer are read back by this project's reader (Lean evaluator: the "
             "assertions hold, the values agree) and by opensmt itself (definitions instead of declarations: the assertions "
             "and the printed values are satisfied), printed full cores must be unsatisfiable when read back (opensmt and z3), "
             "printed interpolants must be readable, dumped queries must get the same answer from opensmt and z3; (3) incremental "
             "histories in which one name is declared with two sorts (full cores, values of qualified terms, dumped queries must "
             "read back with both declarations present). Partial: "
             "abstract values of uninterpreted sorts are read back by this project's reader only.",
        design_ref="5 C17"),
    "C18": dict(
        technique="Lean 4 proof (exit-status machine: status 0 iff no error response; chunk-independent framing of pipe input) tied by mutation fuzzing of the executable on a sanitizer build - partial",
        text="PARTIAL: crash freedom, memory safety and termination are searched for by fuzzing on a sanitizer build and are not "
             "proved; what is proved is the reporting contract. Theorems: in the exit-status machine the exit status is 0 exactly "
             "when no error response was printed (C18_exit_zero_iff_no_error); the command frames of pipe input do not depend on how the bytes arrive. Tie and "
             "search: generated scripts (11 logics, options, queries in wrong modes, division by zero, non-linear terms, arrays, "
             "bit-vectors) and files of /repo/test/regression are mutated (byte deletion / insertion / flip, truncation, token and "
             "line swaps, dropped declarations, huge numerals, deep nesting, awkward tokens such as %s / 007 / qualified identifiers, "
             "dropped or repeated arguments, attribute values, text after the last command, CRLF, commands and their options before "
             "set-logic or after a refused set-logic, a name declared with two sorts) and run as a file and through a pipe on the "
             "ASan+UBSan build: status must be 0 or 1 with no sanitizer report and no timeout on scripts without check-sat, the "
             "status must be 0 exactly when no diagnostic was printed, lexically broken input and text after the last command must "
             "get a diagnostic.",
        design_ref="5 C18"),
    "C19": dict(
        technique="Lean 4 proof (front-end command machine: a rejected command is the identity; scripts equal their accepted sub-scripts) tied by differential runs of the executable with and without rejected commands and by comparison with the machine",
        text="Theorems: for every state and command of the front-end machine (flags, assertion levels, scoped names including "
             "names given inside terms, declarations, the record of accepted assertions) a command answered with an error returns "
             "the state unchanged; inserting a rejected command anywhere in any script changes no other response and not the "
             "final state; a script is equivalent to its accepted commands. Tie: generated legal incremental scripts (models or "
             "cores flavour) with rejected commands inserted (non-Bool, ill-sorted and unresolvable assertions, duplicate names, "
             "fresh inner names inside rejected assertions, pops beyond the stack): the executable is run with and without them "
             "and must give the same check-sat answers and success/error responses, and models / cores that are valid for the "
             "script without them; its accept/reject pattern and the number of active assertions per check must match the "
             "machine; in the interpolation flavour every interpolant printed after rejected commands is re-decided as a Craig "
             "interpolant of the script without them. Partial: declarations, define-fun and option commands are not among the "
             "inserted commands.",
        design_ref="5 C19"),
    "C22": dict(
        technique="Lean 4 proof (LA and EUF clause kernels: a certified clause is valid, so its negated literals are jointly unsatisfiable) tied by certification of every verdict of the theory solvers on random assert / check / backtrack sequences",
        text="Theorems: C22_conflict_certified and C22_consistency_refuted (from laClauseCheck_sound / eufClauseCheck_sound): a set "
             "of asserted literals whose clause of negations passes a kernel has no model. Tie: a harness linked against the current "
             "tree drives LASolver (reals and integers), IDLSolver, RDLSolver and the E-graph through random sequences of "
             "declare / assert / check / backtrack operations (half of them in the engine's protocol, where every assertion is "
             "followed by a check); every reported inconsistency must consist of currently asserted literals and be certified "
             "by a kernel; every `consistent` verdict of a complete check is attacked by the certificate producers and is a "
             "violation when a kernel certifies the asserted literals inconsistent; for the LA solver the values of its own model are "
             "evaluated by the Lean evaluator on the asserted literals (counted as confirmations). 40% of the LA sequences end with "
             "a bound ladder (several bounds on one row term, declared, asserted and retracted at different moments, then bounds "
             "on the summands). Partial: consistency verdicts of the other solvers are only refuted, not confirmed; the array "
             "solver is not driven.",
        design_ref="5 C22"),
    "C23": dict(
        technique="Lean 4 proof (the pseudo-random generator is a pure function of the seed with state in [1, m-1] and draws below the size) tied by a mirror of common/Random.h and by repeated runs of the executable with address-space randomisation on and off - partial",
        text="PARTIAL: reproducibility of whole runs is compared, not proved. Theorems: the generator's state never leaves "
             "[1, 2^31-2] (never 0), draws stay below the requested size, the stream is a function of the seed. Tie: "
             "Random.h's drand/irand against the Lean mirror on thousands of seeds and sizes (identical state and draw "
             "sequences, which also shows the double arithmetic exact there); every generated script x option vector "
             "(seeds, engines, models, cores, proofs, interpolants, non-incremental) is run three times - ASLR on, on, off "
             "(setarch -R) - and standard output and exit status must be byte-identical; so are interpolation requests under every "
             "interpolation algorithm (EUF problems built from congruence closure, the random EUF algorithm included) and scripts "
             "with rejected commands over long names (text of diagnostics).",
        design_ref="5 C23"),
    "C24": dict(
        technique="Lean 4 proof (pool machine of the shared big-rational pool: a cell handed out is never in use, invariant kept by alloc and release, in every interleaving of any number of threads no cell has two holders) tied by concurrent runs under ThreadSanitizer compared with runs alone - partial",
        text="PARTIAL: absence of data races and memory errors is searched for, not proved. Theorems: in the pool machine (what the "
             "mutex-protected mpqPool executes) alloc never returns a cell that is in use and alloc / release keep the invariant "
             "that every cell is free or in use, never both; lifted to every schedule (any list of alloc / release steps of any "
             "number of threads from the empty pool, a thread releasing only a cell it holds) the invariant holds, no cell is held "
             "by two threads at once and the next cell handed out has no holder. Tie: a harness linked against a ThreadSanitizer build solves 2-8 "
             "random LRA/LIA instances with coefficients of 2^70 at the same time (one solver, logic and config per thread) and "
             "compares every answer with the answer of the same instance alone; seeded sequences of FastRational operations (lcm, "
             "gcd, division, rounding on 20-45 digit numbers) run in 2, 4 and 8 threads at once and their digests are compared "
             "with the same sequences alone; any ThreadSanitizer report or differing answer "
             "is a violation.",
        design_ref="5 C24"),
    "C25": dict(
        technique="Lean 4 proof (restart loop with a stop flag: the stopped run answers unknown or what the undisturbed run answers) tied by stop requests at random moments of real runs under ThreadSanitizer - partial",
        text="PARTIAL: absence of data races and crashes is searched for, not proved. Theorems: for every search behaviour, "
             "every moment at which the request becomes visible and every bound, the loop answers unknown or exactly the "
             "answer of the run without the request; a request visible before the first round gives unknown; a definitive answer of a stopped run is the undisturbed "
             "answer; a request gives unknown when no earlier round decides; a later request disturbs no more than an earlier "
             "one; the same for the two-level loop (solve_ over search, flags polled before every round and in every "
             "iteration after propagate; a request visible at any poll of any round). Tie: the harness "
             "calls notifyStop / notifyGlobalStop from another thread after a random delay between zero and 1.5 times the "
             "solving time of the instance (measured on an undisturbed run; small big-coefficient arithmetic instances and, two "
             "rounds of three, planted 3-SAT instances near the threshold with many conflicts), requires unknown or the undisturbed "
             "answer, asks the same solver again afterwards (after a reset global request: the undisturbed answer), "
             "with no ThreadSanitizer report.",
        design_ref="5 C25"),
    "C28": dict(
        technique="Lean 4 proof (hash-consed store: interning is idempotent, identities are stable and injective, arguments are older, commutative symbols order-insensitive) tied by differential construction sequences through the Logic API",
        text="Theorems over every store reachable from the empty one and every node: building a node twice returns the same "
             "identity and leaves the store unchanged, earlier identities keep their nodes, different identities hold different "
             "nodes, every argument is older than its term, permuting the arguments of a commutative symbol gives the same "
             "result. Tie: random sequences of 20-80 constructions (constants, uninterpreted applications of arity 1-3, a predicate, "
             "equalities, conjunctions and disjunctions, with repetitions and permuted repetitions) are executed through Logic's "
             "constructors in a harness linked against the current tree and through the model; which results coincide with which "
             "earlier ones must agree, children must have smaller identities and new terms increasing Pterm ids; a second harness "
             "does the same under QF_UFLIA with integer variables, scaled variables, sums over pairwise different variables, "
             "equalities and exclusive ors. Partial: constructors that simplify their arguments (merging of addends, constant "
             "folding) are C14's subject, not modelled here.",
        design_ref="5 C28"),
    "C29": dict(
        technique="Lean 4 proof (checker soundness independent of the declared logic: accepted unsat traces refute the roots, validated models satisfy the assertions) tied by certification of every answer on out-of-logic scripts",
        text="Theorems: C29_unsat_certified (Smt.unsat_sound, stated over the SMT-LIB semantics of every readable term, Int symbols "
             "integral) and C29_sat_certified. Tie: 10 families of scripts that are well-sorted but outside their declared logic "
             "(sums, scaled variables, three variables, single variables under QF_IDL/QF_RDL/QF_UFIDL; non-linear products and "
             "division; Int symbols under QF_LRA, Real symbols under QF_LIA, mixed sorts; arithmetic under QF_UF; div/mod on reals), "
             "incremental, with get-model after every check: every unsat must be accepted by the Lean machine with kernel-checked "
             "theory lemmas and is attacked with a z3-proposed, Lean-validated model of the accepted assertions as written (the "
             "front end may have built other terms), every sat must come with a model the Lean evaluator validates on all accepted "
             "assertions; rejections are counted, abnormal termination is a violation. Further families: products with several "
             "sums and constants, uninterpreted functions under logics without them, symbols declared late (after the constants "
             "their normal forms need).",
        design_ref="5 C29"),
    "C30": dict(
        technique="Lean 4 proof (trail machine of the CDCL search loop: a base-3 reading of the trail grows with every decision, propagation and backjump, so a restart period has fewer than 3^n steps and a run under growing conflict limits is finite) tied by replaying the trail events of real runs on the machine, plus a time-limited search over engines and options - partial",
        text="PARTIAL: termination of the single steps (propagation, conflict analysis, Simplex pivoting, congruence closure, lemma "
             "generation), of the lookahead engines and the growth of the floating-point restart policy are searched for with a time "
             "limit, not proved. Theorems: C30_period_finite (a run of the trail machine without restart has fewer than 3^n steps, "
             "whatever clauses, theories and heuristics do), C30_run_finite (with conflict limits that reach 3^n every run from the "
             "empty trail has fewer than (i0+1)*3^n steps), C30_restart_needs_limit. Tie: guarded hooks make CoreSMTSolver emit every "
             "enqueue, truncation, conflict, restart and start of search(); the events of every run of generated non-integer "
             "scripts (histories, single queries, random 3-SAT, random difference constraints; several restart settings) are "
             "replayed by the executable machine: each must be a legal step (fresh variable, backjump onto the first literal of a "
             "decision level, restart only after the reported conflict limit with the same conflict count). Search: the same "
             "instances, which the reference solver decides at once, are run under engine and tracking options (lookahead, picky, "
             "ghost variables, proofs, cores, interpolants, non-incremental, restart settings) with a limit of 20 s, repeated alone "
             "with 90 s before a missing answer is reported.",
        design_ref="13 C30"),
    "C13": dict(
        technique="Lean 4 proof (preprocessing rewrites are equivalences / conservative extensions for every term and interpretation) tied by per-check comparison of assertions and engine roots with Lean-validated models",
        text="Theorems: substitution by equal-valued targets keeps every value; variable elimination by a definition is a "
             "conservative extension in both directions (the reconstruction direction included); distinct expansion, numeric "
             "equality split, and the div/mod and ite auxiliary definitions hold exactly for the value of the replaced term. "
             "Tie: at every check of generated incremental histories (substitutions on/off, interpolation / core modes) the "
             "conjunction of the roots handed to the engine for the active levels is compared with the asserted formulas: "
             "models of the roots (proposed by z3, validated by the Lean evaluator) must satisfy the assertions, and models "
             "of the assertions must extend over the auxiliary symbols to the roots. Partial: logics with uninterpreted "
             "functions are not in the corpus, and non-extension is reported on an uncertified z3 `unsat`.",
        design_ref="5 C13"),
    "C01": dict(
        technique="Lean 4 proof (SMT-level abstract machine: unsat soundness for all accepted event sequences) tied by trace refinement with kernel-checked theory clauses",
        text="Theorem Smt.unsat_sound: for every event sequence accepted by the executable step function (input clauses "
             "entailed by their root formula via three-valued evaluation, theory clauses certified by the LA/EUF kernels, "
             "learnt clauses RUP, final conflict by propagation under the frame assumptions) the roots of the enabled frames "
             "are unsatisfiable in every well-formed interpretation. Tie: every check-sat of every generated script/history "
             "x option vector x engine is traced and replayed; an unsat that the machine cannot confirm is a violation with the "
             "script as replay. Every certified unsat answer is also attacked from the other side: z3 proposes a model of the "
             "assertions as written, the Lean evaluator validates it; a validated model is a violation whatever front end and "
             "preprocessor did (tools/attack.py). Partial: the step roots -> user assertions is C13's theorem; array logics are "
             "outside the corpus.",
        design_ref="5 C01"),
    "C11": dict(
        technique="Lean 4 proof (soundness of LA/Farkas and EUF proof-checking kernels) applied to every theory clause of traced runs",
        text="Theorems laClauseCheck_sound (Farkas combination over Q, integer tightening, disequality splits) and "
             "eufClauseCheck_sound (equational proofs with congruence): an accepted clause is true in every well-formed "
             "interpretation, independently of the assertions. Tie: every conflict, propagation reason, root deduction, "
             "split and interface clause emitted by THandler in traced runs must be accepted with a certificate from an "
             "untrusted producer. Partial: array lemmas have no kernel (array logics not in the corpus).",
        design_ref="5 C11"),
    "C26": dict(
        technique="Lean 4 proof (Farkas certificate soundness) checked on the solver's own coefficients for every traced LA conflict",
        text="Theorem conflictCheck_sound: strictly positive coefficients, cancelling unknowns, contradictory constant => "
             "the bounds are unsatisfiable over Q (and Z with integer tightening). Tie: LASolver::storeExplanation's bounds "
             "and coefficients of every conflict in traced LRA/LIA/UFLRA/UFLIA runs go through the executable conflictCheck.",
        design_ref="5 C26"),
    "C02": dict(
        technique="Lean 4 proof (sat acceptance: roots evaluated from atom values; validated model is a model) tied by trace refinement and Lean evaluation of printed models",
        text="Theorems Smt.sat_sound (an accepted sat answer's Boolean model makes every root true from the atom values alone, "
             "no CNF encoding or variable elimination trusted) and C02_validated_model (a printed model under which the Lean "
             "evaluator makes every assertion true is a model). Tie: every sat answer of traced runs must be accepted; every "
             "printed model of a corpus with big constants / LIA / IDL emphasis is evaluated on all active assertions; sat answers "
             "of the difference-logic solvers on graph shapes (chains with longer direct edges, shortest-path bounds) are attacked by "
             "a refutation of the same assertions under the embedding logic that the Lean machine accepts. Partial: "
             "completeness of the theory solvers' final check is certified per run by the validated model, not proved; array "
             "logics are excluded.",
        design_ref="5 C02"),
    "C03": dict(
        technique="Lean 4 evaluator as specification (eval = SMT-LIB semantics) applied to every printed model, value and active assertion",
        text="The printed model is read as definitions with bodies and denotes Model.interp; theorem C03_model_satisfies: the "
             "executable check is exactly Sat. Tie: for every sat answer of generated scripts/histories the model must define "
             "every declared symbol, make every active assertion true, give constants values of their sort, and get-value must "
             "agree with it (one family has numeric variables that occur only under uninterpreted symbols next to variables with "
             "arithmetic values). Abstracted: value extraction inside Egraph/Simplex/STP (validated per run).",
        design_ref="5 C03"),
    "C05": dict(
        technique="Lean 4 proof (machine theorems quantify over all schedulers; unsat vs validated model contradiction) plus differential runs over configurations",
        text="Corollaries C05_unsat_vs_model / C05_no_contradiction of the C01/C02 machine theorems, which hold for every accepted "
             "event sequence whatever engine, seed, restart policy or tracking option produced it. Tie/search: each generated "
             "input is run under k option vectors (seed, lookahead, picky, ghost, SatELite, tracking, substitutions, restarts, "
             "ccmin) and under more expressive logics; any sat/unsat pair is a violation. Input families: random formulas and "
             "histories, short clauses over theory atoms, functions with Boolean arguments, dense difference constraints, and a "
             "batch of 300 difference-logic graph shapes run under the logic and its embedding; corpus/C05 runs under every vector.",
        design_ref="5 C05"),
    "C04": dict(
        technique="Lean 4 proof (frame-stack mirror: enabled_exact, active-set lemmas, all histories) tied by assumption comparison per check and incremental-vs-fresh differential runs",
        text="Theorems over the mirror of MainSolver's AssertionStack/frameTerms/solve_: for every push/pop/assert history the "
             "assumption vector enables exactly the frames on the stack and disables every other frame ever created; pop "
             "removes exactly the top frame's formulas. Tie: for every check-sat of generated histories the engine's actual "
             "assumptions (trace) must equal the Lean model's, every definitive answer must equal a fresh solver's answer on "
             "the active assertions, and the same history without get-model/get-value/get-unsat-core queries must give the "
             "same answers; one history family pushes, fills and pops sibling levels whose definitions contradict each other (some "
             "never checked, some asserted into after their last check). Partial: per-frame substitutions and the Preprocessor "
             "counters are not mirrored (covered only "
             "differentially).",
        design_ref="5 C04"),
    "C15": dict(
        technique="Lean 4 proof over a branch-by-branch mirror of FastRational (exactness + canonical form for all operands) tied by differential runs on the boundary lattice with GMP as independent oracle",
        text="Mirror model of FastRational (word/GMP representation, every CHECK_* site, unsigned truncations written "
             "explicitly). Proved for all well-formed operands: addition and multiplication return the exact result in "
             "canonical well-formed form in every branch (incl. Knuth's gcd lemma showing the 32-bit store of the second gcd "
             "loses nothing), negation, comparison, GMP path, gcd template, canonical representation (equal values => "
             "identical data and hash). Tie: ~180k operations per run (all unary ops x lattice, binary ops x lattice pairs, "
             "values reached through GMP arithmetic) compared on value, representation and hash under ASan/UBSan, plus GMP "
             "oracle. Partial: sub/div/inverse/floor/ceil/in-place variants are mirrored and tied but their exactness is not "
             "proved; gcd/lcm/% are checked against GMP only.",
        design_ref="5 C15"),
    "C14": dict(
        technique="Lean 4 proof (mirror of the Boolean constructors with semantic-equivalence theorems) tied structurally on propositional scripts, plus Lean evaluation of every constructed term against its input term",
        text="Theorems for the mirrored constructors mkNot/mkAnd/mkOr/mkXor/mkImpl/mkIte/mkBinaryEq/mkEq/mkDistinct(Bool): the "
             "returned term is equivalent to the operator applied to the arguments in every interpretation. Tie: (a) on "
             "propositional scripts the mirror's bottom-up construction must equal the term opensmt constructed (hook trace) "
             "up to commutative argument order; (b) for all logics and all constructors incl. arithmetic (sum, product, "
             "difference, negation, real division, div, mod, the four comparisons and their normal forms, ite, distinct) the "
             "constructed term of every asserted input term is evaluated by the Lean evaluator under 24 interpretations per "
             "script and must agree with the input term. Partial: arithmetic normal forms have no mirror-level theorem; "
             "select/store are not covered.",
        design_ref="5 C14"),
    "C27": dict(
        technique="Lean 4 proof (Euclidean div/mod folding, div/mod axioms, integer bound tightening, gcd normalisation, difference negation) tied by front-end runs and a header harness",
        text="Theorems for all integers/rationals: foldDiv/foldMod (mirror of mkIntDiv/mkMod folding: floor for positive, ceil "
             "for negative divisors) equal Int.ediv/emod; the div/mod elimination axioms characterise exactly them; strict and "
             "non-strict bounds on integers from rational constants (getBoundsValueForIntVar) are exact; gcd normalisation and "
             "the negation of difference constraints keep the integer solutions; LA.tighten_sound. Tie: folded constants of "
             "the front end vs the mirror on a boundary lattice of (a,d); integer comparison atoms with non-unit coefficients "
             "vs their constructed normal forms evaluated in Lean on an integer grid; Converter<SafeInt>::negate/getValue "
             "harness vs the mirror; the elimination axioms end to end: x pinned by two bounds, (div x d) and (mod x d) must be "
             "the mirror's quotient and remainder (sat) and nothing else (unsat), for either divisor sign.",
        design_ref="5 C27"),
    "C16": dict(
        technique="Lean 4 proof (decimal literal conversion exact for all digit lists) tied by exhaustive short-string differential runs against StringConv.h and a print/re-read round trip",
        text="Theorem s2rDec_exact: for every sign, integer part and fraction part (any length, leading/trailing zeros) the "
             "model of stringToRational returns the exact decimal value; every string of the lexer's decimal language is "
             "accepted. Tie: isIntString, isRealString and stringToRational of the real header vs the Lean model on ALL strings "
             "up to length 6 (quick) / 8 (thorough) over 0159./- plus long random literals, under ASan/UBSan; every string "
             "isRealString accepts must convert to its exact value (independent exact oracle); numeric values printed by "
             "get-value (numerators and denominators of up to 130 digits) are re-read and compared. Partial: the automata and the rejection of malformed strings are tied "
             "exhaustively, not proved; fraction strings with a decimal part are not compared.",
        design_ref="5 C16"),
    "C21": dict(
        technique="Lean 4 proof (mirror of TermNames/ScopedVector: container consistency in all reachable states, balanced-scope restoration) tied by a harness on the real class and end-to-end scoping scripts",
        text="Theorems for all operation sequences: names pairwise distinct and the name map equals the scoped vector; for "
             "every balanced sequence between pushScope and popScope the vector and limits are restored exactly (names gone "
             "and re-insertable); global mode keeps names while the limit stack still follows the assertion stack. Tie: random "
             "insert/push/pop/mode-switch sequences on the real TermNames vs the mirror (all three containers compared), and "
             "scripts with :named, define-fun, push/pop of one or several levels, global declarations whose every response must match a scope-stack "
             "reference and whose unsat cores may only name current assertions. Partial: DefinedFunctions (define-fun) is "
             "checked end to end only.",
        design_ref="5 C21"),
    "C20": dict(
        technique="Lean 4 proof (byte-wise mirror of the pipe scanner: chunk independence for all byte strings and chunkings) tied by exhaustive short-string runs of the real scanner under controlled read sizes, plus pipe-vs-file differential runs",
        text="Theorems: for every byte string and every two ways of splitting it across reads the scanner ends in the same "
             "state (same emitted commands, same error); emitted commands are never altered by later input; the depth counter "
             "cannot go negative without the unbalanced-parentheses error. Tie: the real interpPipe (frames observed through a "
             "guarded hook, read(2) sizes controlled by an LD_PRELOAD shim) vs the mirror on all byte strings up to length 3/6 "
             "over ( ) \" | ; \\ a space newline and random longer ones under up to 7 read-size schedules; valid scripts with "
             "adversarial layout (comments with parentheses, quoted symbols with ( ; inside, escaped quotes, lone backslashes, tabs, "
             "CRLF) must give the same "
             "stdout and exit status through a file and through the pipe. Partial: behaviour after an unbalanced-parentheses "
             "error and after (exit) is not compared.",
        design_ref="5 C20"),
    "C06": dict(
        technique="Lean 4 proof (resolution-refutation checker sound: leaves of an accepted refutation are jointly unsatisfiable) plus certified re-decision of every printed core",
        text="Theorem checkRefutation_sound (the proof-level part of core extraction). The bookkeeping from proof leaves to "
             "assertions and names (partition masks, TermNames, scoping) is not mirrored; it is decided per run: every printed "
             "core of generated histories (named/unnamed/duplicate assertions, ite terms, push/pop, full-core mode) must list "
             "distinct names of current assertions, and core + unnamed current assertions is re-decided with certified "
             "verdicts (unsat: the Lean machine accepts the trace of a fresh run; sat: the Lean evaluator validates the printed "
             "model = certified violation). Full-core formulas are matched to current assertions by Lean evaluation.",
        design_ref="5 C06"),
    "C07": dict(
        technique="Lean 4 proof (performNaive over any monotone unsatisfiability oracle yields an irreducible unsatisfiable sublist) plus certified drop-one re-decision of printed minimal cores",
        text="Theorem naive_irreducible for the mirror of UnsatCoreBuilder::Minimize::performNaive: for every monotone oracle, "
             "background and duplicate-free target list, the result is unsatisfiable with the background, a sublist of the "
             "targets, and no single member can be removed. Tie: every printed minimal core of generated histories: each member "
             "is dropped in turn and the rest (with the unnamed current assertions) must be satisfiable, with certified verdicts "
             "as in C06. Partial: that the inner solver is a correct monotone oracle is C01/C02; which terms are background is "
             "not mirrored.",
        design_ref="5 C07"),
    "C10": dict(
        technique="Lean 4 proof (resolution proof checker sound) applied to every printed proof, leaves matched against the traced run whose theory clauses the Lean kernels certify",
        text="Theorem checkRefutation_sound: a printed proof in which every referenced name is bound, every step resolves on a "
             "pivot occurring with opposite signs and the final clause is empty refutes its leaves. Tie: every (get-proof) "
             "output of generated histories is parsed and replayed by the Lean checker; every leaf must be an input clause of "
             "a currently active level (with its guard), the activation of an active level, or a theory clause of the traced "
             "run, and the whole trace must be accepted by the Lean machine (kernel-certified theory clauses, inputs entailed "
             "by their roots). Partial: the printed format does not distinguish the clause (or a b) from the unit clause with "
             "literal (or a b); the trace disambiguates.",
        design_ref="5 C10"),
}

PENDING = "not yet built in this round; design in DESIGN.md section 5, construction order in section 10"


def main():
    props = [json.loads(l) for l in (VERIF / "properties.jsonl").read_text().splitlines() if l.strip()]
    checks, na = [], []
    for p in props:
        pid = p["id"]
        if pid in CLAIMS:
            c = CLAIMS[pid]
            checks.append({
                "property_id": pid,
                "quick_cmd": f"python3-vt tools/verif.py check {pid} --tier quick",
                "thorough_cmd": f"python3-vt tools/verif.py check {pid} --tier thorough",
                "evidence_file": f"/verif/evidence/{pid}.json",
                "replay_cmd_template": f"python3-vt tools/verif.py replay {pid} {{path}}",
                "engine": "lean4-osmt",
                "level_claimed": {"category": "proof", "text": c["text"], "design_ref": c["design_ref"]},
                "level_note": c.get("note", TB),
                "technique": c["technique"],
            })
        else:
            na.append({"property_id": pid, "reason": NA.get(pid, PENDING)})
    m = {
        "version": 1,
        "setup_cmd": "python3-vt tools/verif.py setup",
        "hooks": {
            "guard": "OPENSMT_VERIF",
            "enable": "cmake -DCMAKE_CXX_FLAGS=-DOPENSMT_VERIF (done by tools/common.py:build_repo into $VERIF_WORK, default "
                      "/var/tmp/opensmt-verif) and OPENSMT_VERIF_TRACE=<file> at run time",
            "baseline_off_cmd": "python3-vt tools/baseline_off.py",
            "source_commits": HOOK_COMMITS,
            "add_only": True,
        },
        "engines": [{"name": "lean4-osmt", "path": "/verif/lean", "serves_properties": sorted(CLAIMS),
                     "kind_free_text": "Lean 4 library Osmt (models, kernels) + OsmtProofs (theorems) + osmt-model driver; "
                                       "Python orchestration in /verif/tools"}],
        "checks": checks,
        "not_applicable": na,
        "notes": "Every check: lake build (kernel re-checks all theorems), forbidden-construct scan, #print axioms audit of the "
                 "property's theorems, rebuild of /repo's working tree with hooks, correspondence run seeded by VERIF_SEED.",
    }
    (VERIF / "MANIFEST.json").write_text(json.dumps(m, indent=1) + "\n")


NA = {
}
HOOK_COMMITS = []
if __name__ == "__main__":
    import subprocess
    out = subprocess.run(["git", "-C", "/repo", "log", "--format=%H %s"], capture_output=True, text=True).stdout
    HOOK_COMMITS = [l.split()[0] for l in out.splitlines() if "verif hooks" in l]
    main()
