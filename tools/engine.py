"""Corpus runs of the real engines with trace replay through the Lean machine (shared by C01 C05 C11 C12 ...)."""
import os, random, json, multiprocessing as mp
import common, gen, runner, trace

OPTION_VECTORS = [
    [],
    [":random-seed 7"],
    [":random-seed 12345", ":restart-first 2"],
    [":produce-models true"],
    [":produce-proofs true"],
    [":produce-interpolants true"],
    [":produce-unsat-cores true"],
    [":incremental false"],
    [":do-substitutions false"],
    [":ccmin-mode 0"],
    [":ccmin-mode 1", ":luby-restart false"],
    [":pure-lookahead true"],
    [":picky true"],
]
LOGICS_KERNEL = ["QF_BOOL", "QF_UF", "QF_LRA", "QF_LIA", "QF_RDL", "QF_IDL", "QF_UFLRA", "QF_UFLIA"]


def make_case(idx, seed, logics, vectors, hist_ratio=0.35, big=False):
    rng = random.Random(f"engine-{seed}-{idx}")
    logic = logics[idx % len(logics)]
    opts = vectors[(idx // len(logics)) % len(vectors)]
    r = rng.random()
    if ("IDL" in logic or "RDL" in logic) and rng.random() < 0.4:
        f = rng.choice([gen.dl_conjunction, gen.dl_paths, gen.dl_chain, gen.dl_chain])
        p, asserts, script = f(logic, rng, options=opts)
        return {"idx": idx, "logic": logic, "options": opts, "kind": f.__name__.replace("_", "-"), "script": script}
    if r < 0.08 and ":incremental false" not in opts:
        p, script, checks = gen.sibling_history(logic, rng, options=opts, big=big)
        kind = "sibling-history"
    elif r < hist_ratio / 2 and ":incremental false" not in opts:
        p, script, checks = gen.clausal_history(logic, rng, options=opts)
        kind = "clausal-history"
    elif r < hist_ratio and ":incremental false" not in opts:      # assertions after a check-sat need incremental mode
        p, script, checks = gen.history(logic, rng, options=opts, big=big)
        kind = "history"
    else:
        p, asserts, script = gen.single_query(logic, rng, options=opts, big=big)
        kind = "single"
    return {"idx": idx, "logic": logic, "options": opts, "kind": kind, "script": script}


def make_dl_case(idx, seed, logics=("QF_IDL", "QF_RDL", "QF_IDL", "QF_UFIDL")):
    """difference-logic graph shapes (chains with longer direct edges, shortest-path bounds): cheap, run in numbers"""
    rng = random.Random(f"engine-dl-{seed}-{idx}")
    logic = logics[idx % len(logics)]
    f = [gen.dl_chain, gen.dl_chain, gen.dl_paths][idx % 3]
    p, asserts, script = f(logic, rng)
    return {"idx": f"dl{idx}", "logic": logic, "options": [], "kind": f.__name__.replace("_", "-"), "script": script}


def make_big_case(idx, seed, logics=("QF_UF", "QF_UFLIA", "QF_UFLRA", "QF_LRA", "QF_IDL", "QF_LIA")):
    """larger single queries (10-20 assertions over more symbols): many conflicts at deeper decision levels with theory
    propagation, where conflict analysis and minimisation do real work"""
    rng = random.Random(f"engine-big-{seed}-{idx}")
    logic = logics[idx % len(logics)]
    p = gen.Problem(logic, rng, nbool=3, nnum=4)
    asserts = [p.fla(rng.randint(2, 3)) for _ in range(rng.randint(10, 20))]
    opts = [] if idx % 5 else [":random-seed %d" % rng.randint(1, 1000)]
    script = "\n".join([f"(set-option {o})" for o in opts] + [p.set_logic()] + p.decls + [f"(assert {gen.smt(a)})" for a in asserts] + ["(check-sat)"]) + "\n"
    return {"idx": f"big{idx}", "logic": logic, "options": opts, "kind": "big-single", "script": script}


def make_boolarg_case(idx, seed, logics=("QF_UF", "QF_UFLRA", "QF_UF", "QF_UFLIA")):
    """uninterpreted functions and predicates with Boolean arguments (the E-graph's true/false classes take part in
    congruence explanations)"""
    rng = random.Random(f"engine-boolarg-{seed}-{idx}")
    logic = logics[idx % len(logics)]
    p = gen.Problem(logic, rng, nbool=3, nnum=3)
    if not p.boolargs:
        p.boolargs = True
        p.funs += [("h", ["Bool"], p.S), ("q", ["Bool", p.S], "Bool")]
        p.decls += [f"(declare-fun h (Bool) {p.S})", f"(declare-fun q (Bool {p.S}) Bool)"]
    p.pb = 0.4
    asserts = [p.fla(rng.randint(1, 3)) for _ in range(rng.randint(6, 14))]
    opts = [] if idx % 4 else [":random-seed %d" % rng.randint(1, 1000)]
    script = "\n".join([f"(set-option {o})" for o in opts] + [p.set_logic()] + p.decls + [f"(assert {gen.smt(a)})" for a in asserts] + ["(check-sat)"]) + "\n"
    return {"idx": f"ba{idx}", "logic": logic, "options": opts, "kind": "boolarg-single", "script": script}


def make_steered_case(idx, seed, options=()):
    """propositional push/pop history steered by a brute-force oracle; carries the exact expected answers"""
    rng = random.Random(f"engine-steered-{seed}-{idx}")
    script, expected = gen.steered_bool_history(rng, options=options)
    return {"idx": f"st{idx}", "logic": "QF_BOOL", "options": list(options), "kind": "steered-history", "script": script,
            "expected": expected}


def wrong_answers(case, result):
    """indices of check-sat answers that contradict the brute-force oracle of a steered case"""
    exp = case.get("expected")
    if not exp or result["rc"] == "timeout":
        return []
    got = result["answers"]
    return [(i, g, e) for i, (g, e) in enumerate(zip(got, exp)) if g in ("sat", "unsat") and g != e] + \
        ([("count", len(got), len(exp))] if len(got) != len(exp) else [])


def run_cases(cases, certify=True, timeout=20, flavour="hooks"):
    binary = common.opensmt_bin(flavour)
    with mp.Pool(min(common.JOBS, 14)) as pool:
        return pool.map(run_case, [(c, binary, certify, timeout) for c in cases], chunksize=4)


def run_case(args):
    case, binary, certify, timeout = args
    tp = common.WORK / f"trace-{os.getpid()}.trace"
    if tp.exists():
        tp.unlink()
    out, err, rc = runner.run_opensmt(binary, case["script"], tp, timeout=timeout)
    res = {"idx": case["idx"], "rc": rc, "answers": runner.answers(out), "stdout": out[-2000:], "stderr": err[-1000:],
           "verdicts": [], "stats": {}, "issues": []}
    if rc == "timeout":
        return res
    if not tp.exists():
        res["verdicts"].append("FAIL no trace produced")
        return res
    try:
        tr = trace.Trace(tp)
    except Exception as e:          # malformed trace is a tie failure
        res["verdicts"].append(f"FAIL trace parse: {e!r}")
        return res
    for sid in tr.order:
        st, issues = {}, []
        v, lines = runner.lean_replay(tr, sid, work_name=f"replay-{os.getpid()}", stats=st, certify=certify, issues=issues)
        res["verdicts"].append(v)
        for k, x in st.items():
            res["stats"][k] = res["stats"].get(k, 0) + x
        res["issues"] += issues
        if not v.startswith("OK"):
            try:
                n = int(v.split("line ")[1].split(":")[0])
                res["failed_line"] = lines[n - 1]
            except Exception:
                pass
    tp.unlink(missing_ok=True)
    return res


def run_corpus(n, seed, logics=LOGICS_KERNEL, vectors=OPTION_VECTORS, certify=True, timeout=20, big=False,
               hist_ratio=0.35, flavour="hooks", extra_cases=()):
    binary = common.opensmt_bin(flavour)
    cases = [make_case(i, seed, logics, vectors, hist_ratio, big) for i in range(n)] + list(extra_cases)
    with mp.Pool(min(common.JOBS, 14)) as pool:
        results = pool.map(run_case, [(c, binary, certify, timeout) for c in cases], chunksize=4)
    return cases, results
