"""Running the real opensmt binary with the trace hooks and replaying the trace through the Lean machine."""
import os, subprocess, tempfile
from pathlib import Path
import common, trace, lacert, eufcert


def run_opensmt(binary, script_text, trace_path=None, timeout=20, args=(), env_extra=None):
    """returns (stdout, stderr, returncode | 'timeout')"""
    with tempfile.NamedTemporaryFile("w", suffix=".smt2", delete=False, dir=str(common.WORK)) as f:
        f.write(script_text)
        path = f.name
    env = dict(os.environ)
    env.pop("OPENSMT_VERIF_TRACE", None)
    if trace_path:
        env["OPENSMT_VERIF_TRACE"] = str(trace_path)
    if env_extra:
        env.update(env_extra)
    try:
        r = subprocess.run([str(binary), *args, path], capture_output=True, text=True, timeout=timeout, env=env,
                           errors="replace")
        return r.stdout, r.stderr, r.returncode
    except subprocess.TimeoutExpired as e:
        return (e.stdout or b"").decode(errors="replace") if isinstance(e.stdout, bytes) else (e.stdout or ""), "", "timeout"
    finally:
        os.unlink(path)


def answers(stdout):
    return [l.strip() for l in stdout.split("\n") if l.strip() in ("sat", "unsat", "unknown")]


def certify_theory_clauses(tr, sid, stats=None):
    """certificate-carrying TH lines for solver `sid` (untrusted producers; the Lean kernels decide)."""
    s = tr.solvers[sid]
    tt = tr.logics[s.logic]
    out = {}
    for e in s.events:
        if e[1] != "TH":
            continue
        k = e[0]
        lits = e[3]
        head = "TH %s %s 0 " % (e[2], " ".join(map(str, lits)))
        try:
            tl = [(s.varmap[abs(l)], l < 0) for l in lits]
        except KeyError:
            out[k] = head + "NONE unmapped-literal"
            continue
        cert = lacert.cert_for(tt, tl)
        if cert is not None:
            out[k] = head + "LA " + " ".join(cert)
            if stats is not None:
                stats["la"] = stats.get("la", 0) + 1
            continue
        cert = eufcert.cert_for(tt, tl)
        if cert is not None:
            out[k] = head + " ".join(cert)
            if stats is not None:
                stats["euf"] = stats.get("euf", 0) + 1
            continue
        out[k] = head + "NONE"
        if stats is not None:
            stats["none"] = stats.get("none", 0) + 1
    return out


def lean_replay(tr, sid, work_name="trace", stats=None, certify=True, issues=None):
    """returns the driver's verdict line for solver `sid` of trace `tr`"""
    if tr.solvers[sid].logic is None:
        return "OK empty", []
    th = certify_theory_clauses(tr, sid, stats) if certify else None
    lines = tr.lean_smt_input(sid, th, issues)
    if not certify:
        lines = ["O trust-theory"] + lines        # C12 mode: theory clauses are taken as given
    p = common.WORK / f"{work_name}-{os.getpid()}.in"
    p.write_text("\n".join(lines) + "\n")
    r = common.sh([str(common.model_exe()), "smt", str(p)])
    verdict = (r.stdout.strip().split("\n") or [""])[-1]
    if not verdict.startswith("OK"):
        return verdict or ("FAIL driver crashed: " + r.stderr[-300:]), lines
    p.unlink(missing_ok=True)
    return verdict, lines
