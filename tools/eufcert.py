"""Untrusted proof-producing congruence closure for the Lean EUF kernel (`Osmt.EUF.eufClauseCheck`)."""
from collections import deque
from fractions import Fraction
import lacert


def hyps_of_lit(tt, atom, neg):
    """mirror of Osmt.EUF.hypsOfLit (same order): the equation of a negated non-Boolean equality, then the Boolean fact"""
    n = tt.nodes[atom]
    out = []
    if n.op == "eq" and len(n.args) == 2 and neg:
        if not (lacert.is_bool(tt, n.args[0]) or lacert.is_bool(tt, n.args[1])):
            out.append((n.args[0], n.args[1]))
    if lacert.is_bool(tt, atom):
        out.append((atom, "T" if neg else "F"))
    return out


def cert_for(tt, lits):
    """lits: (atom idx, negated?) of the clause. Returns token list or None."""
    tru = next((n.idx for n in tt.nodes if n.op == "tru"), None)
    fls = next((n.idx for n in tt.nodes if n.op == "fls"), None)
    hyps = []
    for a, neg in lits:
        for x, y in hyps_of_lit(tt, a, neg):
            if y == "T":
                y = tru
            elif y == "F":
                y = fls
            if y is None:
                return None
            hyps.append((x, y))
    goals = []   # positive equality literals
    for a, neg in lits:
        n = tt.nodes[a]
        if n.op == "eq" and len(n.args) == 2 and not neg:
            goals.append((n.args[0], n.args[1]))
    # universe of terms
    univ = set()
    def visit(i):
        if i in univ:
            return
        univ.add(i)
        for c in tt.nodes[i].args:
            visit(c)
    for x, y in hyps + goals:
        visit(x); visit(y)
    if tru is not None: univ.add(tru)
    if fls is not None: univ.add(fls)
    univ = sorted(univ)
    parent = {i: i for i in univ}
    def find(i):
        while parent[i] != i:
            parent[i] = parent[parent[i]]
            i = parent[i]
        return i
    edges = []    # (u, v, just, ts)  just = ("H", i) | ("C",)
    adj = {i: [] for i in univ}
    def add_edge(u, v, just):
        ts = len(edges)
        edges.append((u, v, just, ts))
        adj[u].append((v, ts)); adj[v].append((u, ts))
        parent[find(u)] = find(v)
    for i, (x, y) in enumerate(hyps):
        if find(x) != find(y):
            add_edge(x, y, ("H", i))
    changed = True
    while changed:
        changed = False
        # Boolean negation: (not a) is true when a is false and the other way round
        if tru is not None and fls is not None:
            for i in univ:
                n = tt.nodes[i]
                if n.op == "not" and len(n.args) == 1:
                    a = n.args[0]
                    if find(a) == find(fls) and find(i) != find(tru):
                        add_edge(i, tru, ("N", a, fls)); changed = True
                    elif find(a) == find(tru) and find(i) != find(fls):
                        add_edge(i, fls, ("N", a, tru)); changed = True
        # an equality between terms of one class is true (as a Boolean term, e.g. an argument of a function)
        if tru is not None:
            for i in univ:
                n = tt.nodes[i]
                if n.op == "eq" and len(n.args) == 2 and find(n.args[0]) == find(n.args[1]) and find(i) != find(tru):
                    add_edge(i, tru, ("E", n.args[0], n.args[1])); changed = True
        sig = {}
        for i in univ:
            n = tt.nodes[i]
            if not n.args:
                continue
            key = (n.op, tuple(find(a) for a in n.args))
            if key in sig:
                j = sig[key]
                if find(i) != find(j):
                    add_edge(i, j, ("C",))
                    changed = True
            else:
                sig[key] = i
    # find the contradiction
    target = None
    for (x, y) in goals:
        if find(x) == find(y):
            target = (x, y); break
    if target is None and tru is not None and fls is not None and find(tru) == find(fls):
        target = (tru, fls)
    if target is None:
        nums = [i for i in univ if tt.nodes[i].op.startswith("num:")]
        seen = {}
        for i in nums:
            r = find(i)
            if r in seen and tt.nodes[seen[r]].op != tt.nodes[i].op:
                target = (seen[r], i); break
            seen.setdefault(r, i)
    if target is None:
        return None
    steps = []
    def emit(tok):
        steps.append(tok)
        return len(steps) - 1
    def path(a, b, limit):
        prev = {a: None}
        dq = deque([a])
        while dq:
            u = dq.popleft()
            if u == b:
                break
            for v, ts in adj[u]:
                if ts < limit and v not in prev:
                    prev[v] = (u, ts)
                    dq.append(v)
        if b not in prev:
            return None
        out = []
        cur = b
        while prev[cur] is not None:
            u, ts = prev[cur]
            out.append((u, cur, ts))
            cur = u
        return list(reversed(out))
    def prove(a, b, limit):
        """index of a step deriving exactly (a, b)"""
        if a == b:
            return emit(["R", str(a)])
        p = path(a, b, limit)
        if p is None:
            raise RuntimeError("no path")
        acc = None
        for (u, v, ts) in p:
            eu, ev, just, _ = edges[ts]
            if just[0] == "H":
                k = emit(["H", str(just[1])])
                hx, hy = hyps[just[1]]
                if (hx, hy) != (u, v):
                    k = emit(["Y", str(k)])
            elif just[0] == "E":
                j = prove(just[1], just[2], ts)
                k = emit(["E", str(j)])            # derives ((= a b), true)
                if (eu, ev) != (u, v):
                    k = emit(["Y", str(k)])
            elif just[0] == "N":
                j = prove(just[1], just[2], ts)
                k = emit(["N", str(j)])            # derives (eu, ev) = ((not a), constant)
                if (eu, ev) != (u, v):
                    k = emit(["Y", str(k)])
            else:
                nu, nv = tt.nodes[u], tt.nodes[v]
                js = [prove(x, y, ts) for x, y in zip(nu.args, nv.args)]
                k = emit(["C", str(u), str(v), str(len(js))] + [str(j) for j in js])
            acc = k if acc is None else emit(["X", str(acc), str(k)])
        return acc
    try:
        g = prove(target[0], target[1], len(edges))
    except (RuntimeError, RecursionError):
        return None
    toks = ["EUF", str(len(steps))]
    for s in steps:
        toks += s
    toks += ["G", str(g)]
    return toks
