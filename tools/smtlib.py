"""A small SMT-LIB reader for the correspondence checks: s-expressions, commands, and terms built into a dense
table in the Lean driver's `T` format. It belongs to the tie (a bug here can hide a disagreement, it cannot make a
theorem true). Supports the fragment the generators and opensmt's printers use."""
import re
from fractions import Fraction


class ParseError(Exception):
    pass


TOKEN = re.compile(r'''\s+|;[^\n]*|(\()|(\))|("(?:[^"]|"")*")|(\|[^|]*\|)|([^\s()"|;]+)''')


def tokenize(text):
    pos, out = 0, []
    while pos < len(text):
        m = TOKEN.match(text, pos)
        if not m:
            raise ParseError(f"bad character at {pos}: {text[pos:pos+20]!r}")
        pos = m.end()
        if m.group(1):
            out.append("(")
        elif m.group(2):
            out.append(")")
        elif m.group(3):
            out.append(("str", m.group(3)[1:-1].replace('""', '"')))
        elif m.group(4):
            # |x| is the symbol x when x is a simple symbol that needs no quotes; otherwise the bars stay part of the name here,
            # so that |let|, |0| or |a b| can never be taken for a keyword, a numeral or two tokens
            inner = m.group(4)[1:-1]
            plain = bool(SIMPLE.match(inner)) and not NUMLIKE.match(inner) and inner not in KEYWORDS
            out.append(("sym", inner if plain else m.group(4)))
        elif m.group(5):
            out.append(("sym", m.group(5)))
    return out


def parse_sexps(text):
    toks = tokenize(text)
    stack, cur = [], []
    for t in toks:
        if t == "(":
            stack.append(cur)
            cur = []
        elif t == ")":
            if not stack:
                raise ParseError("unbalanced )")
            done = cur
            cur = stack.pop()
            cur.append(done)
        else:
            cur.append(t)
    if stack:
        raise ParseError("unbalanced (")
    return cur


def sym(x):
    return x[1] if isinstance(x, tuple) and x[0] == "sym" else None


SIMPLE = re.compile(r"[A-Za-z0-9~!@$%^&*_+=<>.?/-]+$")
NUMLIKE = re.compile(r"-?[0-9]")
KEYWORDS = {"let", "forall", "exists", "par", "!", "_", "as", "true", "false", "not", "and", "or", "xor", "=>", "=", "ite", "distinct", "+",
            "*", "-", "/", "div", "mod", "<=", "<", ">=", ">", "NUMERAL", "DECIMAL", "STRING", "assert", "check-sat", "define-fun",
            "declare-fun", "declare-const", "declare-sort", "set-logic", "set-option", "push", "pop", "exit",
            "select", "store", "abs", "to_real", "to_int", "is_int"}


def unparse(x):
    """s-expression back to text (symbols that need it are quoted)"""
    if isinstance(x, list):
        return "(" + " ".join(unparse(y) for y in x) + ")"
    if x[0] == "str":
        return '"' + x[1].replace('"', '""') + '"'
    return x[1] if SIMPLE.match(x[1]) or x[1].startswith("|") else f"|{x[1]}|"


NUM = re.compile(r"[0-9]+(\.[0-9]+)?$")
BUILTIN = {"true": "tru", "false": "fls", "not": "not", "and": "and", "or": "or", "xor": "xor", "=>": "imp", "=": "eq",
           "ite": "ite", "distinct": "distinct", "+": "plus", "*": "times", "-": "minus", "/": "rdiv", "div": "idiv",
           "mod": "imod", "<=": "leq", "<": "lt", ">=": "geq", ">": "gt"}
BOOL_OPS = {"tru", "fls", "not", "and", "or", "xor", "imp", "eq", "distinct", "leq", "lt", "geq", "gt"}


class Table:
    """dense hash-consed term table; node = (op token, args tuple, sort token)"""

    def __init__(self):
        self.nodes = []
        self.index = {}
        self.sorts = {}           # uninterpreted sort name -> k
        self.decls = {}           # symbol name -> (decl idx, arg sort tokens, result sort token)
        self.abstract = {}        # (name, sort) -> decl idx of the abstract value
        self.ndecl = 0

    def sort_tok(self, s):
        if isinstance(s, list):
            name = "(" + " ".join(sym(x) or str(x) for x in s) + ")"
        else:
            name = sym(s) if isinstance(s, tuple) else s
        if name == "Bool": return "B"
        if name == "Int": return "I"
        if name == "Real": return "R"
        return "U%d" % self.sorts.setdefault(name, len(self.sorts))

    def declare(self, name, argsorts, ressort):
        if name not in self.decls:
            self.decls[name] = (self.ndecl, tuple(argsorts), ressort)
            self.ndecl += 1
        return self.decls[name]

    def mk(self, op, args=(), sort="B"):
        key = (op, tuple(args))
        i = self.index.get(key)
        if i is None:
            i = len(self.nodes)
            self.nodes.append((op, tuple(args), sort))
            self.index[key] = i
        return i

    def sort(self, i):
        return self.nodes[i][2]

    def lean_lines(self, start=0):
        return ["T %d %s %s" % (i, n[0], " ".join(map(str, n[1]))) for i, n in enumerate(self.nodes) if i >= start]

    # ---- terms from s-expressions
    def term(self, sx, env=None):
        env = env or {}
        s = sym(sx)
        if s is not None:
            if s in env:
                return env[s]
            if NUM.match(s):
                return self.mk("num:" + str(Fraction(s)), (), "R" if "." in s else "I")
            if s in ("true", "false"):
                return self.mk(BUILTIN[s], (), "B")
            if s in self.decls:
                k, args, res = self.decls[s]
                if args:
                    raise ParseError(f"function symbol {s} used as constant")
                return self.mk(f"var:{k}:{res}", (), res)
            raise ParseError(f"unknown symbol {s}")
        if not isinstance(sx, list) or not sx:
            raise ParseError(f"bad term {sx}")
        head = sym(sx[0])
        if head == "let":
            new = dict(env)
            for b in sx[1]:
                new[sym(b[0])] = self.term(b[1], env)
            return self.term(sx[2], new)
        if head == "!":
            return self.term(sx[1], env)
        if head == "as":
            name, srt = sym(sx[1]), self.sort_tok(sx[2])
            if name.startswith("@"):
                k = self.abstract.get((name, srt))
                if k is None:
                    k = self.ndecl
                    self.ndecl += 1
                    self.abstract[(name, srt)] = k
                return self.mk(f"var:{k}:{srt}", (), srt)
            return self.term(sx[1], env)
        if head is None and isinstance(sx[0], list) and sym(sx[0][0]) == "as":
            raise ParseError("qualified function application unsupported")
        args = [self.term(a, env) for a in sx[1:]]
        if head in env and not args:
            return env[head]
        if head in self.decls and head not in ("-",):
            k, asorts, res = self.decls[head]
            if len(asorts) != len(args):
                raise ParseError(f"arity mismatch for {head}")
            return self.mk(f"uf:{k}:{res}", args, res)
        if head in BUILTIN:
            op = BUILTIN[head]
            if op == "imp" and len(args) > 2:
                t = args[-1]
                for a in reversed(args[:-1]):
                    t = self.mk("imp", (a, t), "B")
                return t
            if op == "xor" and len(args) > 2:
                t = args[0]
                for a in args[1:]:
                    t = self.mk("xor", (t, a), "B")
                return t
            # numerals: (- k) and (/ a b) of numerals are constants (this is how opensmt prints negative and rational values)
            if op == "minus" and len(args) == 1 and self.nodes[args[0]][0].startswith("num:"):
                return self.mk("num:" + str(-Fraction(self.nodes[args[0]][0][4:])), (), self.sort(args[0]))
            if op == "rdiv" and len(args) == 2 and all(self.nodes[a][0].startswith("num:") for a in args) \
                    and Fraction(self.nodes[args[1]][0][4:]) != 0:
                return self.mk("num:" + str(Fraction(self.nodes[args[0]][0][4:]) / Fraction(self.nodes[args[1]][0][4:])), (), "R")
            if op in BOOL_OPS:
                return self.mk(op, args, "B")
            if op == "ite":
                return self.mk("ite", args, self.sort(args[1]))
            srt = "R" if (op == "rdiv" or any(self.sort(a) == "R" for a in args)) else "I"
            return self.mk(op, args, srt)
        raise ParseError(f"unknown function {head}")


class Script:
    """Commands of a script with terms resolved into one Table."""

    def __init__(self, text):
        self.table = Table()
        self.commands = []          # (name, payload)
        self.defs = {}
        for sx in parse_sexps(text):
            self.command(sx)

    def command(self, sx):
        t = self.table
        name = sym(sx[0])
        if name == "declare-sort":
            t.sort_tok(sx[1])
            self.commands.append((name, sym(sx[1])))
        elif name in ("declare-fun", "declare-const"):
            args = [] if name == "declare-const" else [t.sort_tok(a) for a in sx[2]]
            res = t.sort_tok(sx[-1])
            t.declare(sym(sx[1]), args, res)
            self.commands.append((name, sym(sx[1])))
        elif name == "assert":
            named = None
            body = sx[1]
            if isinstance(body, list) and sym(body[0]) == "!":
                for i in range(2, len(body) - 1):
                    if sym(body[i]) == ":named":
                        named = sym(body[i + 1])
            self.commands.append(("assert", (t.term(sx[1]), named)))
        elif name in ("push", "pop"):
            self.commands.append((name, int(sym(sx[1])) if len(sx) > 1 else 1))
        elif name == "get-value":
            self.commands.append((name, [t.term(x) for x in sx[1]]))
        else:
            self.commands.append((name, sx[1:]))

    def active_assertions_at_checks(self, rejected=()):
        """list (one per check-sat) of lists of (term idx, name) active at that check; commands whose index is in
        `rejected` (the solver answered them with an error) have no effect"""
        stack, out = [[]], []
        for ci, (name, p) in enumerate(self.commands):
            if ci in rejected and name != "check-sat":
                continue
            if name == "assert":
                stack[-1].append(p)
            elif name == "push":
                for _ in range(p):
                    stack.append([])
            elif name == "pop":
                for _ in range(p):
                    if len(stack) > 1:
                        stack.pop()
            elif name == "check-sat":
                out.append([a for fr in stack for a in fr])
        return out


def parse_model(table, sx):
    """`sx`: the s-expression printed by get-model (list of define-fun). Returns list of
    (decl idx, result sort, [(param decl idx, sort)], body term idx, name) and problems."""
    defs, problems = [], []
    items = sx
    if items and sym(items[0]) == "model":
        items = items[1:]
    for d in items:
        if not isinstance(d, list) or sym(d[0]) != "define-fun":
            problems.append(f"unexpected model item {d}")
            continue
        name = sym(d[1])
        params = d[2]
        res = table.sort_tok(d[3])
        if name not in table.decls:
            problems.append(f"model defines undeclared symbol {name}")
            continue
        k, asorts, dres = table.decls[name]
        if dres != res or len(asorts) != len(params) or any(table.sort_tok(p[1]) != a for p, a in zip(params, asorts)):
            problems.append(f"model definition of {name} has the wrong signature")
            continue
        env, plist = {}, []
        for p in params:
            pk = table.ndecl
            table.ndecl += 1
            ps = table.sort_tok(p[1])
            env[sym(p[0])] = table.mk(f"var:{pk}:{ps}", (), ps)
            plist.append((pk, ps))
        saved = table.decls
        try:
            # a body may mention only its parameters, abstract values and interpreted symbols
            table.decls = {}
            body = table.term(d[4], env)
        except ParseError as e:
            problems.append(f"model body of {name}: {e}")
            continue
        finally:
            table.decls = saved
        defs.append((k, res, plist, body, name))
    return defs, problems
