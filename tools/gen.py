"""Typed generators of SMT-LIB scripts. Terms are tuples so that the same object can be printed as SMT-LIB
and handed to the Lean evaluator:  ("var", name, sort) | ("num", Fraction, sort) | ("app", op, sort, args) |
("uf", name, sort, args).   Sorts: "Bool", "Int", "Real", "U"."""
import random
from fractions import Fraction

LOGICS = ["QF_BOOL", "QF_UF", "QF_LRA", "QF_LIA", "QF_RDL", "QF_IDL", "QF_UFLRA", "QF_UFLIA"]


def num_smt(q, sort):
    def n(v):
        s = str(abs(v)) + (".0" if sort == "Real" else "")
        return s if v >= 0 else f"(- {s})"
    q = Fraction(q)
    if q.denominator == 1:
        return n(q.numerator)
    return f"(/ {n(q.numerator)} {n(q.denominator)})"


def smt(t):
    k = t[0]
    if k == "var":
        return t[1]
    if k == "num":
        return num_smt(t[1], t[2])
    if k == "app":
        return "(" + t[1] + " " + " ".join(smt(a) for a in t[3]) + ")"
    if k == "uf":
        return "(" + t[1] + " " + " ".join(smt(a) for a in t[3]) + ")" if t[3] else t[1]
    raise ValueError(t)


def sort_of(t):
    return t[2]


class Problem:
    """Declarations plus a pool of assertions for one logic."""

    def __init__(self, logic, rng, nbool=3, nnum=3, big=False):
        self.logic, self.r = logic, rng
        self.arith = any(k in logic for k in ("LRA", "LIA", "IDL", "RDL"))
        self.dl = any(k in logic for k in ("IDL", "RDL"))
        self.S = "Int" if ("LIA" in logic or "IDL" in logic) else ("Real" if self.arith else "U")
        self.uf = "UF" in logic
        self.big = big
        self.bools = [("var", f"b{i}", "Bool") for i in range(nbool)]
        self.nums = [("var", f"x{i}", self.S) for i in range(nnum)] if (self.arith or self.uf) else []
        self.decls = []
        if self.S == "U" and self.uf:
            self.decls.append("(declare-sort U 0)")
        for b in self.bools:
            self.decls.append(f"(declare-fun {b[1]} () Bool)")
        for x in self.nums:
            self.decls.append(f"(declare-fun {x[1]} () {self.S})")
        self.funs = []
        # functions with Boolean arguments only in about a third of the problems: printed models for them are a known finding
        # (C03-bool-arg-uf-model), and a problem that declares them cannot tell other model defects apart
        self.boolargs = self.uf and rng.random() < 0.35
        if self.uf:
            self.funs = [("f", [self.S], self.S), ("g", [self.S, self.S], self.S), ("p", [self.S], "Bool")]
            if self.boolargs:
                self.funs += [("h", ["Bool"], self.S), ("q", ["Bool", self.S], "Bool")]
            for name, args, res in self.funs:
                self.decls.append(f"(declare-fun {name} ({' '.join(args)}) {res})")

    # ---- terms
    def const(self):
        r = self.r
        if self.big and r.random() < 0.3:
            base = r.choice([2**31 - 1, 2**31, 2**32, 2**53, 2**53 + 1, 2**63 - 1, 2**63, 2**64])
            v = r.choice([1, -1]) * (base + r.randint(-2, 2))
        else:
            v = r.randint(-4, 4)
        if self.S == "Real" and r.random() < 0.25:
            return ("num", Fraction(v, r.choice([2, 3, 4])), "Real")
        return ("num", Fraction(v), self.S)

    def nterm(self, d=2):
        r = self.r
        c = r.random()
        if self.boolargs and d > 0 and r.random() < getattr(self, 'pb', 0.08):
            return ("uf", "h", self.S, [self.barg()])
        if self.S == "U":
            if d == 0 or c < 0.4 or not self.uf:
                return r.choice(self.nums)
            if c < 0.75:
                return ("uf", "f", "U", [self.nterm(d - 1)])
            return ("uf", "g", "U", [self.nterm(d - 1), self.nterm(d - 1)])
        if self.dl:
            a, b = r.sample(self.nums, 2)
            return ("app", "-", self.S, [a, b])
        if d == 0 or c < 0.35:
            return r.choice(self.nums) if r.random() < 0.8 else self.const()
        if self.uf and c < 0.55:
            if r.random() < 0.6:
                return ("uf", "f", self.S, [self.nterm(d - 1)])
            return ("uf", "g", self.S, [self.nterm(d - 1), self.nterm(d - 1)])
        if c < 0.8:
            return ("app", "+", self.S, [self.nterm(d - 1) for _ in range(r.randint(2, 3))])
        if c < 0.88:
            return ("app", "-", self.S, [self.nterm(d - 1), self.nterm(d - 1)])
        k = r.choice([2, 3, -1, -2, 5])
        return ("app", "*", self.S, [("num", Fraction(k), self.S), self.nterm(d - 1)])

    def barg(self):
        """a Boolean argument of an uninterpreted function: a variable, its negation, a constant or a small formula"""
        r = self.r
        c = r.random()
        b = r.choice(self.bools)
        if c < 0.4:
            return b
        if c < 0.7:
            return ("app", "not", "Bool", [b])
        if c < 0.8:
            return ("var", r.choice(["true", "false"]), "Bool")
        return ("app", r.choice(["and", "or"]), "Bool", [b, r.choice(self.bools)])

    def atom(self):
        r = self.r
        c = r.random()
        if self.boolargs and r.random() < getattr(self, 'pb', 0.06):
            return ("uf", "q", "Bool", [self.barg(), self.nterm(1)])
        if not self.nums or c < 0.25:
            return r.choice(self.bools)
        if self.S == "U":
            if self.uf and c < 0.4:
                return ("uf", "p", "Bool", [self.nterm(1)])
            return ("app", "=", "Bool", [self.nterm(2), self.nterm(2)])
        if self.uf and c < 0.35:
            return ("uf", "p", "Bool", [self.nterm(1)])
        if self.dl:
            op = r.choice(["<=", "<", ">=", ">"])
            return ("app", op, "Bool", [self.nterm(), self.const()])
        op = r.choice(["<=", "<", ">=", ">", "=", "="])
        return ("app", op, "Bool", [self.nterm(2), self.nterm(2) if r.random() < 0.5 else self.const()])

    def fla(self, d):
        r = self.r
        if d == 0 or r.random() < 0.3:
            a = self.atom()
            return a if r.random() < 0.6 else ("app", "not", "Bool", [a])
        op = r.choice(["and", "or", "not", "=>", "ite", "=", "xor"])
        if op == "not":
            return ("app", "not", "Bool", [self.fla(d - 1)])
        if op == "ite":
            return ("app", "ite", "Bool", [self.fla(d - 1), self.fla(d - 1), self.fla(d - 1)])
        if op in ("=>", "=", "xor"):
            return ("app", op, "Bool", [self.fla(d - 1), self.fla(d - 1)])
        return ("app", op, "Bool", [self.fla(d - 1) for _ in range(r.randint(2, 3))])

    def assertion(self):
        return self.fla(self.r.randint(1, 3))

    def set_logic(self):
        return "(set-logic %s)" % ("QF_UF" if self.logic == "QF_BOOL" else self.logic)


def single_query(logic, rng, options=(), n_assert=None, big=False, after_check=None):
    p = Problem(logic, rng, big=big)
    asserts = [p.assertion() for _ in range(n_assert or rng.randint(3, 7))]
    lines = [f"(set-option {o})" for o in options] + [p.set_logic()] + p.decls
    lines += [f"(assert {smt(a)})" for a in asserts] + ["(check-sat)"]
    if after_check:
        lines += after_check(p, rng)
    return p, asserts, "\n".join(lines) + "\n"


def history(logic, rng, options=(), steps=None, big=False, after_check=None, named=False):
    """push/pop/assert/check interleaving; returns (problem, script text, list of active-assertion lists, one per
    check-sat in order)."""
    p = Problem(logic, rng, big=big)
    pool = [p.assertion() for _ in range(14)]
    if p.nums and not p.dl and rng.random() < 0.5:
        # definitions of one variable by another, pairwise contradictory: what equality substitution feeds on; asserted in
        # different levels they must not outlive their level
        v, w = rng.sample(p.nums, 2)
        if p.S == "U":
            rhs = [w, ("uf", "f", "U", [w])] if p.uf else [w]
        else:
            rhs = [("app", "+", p.S, [w, ("num", Fraction(k), p.S)]) for k in rng.sample([-2, -1, 1, 2, 3], 3)]
        pool += [("app", "=", "Bool", [v, t]) for t in rhs] * 2
    lines = [f"(set-option {o})" for o in options] + [p.set_logic()] + p.decls
    stack = [[]]
    checks = []
    nm_counter = [0]
    for _ in range(steps or rng.randint(8, 22)):
        c = rng.random()
        if c < 0.2:
            lines.append("(push 1)")
            stack.append([])
        elif c < 0.35 and len(stack) > 1:
            lines.append("(pop 1)")
            stack.pop()
        elif c < 0.7:
            a = rng.choice(pool)
            if named and rng.random() < 0.7:
                nm_counter[0] += 1
                lines.append(f"(assert (! {smt(a)} :named N{nm_counter[0]}))")
            else:
                lines.append(f"(assert {smt(a)})")
            stack[-1].append(a)
        else:
            lines.append("(check-sat)")
            checks.append([x for fr in stack for x in fr])
            if after_check:
                lines += after_check(p, rng)
    lines.append("(check-sat)")
    checks.append([x for fr in stack for x in fr])
    if after_check:
        lines += after_check(p, rng)
    return p, "\n".join(lines) + "\n", checks


def sibling_history(logic, rng, options=(), after_check=None, big=False):
    """levels that are pushed, filled and popped one after the other at the same depth (some never checked, some with an
    assertion after their last check), each sibling asserting a definition that contradicts its predecessor's: nothing learnt in
    one sibling (substitutions, units, names) may survive into the next.  Returns like `history`."""
    p = Problem(logic, rng, big=big)
    lines = [f"(set-option {o})" for o in options] + [p.set_logic()] + p.decls
    stack, checks = [[]], []
    def add(a):
        lines.append(f"(assert {smt(a)})"); stack[-1].append(a)
    def check():
        lines.append("(check-sat)")
        checks.append([x for fr in stack for x in fr])
        if after_check:
            lines.extend(after_check(p, rng))
    if p.nums and not p.dl:
        v, w = rng.sample(p.nums, 2)
        if p.S == "U":
            defs = [("app", "=", "Bool", [v, t]) for t in ([w, ("uf", "f", "U", [w]), ("uf", "f", "U", [("uf", "f", "U", [w])])] if p.uf else [w])]
            defs += [("app", "not", "Bool", [("app", "=", "Bool", [v, w])])]
        else:
            defs = [("app", "=", "Bool", [v, ("app", "+", p.S, [w, ("num", Fraction(k), p.S)])]) for k in rng.sample([-2, -1, 1, 2, 3], 4)]
    else:
        b, c = rng.sample(p.bools, 2)
        defs = [("app", "=", "Bool", [b, c]), ("app", "=", "Bool", [b, ("app", "not", "Bool", [c])]), b, ("app", "not", "Bool", [b])]
    for _ in range(rng.randint(0, 2)):
        add(p.fla(1))
    if rng.random() < 0.5:
        check()
    for k in range(rng.randint(2, 5)):
        lines.append("(push 1)"); stack.append([])
        style = rng.random()
        if style < 0.25:                       # a level that is never checked
            add(p.fla(1) if rng.random() < 0.5 else rng.choice(defs))
        else:
            add(rng.choice(defs))
            if rng.random() < 0.3:
                add(p.fla(1))
            check()
            if style < 0.5:                    # one more assertion after the last check of the level
                add(p.fla(1) if rng.random() < 0.6 else rng.choice(defs))
        lines.append("(pop 1)"); stack.pop()
        if rng.random() < 0.3:
            check()
    check()
    return p, "\n".join(lines) + "\n", checks


def dl_conjunction(logic, rng, options=()):
    """a dense conjunction of difference constraints (one atom per assertion, so the order of assertion is the order in which the
    literals reach the theory solver): several paths between the same vertices, cycles of weight around zero.
    Returns (problem, assertion terms, script text) like `single_query`."""
    n = rng.randint(4, 7)
    p = Problem(logic, rng, nbool=1, nnum=n)
    asserts = []
    m = rng.randint(n + 1, 3 * n)
    for _ in range(m):
        a, b = rng.sample(p.nums, 2)
        k = rng.randint(-6, 6)
        op = rng.choice(["<=", "<=", "<=", "<", ">=", ">"])
        asserts.append(("app", op, "Bool", [("app", "-", p.S, [a, b]), ("num", Fraction(k), p.S)]))
    script = "\n".join([f"(set-option {o})" for o in options] + [p.set_logic()] + p.decls + [f"(assert {smt(a)})" for a in asserts] + ["(check-sat)"]) + "\n"
    return p, asserts, script


def dl_paths(logic, rng, options=()):
    """a consistent graph of difference constraints with non-negative weights and several paths between the same vertices
    (diamonds, asserted in random order), then one to three literals that contradict, meet or miss by one the shortest-path
    bound between two vertices: what the difference-logic solvers derive by graph search.  Returns like `single_query`."""
    n = rng.randint(4, 7)
    p = Problem(logic, rng, nbool=1, nnum=n)
    INF = 10 ** 9
    d = [[0 if i == j else INF for j in range(n)] for i in range(n)]
    edges = []
    for _ in range(rng.randint(n, 2 * n + 2)):
        a, b = rng.sample(range(n), 2)
        k = rng.randint(0, 6)
        edges.append((a, b, k))                     # x_a - x_b <= k
        d[a][b] = min(d[a][b], k)
    for m in range(n):
        for i in range(n):
            for j in range(n):
                if d[i][m] + d[m][j] < d[i][j]:
                    d[i][j] = d[i][m] + d[m][j]
    asserts = [("app", "<=", "Bool", [("app", "-", p.S, [p.nums[a], p.nums[b]]), ("num", Fraction(k), p.S)]) for a, b, k in edges]
    reach = [(i, j) for i in range(n) for j in range(n) if i != j and d[i][j] < INF]
    for _ in range(rng.randint(1, 3)):
        if not reach:
            break
        i, j = rng.choice(reach)
        k = d[i][j] + rng.choice([-1, 0, 0, 1, 2])
        neg = ("app", "not", "Bool", [("app", "<=", "Bool", [("app", "-", p.S, [p.nums[i], p.nums[j]]), ("num", Fraction(k), p.S)])])
        asserts.insert(rng.randint(len(asserts) // 2, len(asserts)), neg)
    script = "\n".join([f"(set-option {o})" for o in options] + [p.set_logic()] + p.decls + [f"(assert {smt(a)})" for a in asserts] + ["(check-sat)"]) + "\n"
    return p, asserts, script


def dl_chain(logic, rng, options=()):
    """a chain of difference constraints v0 -> v1 -> ... -> vm plus direct edges that are longer than the chain between their
    ends (never on a shortest path, but met first by a graph search), asserted in random order, and a literal that contradicts
    or just misses the bound the chain implies between two of its vertices.  Returns like `single_query`."""
    m = rng.randint(3, 6)
    p = Problem(logic, rng, nbool=1, nnum=m + 1)
    w = [rng.randint(0, 3) for _ in range(m)]
    edges = [(j, j + 1, w[j]) for j in range(m)]
    for _ in range(rng.randint(1, 3)):
        a = rng.randint(0, m - 2); b = rng.randint(a + 2, m)
        edges.append((a, b, sum(w[a:b]) + rng.randint(1, 5)))
    rng.shuffle(edges)
    a, b = 0, m
    if rng.random() < 0.5:
        a = rng.randint(0, m - 2); b = rng.randint(a + 2, m)
    k = sum(w[a:b]) + rng.choice([-1, 0, 0, 1])
    perm = list(range(m + 1)); rng.shuffle(perm)
    def le(u, v, c):
        return ("app", "<=", "Bool", [("app", "-", p.S, [p.nums[perm[u]], p.nums[perm[v]]]), ("num", Fraction(c), p.S)])
    asserts = [le(u, v, c) for u, v, c in edges]
    asserts.insert(rng.randint(len(asserts) // 2, len(asserts)), ("app", "not", "Bool", [le(a, b, k)]))
    script = "\n".join([f"(set-option {o})" for o in options] + [p.set_logic()] + p.decls + [f"(assert {smt(x)})" for x in asserts] + ["(check-sat)"]) + "\n"
    return p, asserts, script


def model_queries(p, rng):
    """(get-model) and a (get-value ...) over a few terms of the problem"""
    ts = [smt(rng.choice(p.bools))]
    if p.nums:
        ts += [smt(rng.choice(p.nums)), smt(p.nterm(2))]
    ts.append(smt(p.fla(1)))
    return ["(get-model)", "(get-value (" + " ".join(ts) + "))"]


def clausal_history(logic, rng, options=(), steps=None, after_check=None):
    """Push/pop history made of short clauses over few atoms: entailed units, unsat levels, satisfied clauses,
    nested frames whose conflicts need several levels, probes after pops. Returns like `history`."""
    p = Problem(logic, rng, nbool=rng.randint(4, 7), nnum=3)
    atoms = list(p.bools)
    if p.nums and rng.random() < 0.6:
        atoms += [p.atom() for _ in range(rng.randint(1, 4))]
    def lit():
        a = rng.choice(atoms)
        return a if rng.random() < 0.5 else ("app", "not", "Bool", [a])
    def clause():
        k = rng.choice([1, 2, 2, 2, 3])
        ls = [lit() for _ in range(k)]
        return ls[0] if k == 1 else ("app", "or", "Bool", ls)
    lines = [f"(set-option {o})" for o in options] + [p.set_logic()] + p.decls
    stack, checks = [[]], []
    def check():
        lines.append("(check-sat)")
        checks.append([x for fr in stack for x in fr])
        if after_check:
            lines.extend(after_check(p, rng))
    for _ in range(steps or rng.randint(14, 40)):
        c = rng.random()
        if c < 0.16 and len(stack) < 4:
            lines.append("(push 1)"); stack.append([])
        elif c < 0.30 and len(stack) > 1:
            lines.append("(pop 1)"); stack.pop()
            if rng.random() < 0.5:
                check()
        elif c < 0.75:
            a = clause()
            lines.append(f"(assert {smt(a)})"); stack[-1].append(a)
            if rng.random() < 0.25:          # complete a small unsat / unit-entailing pattern
                v = rng.choice(atoms)
                w = rng.choice(atoms)
                for cl in (("app", "or", "Bool", [v, w]), ("app", "or", "Bool", [v, ("app", "not", "Bool", [w])])):
                    lines.append(f"(assert {smt(cl)})"); stack[-1].append(cl)
        else:
            check()
    check()
    return p, "\n".join(lines) + "\n", checks


def steered_bool_history(rng, options=(), nvars=None, steps=None):
    """Propositional push/pop history steered by a brute-force oracle (<= 10 variables): keeps most levels
    satisfiable, builds levels whose unsatisfiability needs two nested frames, provokes real conflicts after pops,
    re-introduces variables that had no clause for a while, probes popped facts. Returns (script, expected answers)."""
    n = nvars or rng.randint(6, 10)
    names = [f"v{i}" for i in range(n)]
    lines = [f"(set-option {o})" for o in options] + ["(set-logic QF_UF)"] + [f"(declare-fun {v} () Bool)" for v in names]
    stack = [[]]          # clauses as lists of ints (+-(i+1))
    expected = []
    def clauses():
        return [c for fr in stack for c in fr]
    def models(cls):
        out = []
        for m in range(1 << n):
            if all(any(((m >> (abs(l) - 1)) & 1) == (1 if l > 0 else 0) for l in c) for c in cls):
                out.append(m)
        return out
    def entailed(cls):
        ms = models(cls)
        if not ms:
            return None
        ent = set()
        for i in range(n):
            vals = {(m >> i) & 1 for m in ms}
            if len(vals) == 1:
                ent.add((i + 1) if vals.pop() else -(i + 1))
        return ent
    def lit_s(l):
        return names[abs(l) - 1] if l > 0 else f"(not {names[abs(l) - 1]})"
    def add(c):
        stack[-1].append(c)
        lines.append("(assert %s)" % (lit_s(c[0]) if len(c) == 1 else "(or " + " ".join(lit_s(l) for l in c) + ")"))
    def check():
        lines.append("(check-sat)")
        expected.append("sat" if models(clauses()) else "unsat")
    def pair_entailing(l):
        w = rng.choice([x for x in range(1, n + 1) if x != abs(l)])
        add([l, w]); add([l, -w])
    for _ in range(steps or rng.randint(16, 36)):
        ent = entailed(clauses())
        if ent is None:                        # current stack unsat: leave the level (or stop at the base)
            if len(stack) == 1:
                break
            lines.append("(pop 1)"); stack.pop()
            if rng.random() < 0.6:
                check()
            continue
        c = rng.random()
        free = [l for i in range(1, n + 1) for l in (i, -i) if i not in ent and -i not in ent]
        if c < 0.15 and len(stack) < 4:
            lines.append("(push 1)"); stack.append([])
        elif c < 0.25 and len(stack) > 1:
            lines.append("(pop 1)"); stack.pop(); check()
        elif c < 0.40 and free:
            pair_entailing(rng.choice(free))                       # a unit that is entailed, not asserted
        elif c < 0.50 and len(stack) >= 3:
            lower = entailed([cl for fr in stack[:-1] for cl in fr]) or set()
            base = entailed([cl for fr in stack[:-2] for cl in fr]) or set()
            cand = [l for l in lower if l not in base]
            if cand:                                               # unsat that needs the two innermost frames
                pair_entailing(-rng.choice(cand)); check()
        elif c < 0.62:
            a, b = rng.sample(range(1, n + 1), 2)                  # conflict-provoking triple
            sa, sb = rng.choice([1, -1]), rng.choice([1, -1])
            for cl in ([sa * a, sb * b], [sa * a, -sb * b], [-sa * a, sb * b]):
                add(cl)
        elif c < 0.72 and ent:
            unused = [i for i in range(1, n + 1) if all(i not in map(abs, cl) for cl in clauses())]
            if len(unused) >= 2:                                   # satisfied clause introducing clause-less variables
                x, y = unused[0], unused[1]
                add([rng.choice(sorted(ent)), x, y])
                check()                                            # x, y reach the engine without any clause
                if rng.random() < 0.7:                             # ... and come back constrained
                    if rng.random() < 0.5 and len(stack) < 4:
                        lines.append("(push 1)"); stack.append([])
                    for cl in rng.sample([[x, y], [-x, y], [x, -y], [-x, -y]], rng.choice([3, 4])):
                        add(cl)
                    check()
            else:
                add([rng.choice([1, -1]) * x for x in rng.sample(range(1, n + 1), rng.choice([2, 3]))])
        elif c < 0.84:
            add([rng.choice([1, -1]) * x for x in rng.sample(range(1, n + 1), rng.choice([2, 2, 3]))])
        else:
            check()
    check()
    return "\n".join(lines) + "\n", expected
