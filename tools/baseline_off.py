#!/usr/bin/env python3
"""Builds /repo WITHOUT the OPENSMT_VERIF guard into a scratch directory and runs the repository's test suite."""
import subprocess, sys, os
from pathlib import Path
sys.path.insert(0, str(Path(__file__).resolve().parent))
import common
bd = common.WORK / f"baseline-off-{common.repo_key()}"
bd.mkdir(parents=True, exist_ok=True)
if not (bd / "build.ninja").exists():
    r = subprocess.run(["cmake", "-G", "Ninja", "-S", str(common.REPO), "-B", str(bd), "-DCMAKE_BUILD_TYPE=RelWithDebInfo",
                        "-DCMAKE_CXX_FLAGS=-Wno-error", "-DCPM_USE_LOCAL_PACKAGES=ON",
                        "-DFETCHCONTENT_SOURCE_DIR_GOOGLETEST=/usr/src/googletest", "-DFETCHCONTENT_UPDATES_DISCONNECTED=ON",
                        "-DFETCHCONTENT_TRY_FIND_PACKAGE_MODE=ALWAYS"])
    if r.returncode:
        sys.exit(r.returncode)
r = subprocess.run(["cmake", "--build", str(bd), "-j", str(common.JOBS)])
if r.returncode:
    sys.exit(r.returncode)
sys.exit(subprocess.run(["ctest", "--test-dir", str(bd), "-j8", "--timeout", "900"]).returncode)
