#!/usr/bin/env python3
"""Apply a seeded change to /repo, run the quick checks of the given properties against it, undo the change.
usage: selftest.py <patch.diff> <Cxx> [<Cyy> ...] [--seed N] [--tier quick|thorough]"""
import subprocess, sys, os, json, time
from pathlib import Path
VERIF = Path(__file__).resolve().parents[1]


def main():
    args = sys.argv[1:]
    seed, tier = "1", "quick"
    if "--seed" in args:
        i = args.index("--seed"); seed = args[i + 1]; del args[i:i + 2]
    if "--tier" in args:
        i = args.index("--tier"); tier = args[i + 1]; del args[i:i + 2]
    patch, props = args[0], args[1:]
    st = subprocess.run(["git", "-C", "/repo", "status", "--porcelain", "--untracked-files=no"], capture_output=True, text=True).stdout
    if st.strip():
        sys.exit("refusing: /repo has uncommitted changes to tracked files")
    r = subprocess.run(["git", "-C", "/repo", "apply", patch])
    if r.returncode:
        sys.exit("patch does not apply")
    results = {}
    try:
        for p in props:
            t0 = time.time()
            env = dict(os.environ, VERIF_SEED=seed)
            r = subprocess.run(["python3-vt", str(VERIF / "tools" / "verif.py"), "check", p, "--tier", tier], capture_output=True, text=True, env=env, cwd=VERIF)
            viol = [l for l in r.stdout.split("\n") if l.startswith("VIOLATION")]
            detail = [l for l in r.stdout.split("\n") if l.startswith("  ")][:3]
            results[p] = {"exit": r.returncode, "violations": len(viol), "first": (viol[:1] + detail[:1]), "wall_s": round(time.time() - t0, 1)}
            print(p, json.dumps(results[p])[:600], flush=True)
    finally:
        subprocess.run(["git", "-C", "/repo", "checkout", "--", "."])
    return 0


if __name__ == "__main__":
    main()
