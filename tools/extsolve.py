"""External solvers as untrusted proposers of models / verdicts."""
import subprocess, tempfile, os


def z3_run(script, timeout=10):
    with tempfile.NamedTemporaryFile("w", suffix=".smt2", delete=False) as f:
        f.write(script)
        p = f.name
    try:
        r = subprocess.run(["z3", f"-T:{timeout}", p], capture_output=True, text=True, timeout=timeout + 5)
        return r.stdout
    except subprocess.TimeoutExpired:
        return "timeout"
    finally:
        os.unlink(p)


def strip_options(script):
    return "\n".join(l for l in script.split("\n") if not l.startswith("(set-option")) + "\n"


def verdict(script):
    out = z3_run(strip_options(script))
    for l in out.split("\n"):
        if l.strip() in ("sat", "unsat", "unknown"):
            return l.strip()
    return "unknown"


def find_model(script):
    s = strip_options(script).replace("(check-sat)", "(check-sat)\n(get-model)")
    out = z3_run(s)
    if out.lstrip().startswith("sat"):
        return out[:2000]
    return None
