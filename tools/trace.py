"""Raw hook trace (Appendix A of DESIGN.md) -> structured Python objects and the Lean driver's `smt` input."""
import re
from collections import defaultdict
from fractions import Fraction
from urllib.parse import unquote

OPS = {"true": "tru", "false": "fls", "not": "not", "and": "and", "or": "or", "xor": "xor", "=>": "imp",
       "=": "eq", "ite": "ite", "distinct": "distinct", "+": "plus", "*": "times", "-": "minus", "/": "rdiv",
       "div": "idiv", "mod": "imod", "<=": "leq", "<": "lt", ">=": "geq", ">": "gt"}


def dec(s):
    return "" if s == "%" else unquote(s)


class Node:
    __slots__ = ("idx", "op", "args", "sort", "name", "raw")

    def __init__(self, idx, op, args, sort, name, raw):
        self.idx, self.op, self.args, self.sort, self.name, self.raw = idx, op, args, sort, name, raw

    def __repr__(self):
        return f"#{self.idx}:{self.op}{self.args}"


class TermTable:
    """Terms of one Logic instance, densely numbered in order of first appearance (children first)."""

    def __init__(self):
        self.nodes = []
        self.by_raw = {}
        self.decl = {}        # (name, sort, arity) -> declaration index
        self.sorts = {}       # uninterpreted sort name -> index
        self.has_arrays = False

    def sort_tok(self, s):
        if s == "Bool":
            return "B"
        if s == "Int":
            return "I"
        if s == "Real":
            return "R"
        if s.startswith("(Array") or s.startswith("Array"):
            self.has_arrays = True
        return "U%d" % self.sorts.setdefault(s, len(self.sorts))

    def add(self, raw_id, flags, sort, name, children):
        if raw_id in self.by_raw:          # a term is identified by its PTRef; repeated table lines are ignored
            return self.by_raw[raw_id]
        st = self.sort_tok(sort)
        args = [self.by_raw[c].idx for c in children]
        interpreted, const = flags & 1, flags & 2
        op = None
        if interpreted and const and st in ("I", "R"):
            op = "num:" + str(Fraction(name))
        elif const and st == "B" and name in ("true", "false") and not children:
            op = OPS[name]
        elif interpreted and name in OPS and name not in ("true", "false"):
            op = OPS[name]
        else:
            if name in ("select", "store"):
                self.has_arrays = True
            k = self.decl.setdefault((name, st, len(args)), len(self.decl))
            op = ("uf:%d:%s" if args else "var:%d:%s") % (k, st)
        n = Node(len(self.nodes), op, args, st, name, raw_id)
        self.nodes.append(n)
        self.by_raw[raw_id] = n
        return n

    def lean_lines(self):
        return ["T %d %s %s" % (n.idx, n.op, " ".join(map(str, n.args))) for n in self.nodes]

    def smt(self, idx):
        """SMT-LIB text of a term (for external solvers / replays)."""
        n = self.nodes[idx]
        if n.op.startswith("num:"):
            q = Fraction(n.op[4:])
            def num(v):
                s = str(abs(v)) + (".0" if n.sort == "R" else "")
                return s if v >= 0 else f"(- {s})"
            return num(q.numerator) if q.denominator == 1 else f"(/ {num(q.numerator)} {num(q.denominator)})"
        nm = n.name if re.fullmatch(r"[A-Za-z_~!@$%^&*+=<>.?/\-][A-Za-z0-9_~!@$%^&*+=<>.?/\-]*", n.name) else f"|{n.name}|"
        if not n.args:
            return nm
        return "(" + nm + " " + " ".join(self.smt(a) for a in n.args) + ")"

    def declarations(self):
        out = []
        for s in self.sorts:
            if not s.startswith("("):
                out.append(f"(declare-sort {s} 0)")
        seen = set()
        for n in self.nodes:
            if n.op.startswith(("var:", "uf:")) and n.name not in ("select", "store") and (n.name, len(n.args)) not in seen:
                seen.add((n.name, len(n.args)))
                nm = n.name if re.fullmatch(r"[A-Za-z_~!@$%^&*+=<>.?/\-][A-Za-z0-9_~!@$%^&*+=<>.?/\-]*", n.name) else f"|{n.name}|"
                out.append(f"(declare-fun {nm} ({' '.join(self.full_sort(a) for a in n.args)}) {self.full_sort(n.idx)})")
        return out

    def full_sort(self, idx):
        st = self.nodes[idx].sort
        if st == "B": return "Bool"
        if st == "I": return "Int"
        if st == "R": return "Real"
        k = int(st[1:])
        return [s for s, i in self.sorts.items() if i == k][0]


class Solver:
    def __init__(self, sid):
        self.sid = sid
        self.logic = None
        self.varmap = {}       # var (1-based DIMACS) -> dense term idx
        self.events = []       # (seq, "I", root, frameTerm|None, lits, frame) | (seq, "TH", kind, lits) | (seq, "L", lits)
                               # | (seq, "D", kind, lits) | (seq, "A", kind, lits)


class Trace:
    def __init__(self, path):
        self.logics = defaultdict(TermTable)
        self.solvers = {}
        self.main = []      # (seq, "as", ms, level, logic, term) (seq, "fr", ms, "push"/"pop", n) (seq, "chk", ms, s) (seq, "res", ms, status)
        self.order = []
        self.ms_of = {}     # solver id -> MainSolver id
        self.fk = []        # (logic, [(term idx, sign, coeff string)]) LA conflicts with the solver's coefficients
        seq = 0
        for line in open(path, errors="replace"):
            w = line.split()
            if not w:
                continue
            seq += 1
            tag = w[0]
            if tag == "t":
                self.logics[w[1]].add(int(w[2]), int(w[3]), dec(w[4]), dec(w[5]), [int(x) for x in w[6:]])
            elif tag == "v":
                s = self.solver(w[1])
                s.logic = w[3]
                s.varmap[int(w[2])] = self.logics[w[3]].by_raw[int(w[4])].idx
            elif tag == "i":
                s = self.solver(w[1])
                s.logic = w[3]
                tt = self.logics[w[3]]
                frame = int(w[2])
                root = tt.by_raw[int(w[4])].idx
                ft = tt.by_raw[int(w[5])].idx if frame != 0 else None
                s.events.append((seq, "I", root, ft, [int(x) for x in w[6:-1]], frame))
            elif tag == "th":
                self.solver(w[1]).events.append((seq, "TH", w[2], [int(x) for x in w[3:-1]]))
            elif tag == "l":
                self.solver(w[1]).events.append((seq, "L", [int(x) for x in w[2:-1]]))
            elif tag == "d":
                self.solver(w[1]).events.append((seq, "D", w[2], [int(x) for x in w[3:-1]]))
            elif tag == "a":
                self.solver(w[1]).events.append((seq, "A", w[2], [int(x) for x in w[3:-1]]))
            elif tag == "as":
                self.main.append((seq, "as", w[1], int(w[2]), w[3], self.logics[w[3]].by_raw[int(w[4])].idx))
            elif tag == "fr":
                self.main.append((seq, "fr", w[1], w[2], int(w[3])))
            elif tag == "chk":
                self.main.append((seq, "chk", w[1], w[2]))
                self.solver(w[2])
                self.ms_of[w[2]] = w[1]
            elif tag == "fk":
                tt = self.logics[w[2]]
                trip = []
                for i in range(3, len(w), 3):
                    trip.append((tt.by_raw[int(w[i])].idx, int(w[i + 1]), w[i + 2]))
                self.fk.append((w[2], trip))
            elif tag == "res":
                self.main.append((seq, "res", w[1], w[2]))
            else:
                self.main.append((seq,) + tuple(w))

    def solver(self, sid):
        if sid not in self.solvers:
            self.solvers[sid] = Solver(sid)
            self.order.append(sid)
        return self.solvers[sid]

    def merged(self, sid):
        """solver events and the owning MainSolver's events in emission order"""
        ms = self.ms_of.get(sid)
        evs = list(self.solvers[sid].events) + [e for e in self.main if ms is not None and e[2] == ms]
        return sorted(evs, key=lambda e: e[0])

    def lean_smt_input(self, sid, th_lines=None, issues=None):
        """Lines for `osmt-model smt`. `th_lines` maps the seq number of a TH event to its replacement line
        (with certificate). Answers given by MainSolver without a SAT-engine call (formula simplified to false,
        remembered unsat frame) are replayed as `A unsat` under the assumptions of the active frames, so they too
        must be confirmed by propagation. `issues` collects frame-assumption mismatches."""
        s = self.solvers[sid]
        if s.logic is None:
            return []
        tt = self.logics[s.logic]
        out = tt.lean_lines()
        nv = max(s.varmap) if s.varmap else 0
        for v, t in sorted(s.varmap.items()):
            out.append(f"V {v - 1} {t}")
        out.append(f"F {nv + 2}")
        term2var = {t: v for v, t in s.varmap.items()}
        frame_term = {}
        active = []
        answered = True
        for e in self.merged(sid):
            k = e[1]
            if k == "I":
                if e[5] != 0:
                    frame_term[e[5]] = e[3]
                out.append("I %d %s %s 0" % (e[2], "-" if e[3] is None else e[3], " ".join(map(str, e[4]))))
            elif k == "TH":
                out.append(th_lines[e[0]] if th_lines and e[0] in th_lines else "TH %s %s 0" % (e[2], " ".join(map(str, e[3]))))
            elif k in ("L", "D"):
                out.append("L %s 0" % " ".join(map(str, e[-1])))
            elif k == "A":
                answered = True
                out.append("A %s %s 0" % (e[2], " ".join(map(str, e[3]))))
                if e[2] in ("sat", "unsat") and issues is not None:
                    exp = set()
                    for f, ft in frame_term.items():
                        if ft in term2var:
                            exp.add(-term2var[ft] if f in active else term2var[ft])
                    got = set(e[3]) if e[2] == "unsat" else {l for l in e[3] if abs(l) in {abs(x) for x in exp}}
                    if not exp <= got and e[2] == "sat" or (e[2] == "unsat" and got != exp):
                        issues.append({"kind": "frame-assumptions", "expected": sorted(exp), "got": sorted(got), "seq": e[0]})
            elif k == "fr":
                if e[3] == "push":
                    active.append(e[4])
                elif active:
                    active.pop()
            elif k == "chk":
                answered = False
            elif k == "res":
                if e[3] in ("unsat", "unsat-frame") and not answered:
                    lits = [-term2var[frame_term[f]] for f in active if f in frame_term and frame_term[f] in term2var]
                    out.append("A unsat %s 0" % " ".join(map(str, lits)))
                    answered = True
        return out
