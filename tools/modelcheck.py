"""Evaluation of opensmt's printed models / values in the Lean evaluator (`osmt-model model`)."""
import os
import common, smtlib


def align_outputs(script, stdout):
    """Pair every command with the s-expression opensmt printed for it. Requires `(set-option :print-success true)`
    as the first command, so that every command prints exactly one response."""
    try:
        outs = smtlib.parse_sexps(stdout)
    except smtlib.ParseError as e:
        return None, f"unparsable output: {e}"
    # a rejected assert prints two diagnostics (the reason, then "assertion returns an unknown sort"): fold them
    folded = []
    for o in outs:
        if folded and is_error(o) and is_error(folded[-1]) and len(o) > 1 and o[1] == ("str", "assertion returns an unknown sort"):
            continue
        folded.append(o)
    outs = folded
    res, k = [], 0
    for i, (name, payload) in enumerate(script.commands):
        if name == "exit":
            break
        if k >= len(outs):
            res.append((i, name, None))
        else:
            res.append((i, name, outs[k]))
            k += 1
    return res, outs[k:]


def is_error(sx):
    return isinstance(sx, list) and sx and smtlib.sym(sx[0]) == "error"


def lean_eval(table, abs_items, defs, term_ids, want_wf=True):
    """returns list of value strings for term_ids (and 'wf'/'ill-sorted' last if want_wf)"""
    lines = table.lean_lines()
    for (name, srt), k in abs_items:
        lines.append(f"ABS {k} {srt} {int(name[1:]) if name[1:].isdigit() else 100000 + abs(hash(name)) % 100000}")
    for (k, res, params, body, name) in defs:
        lines.append("DEF %d %s %d %s %d" % (k, res, len(params), " ".join(f"{pk} {ps}" for pk, ps in params), body))
    for t in term_ids:
        lines.append(f"E {t}")
    if want_wf:
        lines.append("W")
    p = common.WORK / f"model-{os.getpid()}.in"
    p.write_text("\n".join(lines) + "\n")
    r = common.sh([str(common.model_exe()), "model", str(p)])
    p.unlink(missing_ok=True)
    return r.stdout.split()


def check_models(script_text, stdout, expect_legal=True):
    """For every sat check followed by get-model: all active assertions must evaluate to true, every declared symbol
    must be defined, get-value pairs must agree with the model. Returns (n_models_checked, problems, stats)."""
    sc = smtlib.Script(script_text)
    al, extra = align_outputs(sc, stdout)
    if al is None:
        return 0, [extra], {}
    rejected = {i for i, name, out in al if is_error(out)}
    active = sc.active_assertions_at_checks(rejected)
    problems, nmodels, stats = [], 0, {"assertions": 0, "values": 0, "rejected_commands": len(rejected)}
    if expect_legal:
        for i, name, out in al:
            if i in rejected and name in ("assert", "push", "pop", "declare-fun", "declare-const", "define-fun"):
                problems.append({"what": f"command #{i} ({name}) of a legal script is rejected: {smtlib.unparse(out)[:200]}"})
                break
    chk_no = -1
    last_answer, last_defs = None, None
    declared_so_far = []
    pos = {i: (name, out) for i, name, out in al}
    for i, (name, payload) in enumerate(sc.commands):
        if name in ("declare-fun", "declare-const") and i not in rejected:
            declared_so_far.append(payload)
        if i not in pos:
            continue
        _, out = pos[i]
        if name == "check-sat":
            chk_no += 1
            last_answer = smtlib.sym(out) if out is not None else None
            last_defs = None
        elif name == "get-model" and last_answer == "sat":
            if out is None or is_error(out):
                problems.append({"what": "get-model after sat gives an error", "output": str(out)})
                continue
            defs, probs = smtlib.parse_model(sc.table, out)
            for pr in probs:
                problems.append({"what": pr})
            defined = {d[4] for d in defs}
            for s in declared_so_far:
                if s not in defined:
                    problems.append({"what": f"declared symbol {s} has no definition in the model"})
            ids = [a for a, _ in active[chk_no]]
            vals = lean_eval(sc.table, list(sc.table.abstract.items()), defs, ids)
            nmodels += 1
            stats["assertions"] += len(ids)
            if len(vals) != len(ids) + 1:
                problems.append({"what": "evaluator output mismatch", "vals": vals})
                continue
            for (a, nm), v in zip(active[chk_no], vals):
                if v != "b:true":
                    problems.append({"what": "assertion evaluates to %s under the printed model" % v, "assertion_index": a,
                                     "check": chk_no, "model": str(out)[:1500]})
            if vals[-1] != "wf":
                problems.append({"what": "model gives a constant a value outside its sort (e.g. non-integer Int)",
                                 "model": str(out)[:1500]})
            last_defs = defs
        elif name == "get-value" and last_answer == "sat" and last_defs is not None:
            if out is None or is_error(out) or len(out) != len(payload):
                problems.append({"what": "get-value after sat malformed", "output": str(out)[:300]})
                continue
            vterms = []
            try:
                for pair in out:
                    vterms.append(sc.table.term(pair[1]))
                    op = sc.table.nodes[vterms[-1]][0]
                    if not (op in ("tru", "fls", "rdiv", "minus") or op.startswith(("num:", "var:"))):
                        stats["non_value_answers"] = stats.get("non_value_answers", 0) + 1
            except smtlib.ParseError as e:
                problems.append({"what": f"get-value value unparsable: {e}"})
                continue
            vals = lean_eval(sc.table, list(sc.table.abstract.items()), last_defs, list(payload) + vterms, want_wf=False)
            stats["values"] += len(payload)
            n = len(payload)
            for j in range(n):
                if len(vals) != 2 * n or vals[j] != vals[n + j]:
                    problems.append({"what": "get-value disagrees with the model", "term_index": payload[j],
                                     "model_value": vals[j] if len(vals) == 2 * n else None,
                                     "printed": vals[n + j] if len(vals) == 2 * n else str(out)[:300]})
    return nmodels, problems, stats
