"""Evaluation of terms of a smtlib.Table under explicit assignments in the Lean evaluator; import of hook-trace terms
into such a table (declared symbols are matched by name)."""
import os
from fractions import Fraction
import common, smtlib


def import_trace_term(table, tt, idx, cache=None, fresh=None):
    """copy node `idx` of a trace.TermTable into the smtlib.Table, resolving declared symbols by name.
    Symbols unknown to the script (solver-internal auxiliaries) are declared on the fly and recorded in `fresh`."""
    cache = {} if cache is None else cache
    if idx in cache:
        return cache[idx]
    n = tt.nodes[idx]
    args = [import_trace_term(table, tt, a, cache, fresh) for a in n.args]
    op = n.op
    if op.startswith(("var:", "uf:")):
        if n.name not in table.decls:
            table.declare(n.name, [table.sort(a) for a in args], n.sort)
            if fresh is not None:
                fresh.append(n.name)
        k, asorts, res = table.decls[n.name]
        op = ("uf:%d:%s" if args else "var:%d:%s") % (k, res)
        r = table.mk(op, args, res)
    else:
        r = table.mk(op, args, n.sort)
    cache[idx] = r
    return r


def num_term(table, q, sort):
    return table.mk("num:" + str(Fraction(q)), (), sort)


def eval_under(table, assignments, term_ids, fun_defs=()):
    """assignments: list of dicts symbol name -> value (bool | Fraction | int for uninterpreted element);
    fun_defs: list of (name, [(param name)], body builder) is not needed here: functions are given as
    dict name -> (params sorts, python callable) evaluated into ite-tables is out of scope; UF symbols get the
    default interpretation unless `fun_defs` gives DEF lines directly.
    Returns list (per assignment) of list of value strings."""
    lines_head = None
    blocks = []
    for asg in assignments:
        block = ["RESET"]
        for name, val in asg.items():
            k, asorts, res = table.decls[name]
            if asorts:
                continue
            if res == "B":
                body = table.mk("tru" if val else "fls", (), "B")
                block.append(f"DEF {k} B 0 {body}")
            elif res in ("I", "R"):
                body = num_term(table, val, res)
                block.append(f"DEF {k} {res} 0 {body}")
            else:
                block.append(f"ABS {k} {res} {int(val)}")
        block += list(fun_defs)
        block += [f"E {t}" for t in term_ids]
        blocks.append(block)
    lines = table.lean_lines()
    for b in blocks:
        lines += b
    p = common.WORK / f"termeval-{os.getpid()}.in"
    p.write_text("\n".join(lines) + "\n")
    r = common.sh([str(common.model_exe()), "model", str(p)])
    p.unlink(missing_ok=True)
    vals = r.stdout.split()
    n = len(term_ids)
    return [vals[i * n:(i + 1) * n] for i in range(len(assignments))]


def grid(table, rng, count, numeric=(-3, -2, -1, 0, 1, 2, 3, 7), fractions=True):
    """random assignments for all declared constants"""
    out = []
    for j in range(count):
        asg = {}
        for name, (k, asorts, res) in table.decls.items():
            if asorts:
                continue
            if res == "B":
                asg[name] = rng.random() < 0.5
            elif res == "I":
                asg[name] = Fraction(rng.choice(numeric) if j % 4 else rng.choice([0, 1, -1, 2**31, -2**31 - 1, 2**32 + 1]))
            elif res == "R":
                asg[name] = Fraction(rng.choice(numeric), rng.choice([1, 1, 2, 3]) if fractions else 1)
            else:
                asg[name] = rng.randint(0, 2)
        out.append(asg)
    return out


def uf_defs(table, rng):
    """DEF/ABS lines giving every declared function symbol a non-trivial interpretation (chosen at random from a few
    templates): numeric functions are affine in their arguments, functions into an uninterpreted sort permute three
    abstract elements, predicates are thresholds / element tests."""
    lines = []
    absv = {}
    def elem(srt, j):
        key = (srt, j)
        if key not in absv:
            k = table.ndecl
            table.ndecl += 1
            absv[key] = table.mk(f"var:{k}:{srt}", (), srt)
            lines.append(f"ABS {k} {srt} {j}")
        return absv[key]
    for name, (k, asorts, res) in list(table.decls.items()):
        if not asorts:
            continue
        params = []
        pterms = []
        for s in asorts:
            pk = table.ndecl
            table.ndecl += 1
            params.append((pk, s))
            pterms.append(table.mk(f"var:{pk}:{s}", (), s))
        nums = [t for t, s in zip(pterms, asorts) if s in ("I", "R")]
        us = [(t, s) for t, s in zip(pterms, asorts) if s.startswith("U")]
        if res in ("I", "R"):
            body = num_term(table, rng.randint(-2, 2), res)
            for t in nums:
                c = num_term(table, rng.choice([1, 2, -1, 3]), res)
                body = table.mk("plus", (body, table.mk("times", (c, t), res)), res)
            for t, s in us:
                body = table.mk("ite", (table.mk("eq", (t, elem(s, 1)), "B"), table.mk("plus", (body, num_term(table, 5, res)), res), body), res)
        elif res == "B":
            if nums:
                body = table.mk("leq", (num_term(table, rng.randint(-1, 2), "I"), nums[0]), "B")
                if len(nums) > 1:
                    body = table.mk("xor", (body, table.mk("lt", (nums[1], nums[0]), "B")), "B")
            elif us:
                body = table.mk("eq", (us[0][0], elem(us[0][1], rng.randint(0, 2))), "B")
            else:
                body = table.mk("tru", (), "B")
        else:
            # into an uninterpreted sort: rotate three elements depending on the first argument
            if us:
                t, s = us[0]
                sh = rng.randint(1, 2)
                body = table.mk("ite", (table.mk("eq", (t, elem(s, 0)), "B"), elem(res, sh % 3),
                                table.mk("ite", (table.mk("eq", (t, elem(s, 1)), "B"), elem(res, (1 + sh) % 3), elem(res, (2 + sh) % 3)), res)), res)
                if len(us) > 1:
                    body = table.mk("ite", (table.mk("eq", (us[1][0], elem(us[1][1], 2)), "B"), elem(res, 0), body), res)
            elif nums:
                body = table.mk("ite", (table.mk("leq", (num_term(table, 0, "I"), nums[0]), "B"), elem(res, 1), elem(res, 2)), res)
            else:
                body = elem(res, 0)
        lines.append("DEF %d %s %d %s %d" % (k, res, len(params), " ".join(f"{pk} {ps}" for pk, ps in params), body))
    return lines
