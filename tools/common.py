"""Shared machinery of the opensmt verification checks: paths, builds of /repo flavours, the Lean build and
axiom audit, evidence files, known findings, VIOLATION reporting."""
import fcntl, hashlib, json, os, random, re, shutil, subprocess, sys, time
from pathlib import Path

VERIF = Path(__file__).resolve().parents[1]
REPO = Path(os.environ.get("VERIF_REPO", "/repo")).resolve()
WORK = Path(os.environ.get("VERIF_WORK", "/var/tmp/opensmt-verif"))
LEAN = VERIF / "lean"
GUARD = "OPENSMT_VERIF"
ALLOWED_AXIOMS = {"propext", "Classical.choice", "Quot.sound"}
JOBS = os.cpu_count() or 8


def sh(cmd, **kw):
    kw.setdefault("capture_output", True)
    kw.setdefault("text", True)
    return subprocess.run(cmd, **kw)


def repo_key():
    return hashlib.sha1(str(REPO).encode()).hexdigest()[:8]


class Lock:
    def __init__(self, path):
        self.path = path

    def __enter__(self):
        self.path.parent.mkdir(parents=True, exist_ok=True)
        self.f = open(self.path, "w")
        fcntl.flock(self.f, fcntl.LOCK_EX)
        return self

    def __exit__(self, *a):
        fcntl.flock(self.f, fcntl.LOCK_UN)
        self.f.close()


FLAVOURS = {
    # name: (build type, extra cxx flags, extra cmake args)
    "hooks": ("Release", f"-D{GUARD} -Wno-error", []),
    "plain": ("Release", "-Wno-error", []),
    "asan": ("RelWithDebInfo", f"-D{GUARD} -Wno-error -fsanitize=address,undefined -fno-sanitize-recover=undefined "
             "-fno-omit-frame-pointer", []),
    "tsan": ("RelWithDebInfo", f"-D{GUARD} -Wno-error -fsanitize=thread -fno-omit-frame-pointer", []),
}


def build_dir(flavour):
    return WORK / f"{flavour}-{repo_key()}"


def build_repo(flavour="hooks", targets=("OpenSMT-bin",)):
    """(Re)build /repo's current working tree in a scratch directory; returns the build directory.
    Incremental: after a source edit only the changed objects are recompiled."""
    bt, cxx, extra = FLAVOURS[flavour]
    bd = build_dir(flavour)
    with Lock(WORK / f".lock-{flavour}-{repo_key()}"):
        bd.mkdir(parents=True, exist_ok=True)
        if not (bd / "build.ninja").exists():
            r = sh(["cmake", "-G", "Ninja", "-S", str(REPO), "-B", str(bd), f"-DCMAKE_BUILD_TYPE={bt}",
                    f"-DCMAKE_CXX_FLAGS={cxx}", "-DPACKAGE_TESTS=OFF", "-DBUILD_SHARED_LIBS=OFF"] + extra)
            if r.returncode != 0:
                raise RuntimeError("cmake configure failed:\n" + r.stdout[-3000:] + r.stderr[-3000:])
        r = sh(["cmake", "--build", str(bd), "-j", str(JOBS)] + (["--target"] + list(targets) if targets else []))
        if r.returncode != 0:
            raise RuntimeError("build of /repo failed:\n" + r.stdout[-4000:] + r.stderr[-2000:])
    return bd


def opensmt_bin(flavour="hooks"):
    return build_repo(flavour) / "opensmt"


def compile_harness(name, sources, flavour=None, extra_flags=(), link_lib=False):
    """Compile a C++ harness from /verif/harness against /repo's current sources. Header-only harnesses
    (link_lib=False) only need include paths; others link libopensmt.a of the given flavour."""
    out_dir = WORK / f"harness-{repo_key()}"
    out_dir.mkdir(parents=True, exist_ok=True)
    exe = out_dir / name
    cmd = ["g++", "-std=c++20", "-O1", "-g", f"-D{GUARD}", f"-I{REPO}/src", f"-I{REPO}/src/common"]
    cmd += list(extra_flags) + [str(VERIF / "harness" / s) for s in sources]
    if link_lib:
        bd = build_repo(flavour or "hooks", targets=("OpenSMT-static",))
        cmd += [f"-I{bd}/src", str(bd / "lib" / "libopensmt.a")]
    cmd += ["-lgmpxx", "-lgmp", "-lpthread", "-o", str(exe)]
    with Lock(WORK / f".lock-harness-{name}-{repo_key()}"):
        r = sh(cmd)
    if r.returncode != 0:
        raise RuntimeError(f"harness {name} failed to compile against the current tree:\n" + r.stderr[-4000:])
    return exe


# ------------------------------------------------------------------------------------------------ Lean

def lean_build():
    """`lake build` of the model library, the proofs and the driver. Every theorem is re-checked by the
    kernel whenever its file (or a dependency) changed; otherwise this is a no-op."""
    with Lock(WORK / ".lock-lean"):
        r = sh(["lake", "build"], cwd=LEAN)
    return r.returncode == 0, (r.stdout + r.stderr)[-6000:]


def model_exe():
    return LEAN / ".lake" / "build" / "bin" / "osmt-model"


FORBIDDEN = re.compile(r"\b(sorry|admit|native_decide|bv_decide|implemented_by|unsafe)\b|^\s*axiom\s|maxHeartbeats\s+0")


def forbidden_scan():
    hits = []
    for sub in ("Osmt", "OsmtProofs"):
        for p in sorted((LEAN / sub).rglob("*.lean")):
            in_block = False
            for n, line in enumerate(p.read_text().split("\n"), 1):
                code = line
                if in_block:
                    if "-/" in code:
                        in_block = False
                    continue
                if "/-" in code:
                    if "-/" not in code.split("/-", 1)[1]:
                        in_block = True
                    code = code.split("/-", 1)[0]
                code = code.split("--", 1)[0]
                if FORBIDDEN.search(code):
                    hits.append(f"{p.relative_to(LEAN)}:{n}: {line.strip()}")
    return hits


def lean_audit(theorems, imports=("OsmtProofs",)):
    """Run `#print axioms` on each theorem; returns {name: set(axioms) | None (missing / failed)}."""
    adir = WORK / "audit"
    adir.mkdir(parents=True, exist_ok=True)
    f = adir / f"Audit_{os.getpid()}.lean"
    f.write_text("".join(f"import {i}\n" for i in imports) + "".join(f"#print axioms {t}\n" for t in theorems))
    r = sh(["lake", "env", "lean", str(f)], cwd=LEAN)
    out = r.stdout + r.stderr
    f.unlink(missing_ok=True)
    res = {t: None for t in theorems}
    for m in re.finditer(r"'([^']+)' depends on axioms: \[([^\]]*)\]", out):
        res[m.group(1)] = {a.strip() for a in m.group(2).replace("\n", " ").split(",") if a.strip()}
    for m in re.finditer(r"'([^']+)' does not depend on any axioms", out):
        res[m.group(1)] = set()
    return res, out


# --------------------------------------------------------------------------------------------- checks

def known_findings():
    p = VERIF / "known_findings.json"
    return json.loads(p.read_text()) if p.exists() else []


class Check:
    """One run of one property's check: collects obligations, exploration counts, violations; writes the
    evidence file; prints KNOWN-FINDING / VIOLATION lines; returns the exit code."""

    def __init__(self, pid, tier):
        self.pid, self.tier = pid, tier
        self.seed = int(os.environ.get("VERIF_SEED", "1"))
        self.rng = random.Random(f"{pid}-{self.seed}")
        self.t0 = time.time()
        self.obligations = 0
        self.discharged = 0
        self.cov = {"evaluations": 0, "distinct_nontrivial": 0, "samples": [], "traces_validated_against_impl": 0}
        self.violations = []        # (kind, what, replay dict)
        self.known_hits = []
        self.assumptions = []
        self.trusted = []
        self.checker_cmd = "lake build (Lean 4.33 kernel) + #print axioms audit + correspondence run"
        self.notes = {}
        self.replay_dir = VERIF / "replays" / pid
        self._distinct = set()

    # -- obligations
    def lean_obligations(self, theorems):
        """Lean side of the check: library builds, no forbidden constructs, each theorem present with an
        allowed axiom set. A failure is a broken proof obligation."""
        ok, log = lean_build()
        self.obligations += 1
        if ok:
            self.discharged += 1
        else:
            self.violation("proof", "lake build failed: a theorem or model no longer checks", {"log": log[-3000:]},
                           found_input=False)
            return False
        hits = forbidden_scan()
        self.obligations += 1
        if hits:
            self.violation("proof", "forbidden construct in Lean sources", {"hits": hits}, found_input=False)
        else:
            self.discharged += 1
        res, out = lean_audit(theorems)
        self.notes["axioms"] = {}
        for t in theorems:
            self.obligations += 1
            ax = res.get(t)
            if ax is None:
                self.violation("proof", f"theorem {t} missing or not checked", {"theorem": t, "lean_output": out[-1500:]},
                               found_input=False)
            elif not ax <= ALLOWED_AXIOMS:
                self.violation("proof", f"theorem {t} depends on disallowed axioms {sorted(ax - ALLOWED_AXIOMS)}",
                               {"theorem": t}, found_input=False)
            else:
                self.discharged += 1
                self.notes["axioms"][t] = sorted(ax)
        if self.tier == "thorough":
            # independent re-check of the compiled property module (and everything it imports) by leanchecker
            mod = {"C07": "C06", "C09": "C08"}.get(self.pid, self.pid)
            if (LEAN / "OsmtProofs" / "Properties" / f"{mod}.lean").exists():
                with Lock(WORK / ".lock-lean"):
                    r = sh(["lake", "env", "leanchecker", f"OsmtProofs.Properties.{mod}"], cwd=LEAN)
                self.obligations += 1
                if r.returncode == 0:
                    self.discharged += 1
                    self.notes["leanchecker"] = f"OsmtProofs.Properties.{mod}: accepted"
                else:
                    self.violation("proof", f"leanchecker rejects OsmtProofs.Properties.{mod}", {"log": (r.stdout + r.stderr)[-2000:]},
                                   found_input=False)
        return not self.violations

    def obligation(self, ok):
        """one correspondence obligation; when it fails, the violations reported next are attached to it, and it
        still counts as discharged if all of them are listed known findings"""
        self._settle()
        self.obligations += 1
        if ok:
            self.discharged += 1
        else:
            self._pending = {"real": 0, "known": 0}

    def _settle(self):
        p = getattr(self, "_pending", None)
        if p and p["real"] == 0 and p["known"] > 0:
            self.discharged += 1
            self.excused = getattr(self, "excused", 0) + 1
        self._pending = None

    # -- exploration bookkeeping
    def case(self, key=None, nontrivial=True, sample=None):
        self.cov["evaluations"] += 1
        if nontrivial and key is not None and key not in self._distinct:
            self._distinct.add(key)
        if sample is not None and len(self.cov["samples"]) < 5:
            self.cov["samples"].append(sample)

    # -- violations
    def violation(self, kind, what, replay, found_input=True, match_key=None):
        """Record a violation unless it is a listed known finding (matched by `match_key`)."""
        for kf in known_findings():
            if kf.get("property") == self.pid and kf.get("kind") == "finding" and match_key is not None \
                    and kf.get("match") == match_key:
                if kf["id"] not in [k["id"] for k in self.known_hits]:
                    self.known_hits.append(kf)
                if getattr(self, "_pending", None):
                    self._pending["known"] += 1
                return
        if getattr(self, "_pending", None):
            self._pending["real"] += 1
        self.violations.append((kind, what, replay, found_input))

    def finish(self, level="proof", rule="", extra=None):
        self._settle()
        wall = time.time() - self.t0
        self.cov["distinct_nontrivial"] = len(self._distinct)
        cov = dict(self.cov)
        cov.update({"obligations": self.obligations, "discharged": self.discharged, "checker_cmd": self.checker_cmd,
                    "trusted_base": self.trusted or DEFAULT_TRUSTED, "rule": rule})
        if extra:
            cov.update(extra)
        cov.update(self.notes)
        ev = {"property_id": self.pid, "tier": self.tier, "seed": self.seed, "level": level, "coverage": cov,
              "assumptions": self.assumptions, "wall_s": round(wall, 2), "violations": len(self.violations),
              "known_findings_hit": [k["id"] for k in self.known_hits],
              "obligations_excused_by_known_findings": getattr(self, "excused", 0)}
        (VERIF / "evidence").mkdir(exist_ok=True)
        (VERIF / "evidence" / f"{self.pid}.json").write_text(json.dumps(ev, indent=1, default=str))
        for kf in self.known_hits:
            print(f"KNOWN-FINDING: property={self.pid} {kf['what']}")
        rc = 0
        for n, (kind, what, replay, found) in enumerate(self.violations[:10]):
            self.replay_dir.mkdir(parents=True, exist_ok=True)
            rp = self.replay_dir / f"{self.tier}-{self.seed}-{n}.json"
            rp.write_text(json.dumps({"property": self.pid, "seed": self.seed, "tier": self.tier, "kind": kind,
                                      "what": what, **replay}, indent=1, default=str))
            print(f"VIOLATION property={self.pid} replay={rp}" + ("" if found else " no-failing-input-found"))
            print(f"  {kind}: {what}")
            rc = 1
        print(f"{self.pid} {self.tier} seed={self.seed}: obligations {self.discharged}/{self.obligations}, "
              f"evaluations {cov['evaluations']}, distinct {cov['distinct_nontrivial']}, "
              f"violations {len(self.violations)}, known {len(self.known_hits)}, {wall:.1f}s")
        return rc


DEFAULT_TRUSTED = [
    "Lean 4.33 kernel; axioms propext, Classical.choice, Quot.sound only (audited per run with #print axioms)",
    "the Lean statements (Osmt/Term.lean semantics and OsmtProofs/Properties/*.lean)",
    "the correspondence machinery: guarded hooks in /repo, /verif/tools (trace conversion, generators), /verif/harness",
    "g++ / libstdc++ / GMP as used to build /repo",
]
