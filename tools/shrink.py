"""Greedy line-based minimisation of failing scripts (delta debugging, one command per line)."""


def shrink_lines(lines, still_fails, keep_prefix=("(set-option", "(set-logic", "(declare-")):
    lines = list(lines)
    changed = True
    while changed:
        changed = False
        i = len(lines) - 1
        while i >= 0:
            if not lines[i].startswith(keep_prefix) or True:
                cand = lines[:i] + lines[i + 1:]
                try:
                    ok = still_fails(cand)
                except Exception:
                    ok = False
                if ok:
                    lines = cand
                    changed = True
            i -= 1
    return lines


def shrink_script(script, still_fails_text):
    lines = [l for l in script.split("\n") if l.strip()]
    out = shrink_lines(lines, lambda ls: still_fails_text("\n".join(ls) + "\n"))
    return "\n".join(out) + "\n"
