#!/bin/bash
# runs every registered check's quick command on the current tree (evidence files are rewritten)
cd "$(dirname "$0")/.."
for p in $(python3 -c "import json; print(' '.join(c['property_id'] for c in json.load(open('MANIFEST.json'))['checks']))"); do
  python3-vt tools/verif.py check $p --tier quick 2>&1 | tail -${TAILN:-2} | cut -c1-220
done
