#!/usr/bin/env python3
"""Parallel sweep of the seeded changes: every seeded/*/patch.diff is applied to a private copy of /repo (one git worktree per
lane, with its own scratch build directory), the checks recorded as detecting it are run against that copy, the copy is
reverted.  /repo itself is never touched.  usage: psweep.py [--lanes N] [--seed S] [--only id-prefix ...]
Writes seeded/sweep-seed<S>.json and the `final_sweep` entry of every meta.json."""
import json, os, re, subprocess, sys, time, datetime
from concurrent.futures import ThreadPoolExecutor
from pathlib import Path
from queue import Queue

V = Path(__file__).resolve().parents[1]
args = sys.argv[1:]
lanes = int(args[args.index("--lanes") + 1]) if "--lanes" in args else 3
seed = args[args.index("--seed") + 1] if "--seed" in args else "1"
only = args[args.index("--only") + 1:] if "--only" in args else []
BASE = Path("/var/tmp/opensmt-verif-lanes")


def sh(cmd, **kw):
    return subprocess.run(cmd, capture_output=True, text=True, **kw)


def lane_setup(i):
    d = BASE / f"lane{i}"
    repo = d / "repo"
    (d / "work").mkdir(parents=True, exist_ok=True)
    head = sh(["git", "-C", "/repo", "rev-parse", "HEAD"]).stdout.strip()
    if not (repo / ".git").exists():
        sh(["git", "-C", "/repo", "worktree", "prune"])
        r = sh(["git", "-C", "/repo", "worktree", "add", "--detach", str(repo), head])
        if r.returncode:
            raise RuntimeError(r.stderr)
    else:
        sh(["git", "-C", str(repo), "checkout", "--", "."])
        sh(["git", "-C", str(repo), "checkout", "-q", "--detach", head])
    return repo, d / "work"


def checks_of(meta):
    cs = []
    for k, v in meta.get("detected_by", {}).items():
        c = k.split()[0]
        if re.match(r"C\d\d$", c) and not v.lower().startswith("not detected") and c not in cs:
            cs.append(c)
    return cs or [meta["property"]]


def run_one(job, lane):
    mpath, meta = job
    repo, work = lane
    patch = mpath.parent / "patch.diff"
    out = {}
    r = sh(["git", "-C", str(repo), "apply", str(patch)])
    if r.returncode:
        return {"_error": "patch does not apply: " + r.stderr[-200:]}
    try:
        for c in checks_of(meta):
            env = dict(os.environ, VERIF_SEED=seed, VERIF_REPO=str(repo), VERIF_WORK=str(work))
            t0 = time.time()
            r = sh(["python3-vt", str(V / "tools" / "verif.py"), "check", c, "--tier", "quick"], env=env, cwd=str(V))
            viol = [l for l in r.stdout.split("\n") if l.startswith("VIOLATION")]
            out[c] = {"exit": r.returncode, "violations": len(viol), "wall_s": round(time.time() - t0, 1),
                      "first": ([l.strip() for l in r.stdout.split("\n") if l.startswith("  ")][:1] or [""])[0][:200]}
    finally:
        sh(["git", "-C", str(repo), "checkout", "--", "."])
    return out


def main():
    jobs = []
    for m in sorted((V / "seeded").glob("*/meta.json")):
        d = json.load(open(m))
        if only and not any(d["id"].startswith(o) for o in only):
            continue
        if (m.parent / "patch.diff").exists():
            jobs.append((m, d))
    q = Queue()
    for i in range(lanes):
        q.put(lane_setup(i))
    rows = {}

    def work(job):
        lane = q.get()
        try:
            res = run_one(job, lane)
        finally:
            q.put(lane)
        rows[job[1]["id"]] = res
        print(job[1]["id"], json.dumps(res)[:400], flush=True)
        return res

    with ThreadPoolExecutor(lanes) as ex:
        list(ex.map(work, jobs))
    when = datetime.date.today().isoformat()
    for m, d in jobs:
        res = rows.get(d["id"], {})
        d["final_sweep"] = {"when": f"{when}, final tree, quick tier, seed {seed}",
                            "results": {c: (f"detected ({v['violations']} violations)" if v.get("exit") == 1 else "NOT detected")
                                        for c, v in res.items() if not c.startswith("_")}}
        if "_error" in res:
            d["final_sweep"]["results"] = {"-": res["_error"]}
        json.dump(d, open(m, "w"), indent=1)
    json.dump(rows, open(V / "seeded" / f"sweep-seed{seed}.json", "w"), indent=1)
    missed = [i for i, r in rows.items() if not any(v.get("exit") == 1 for c, v in r.items() if not c.startswith("_"))]
    print("seeded changes:", len(rows), "not detected by any recorded check:", missed)


if __name__ == "__main__":
    main()
