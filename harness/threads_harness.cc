// Threads harness.  Usage: threads_harness par|stop|gstop <threads> <seed> <rounds>
//   par:   every round builds <threads> random arithmetic instances (coefficients beyond the machine word), solves each alone
//          (reference) and then all at the same time, one solver / logic / config per thread; prints MISMATCH on any difference.
//   stop:  every round solves one instance in a thread while the main thread calls notifyStop() after a random delay;
//   gstop: the same with notifyGlobalStop().  The answer must be unknown or the reference answer.
#include <api/GlobalStop.h>
#include <api/MainSolver.h>
#include <logics/ArithLogic.h>
#include <chrono>
#include <cstdio>
#include <cstdlib>
#include <memory>
#include <random>
#include <string>
#include <thread>
#include <vector>
using namespace opensmt;

struct Instance {
    std::unique_ptr<SMTConfig> config;
    std::unique_ptr<ArithLogic> logic;
    std::unique_ptr<MainSolver> solver;
};

static Instance build(unsigned seed, bool integer, int nvars, int nclauses, bool big) {
    Instance in;
    in.config = std::make_unique<SMTConfig>();
    in.logic = std::make_unique<ArithLogic>(integer ? Logic_t::QF_LIA : Logic_t::QF_LRA);
    in.solver = std::make_unique<MainSolver>(*in.logic, *in.config, "threads harness");
    ArithLogic & logic = *in.logic;
    std::mt19937 rng(seed);
    std::vector<PTRef> xs;
    for (int i = 0; i < nvars; ++i) {
        std::string n = "x" + std::to_string(i);
        xs.push_back(integer ? logic.mkIntVar(n.c_str()) : logic.mkRealVar(n.c_str()));
    }
    SRef sort = integer ? logic.getSort_int() : logic.getSort_real();
    std::string const bigFactor = big ? "1180591620717411303424" : "1";   // 2^70
    auto atom = [&]() {
        vec<PTRef> summands;
        int k = 2 + rng() % 2;
        for (int j = 0; j < k; ++j) {
            int c = (int)(rng() % 7) - 3;
            if (c == 0) c = 1;
            PTRef coef = logic.mkTimes(logic.mkConst(sort, std::to_string(c).c_str()), logic.mkConst(sort, bigFactor.c_str()));
            summands.push(logic.mkTimes(coef, xs[rng() % xs.size()]));
        }
        PTRef bound = logic.mkTimes(logic.mkConst(sort, std::to_string((int)(rng() % 9) - 4).c_str()), logic.mkConst(sort, bigFactor.c_str()));
        PTRef sum = logic.mkPlus(std::move(summands));
        return (rng() % 2) ? logic.mkLeq(sum, bound) : logic.mkGeq(sum, bound);
    };
    for (int c = 0; c < nclauses; ++c) {
        vec<PTRef> lits;
        int w = 1 + rng() % 3;
        for (int j = 0; j < w; ++j) { PTRef a = atom(); lits.push((rng() % 3 == 0) ? logic.mkNot(a) : a); }
        in.solver->addAssertion(logic.mkOr(std::move(lits)));
    }
    return in;
}


// a planted (hence satisfiable) random 3-SAT instance near the threshold: many conflicts above level 0 for a stop to land in
static Instance buildBool(unsigned seed, int nvars) {
    Instance in;
    in.config = std::make_unique<SMTConfig>();
    in.logic = std::make_unique<ArithLogic>(Logic_t::QF_LRA);
    in.solver = std::make_unique<MainSolver>(*in.logic, *in.config, "threads harness");
    ArithLogic & logic = *in.logic;
    std::mt19937 rng(seed);
    std::vector<PTRef> ps;
    std::vector<bool> planted;
    for (int i = 0; i < nvars; ++i) { ps.push_back(logic.mkBoolVar(("p" + std::to_string(i)).c_str())); planted.push_back(rng() % 2); }
    int nclauses = nvars * 41 / 10;
    for (int c = 0; c < nclauses; ++c) {
        for (;;) {
            vec<PTRef> lits; bool satisfied = false;
            for (int j = 0; j < 3; ++j) {
                int v = (int)(rng() % (unsigned)nvars); bool pos = rng() % 2;
                if (pos == planted[v]) satisfied = true;
                lits.push(pos ? ps[v] : logic.mkNot(ps[v]));
            }
            if (not satisfied) continue;
            in.solver->addAssertion(logic.mkOr(std::move(lits)));
            break;
        }
    }
    return in;
}

// direct arithmetic on numbers beyond the machine word: a deterministic sequence of operations per seed, digest of all results
static std::string numberDigest(unsigned seed, int steps) {
    std::mt19937 g(seed);
    auto bigInt = [&]() {
        std::string d = std::to_string(1 + g() % 9);
        int len = 20 + (int)(g() % 25);
        for (int i = 0; i < len; ++i) d.push_back((char)('0' + g() % 10));
        return FastRational(d.c_str(), 10);
    };
    std::string out;
    FastRational acc(1);
    for (int i = 0; i < steps; ++i) {
        FastRational a = bigInt(), b = bigInt();
        FastRational r;
        switch (g() % 8) {
            case 0: r = lcm(a, b); break;
            case 1: r = gcd(a * b, b * bigInt()); break;
            case 2: r = a / b + b / a; break;
            case 3: r = (a / b).floor() - (b / a).ceil(); break;
            case 4: r = fastrat_fdiv_q(a * b, b + 1); break;
            case 5: r = lcm(a, b) / gcd(a, b); break;
            case 6: r = a * b - b * a + lcm(b, a); break;
            default: r = (a - b) * (a + b); break;
        }
        acc = acc / 3 + r;
        out += r.get_str(); out.push_back(';');
    }
    out += acc.get_str();
    return out;
}

static char const * name(sstat s) { return s == s_True ? "sat" : s == s_False ? "unsat" : s == s_Undef ? "unknown" : "error"; }

int main(int argc, char ** argv) {
    if (argc < 5) return 2;
    std::string mode = argv[1];
    int nthreads = std::atoi(argv[2]);
    unsigned seed = (unsigned)std::atoi(argv[3]);
    int rounds = std::atoi(argv[4]);
    std::mt19937 rng(seed * 7919u + 13u);
    int mismatches = 0, unknowns = 0, answers = 0;
    for (int r = 0; r < rounds; ++r) {
        if (mode == "num") {
            std::vector<unsigned> seeds;
            std::vector<std::string> ref, got(nthreads);
            for (int t = 0; t < nthreads; ++t) seeds.push_back(rng());
            for (int t = 0; t < nthreads; ++t) ref.push_back(numberDigest(seeds[t], 400));
            std::vector<std::thread> ths;
            for (int t = 0; t < nthreads; ++t) ths.emplace_back([&, t] { got[t] = numberDigest(seeds[t], 400); });
            for (auto & th : ths) th.join();
            for (int t = 0; t < nthreads; ++t) {
                ++answers;
                if (got[t] != ref[t]) { ++mismatches; std::printf("MISMATCH round %d thread %d seed %u: big-number arithmetic alone and concurrent differ\n", r, t, seeds[t]); }
            }
        } else if (mode == "par") {
            std::vector<unsigned> seeds;
            std::vector<sstat> ref, got(nthreads, s_Undef);
            for (int t = 0; t < nthreads; ++t) seeds.push_back(rng());
            for (int t = 0; t < nthreads; ++t) {
                Instance in = build(seeds[t], t % 2 == 0, 4 + t % 3, 10 + (int)(seeds[t] % 12), true);
                ref.push_back(in.solver->check());
            }
            std::vector<std::thread> ths;
            for (int t = 0; t < nthreads; ++t) {
                ths.emplace_back([&, t] {
                    Instance in = build(seeds[t], t % 2 == 0, 4 + t % 3, 10 + (int)(seeds[t] % 12), true);
                    got[t] = in.solver->check();
                });
            }
            for (auto & th : ths) th.join();
            for (int t = 0; t < nthreads; ++t) {
                ++answers;
                if (got[t] != ref[t]) { ++mismatches; std::printf("MISMATCH round %d thread %d seed %u: alone %s, concurrent %s\n", r, t, seeds[t], name(ref[t]), name(got[t])); }
            }
        } else {
            unsigned s = rng();
            bool integer = (s % 3 == 0);
            bool boolean = (r % 3 != 0);   // two rounds of three: a propositional instance with many conflicts
            int nv = 6 + s % 5, nc = 40 + s % 60;
            sstat ref;
            long refUs;
            {
                Instance in = boolean ? buildBool(s, 200 + (int)(s % 60)) : build(s, integer, nv, nc, r % 2 == 0);
                auto t0 = std::chrono::steady_clock::now();
                ref = in.solver->check();
                refUs = std::chrono::duration_cast<std::chrono::microseconds>(std::chrono::steady_clock::now() - t0).count();
            }
            resetGlobalStop();
            Instance in = boolean ? buildBool(s, 200 + (int)(s % 60)) : build(s, integer, nv, nc, r % 2 == 0);
            sstat got = s_Error;
            int delayUs = (int)(rng() % (unsigned)(refUs * 3 / 2 + 2));   // anywhere from before the start to after the end of the solving
            std::thread worker([&] { got = in.solver->check(); });
            std::this_thread::sleep_for(std::chrono::microseconds(delayUs));
            if (mode == "stop") in.solver->notifyStop(); else notifyGlobalStop();
            worker.join();
            resetGlobalStop();
            ++answers;
            if (got == s_Undef) ++unknowns;
            else if (got != ref) { ++mismatches; std::printf("MISMATCH round %d seed %u delay %dus: without stop %s, with stop %s\n", r, s, delayUs, name(ref), name(got)); }
            // the same solver afterwards: the request must not have left a wrong verdict behind (a local stop request stays in
            // force, so unknown is acceptable there; after a global request that was reset the answer must be the undisturbed one)
            sstat later = in.solver->check();
            ++answers;
            if (later == s_Undef) { if (mode == "stop") ++unknowns; else { ++mismatches; std::printf("MISMATCH round %d seed %u: check after a reset global stop answers unknown\n", r, s); } }
            else if (later != ref) { ++mismatches; std::printf("MISMATCH round %d seed %u delay %dus: without stop %s, check after the stopped one %s\n", r, s, delayUs, name(ref), name(later)); }
        }
    }
    std::printf("DONE mode=%s answers=%d unknown=%d mismatches=%d\n", mode.c_str(), answers, unknowns, mismatches);
    return mismatches ? 1 : 0;
}
