// Name-protection harness: one name per line as space-separated byte values; prints Logic::protectName(name, false) the same way.
#include <logics/Logic.h>
#include <iostream>
#include <sstream>
using namespace opensmt;
int main() {
    Logic logic{Logic_t::QF_UF};
    std::string line;
    while (std::getline(std::cin, line)) {
        std::istringstream is(line);
        std::string name; int b;
        while (is >> b) name.push_back(static_cast<char>(b));
        if (name.empty()) continue;
        std::string out = logic.protectName(name, false);
        for (std::size_t i = 0; i < out.size(); ++i) std::cout << (i ? " " : "") << (int)(unsigned char)out[i];
        std::cout << "\n";
    }
    return 0;
}
