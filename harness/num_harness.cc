// StringConv.h differential harness: one percent-decoded string per line ->
//   "<isIntString> <isRealString> <stringToRational result | throw | skip-zero-den>"
#include <common/StringConv.h>
#include <cstdio>
#include <cstring>
#include <iostream>
#include <string>
using namespace opensmt;
int main() {
    std::string line;
    while (std::getline(std::cin, line)) {
        std::string s;
        for (size_t i = 0; i < line.size(); ++i) {
            if (line[i] == '%' && i + 2 < line.size() + 0 && i + 2 <= line.size() - 1 + 0) { s += (char)std::stoi(line.substr(i + 1, 2), nullptr, 16); i += 2; }
            else s += line[i];
        }
        if (line == "%") s = "";
        std::cout << (isIntString(s.c_str()) ? 1 : 0) << " " << (isRealString(s.c_str()) ? 1 : 0) << " ";
        auto slash = s.find('/');
        bool zeroDen = false;
        if (slash != std::string::npos) {
            std::string den = s.substr(slash + 1);
            zeroDen = den.find_first_not_of("0.") == std::string::npos;
        }
        if (zeroDen) { std::cout << "skip-zero-den\n"; continue; }
        char * rat = nullptr;
        try {
            stringToRational(rat, s.c_str());
            std::cout << rat << "\n";
            free(rat);
        } catch (...) { std::cout << "throw\n"; }
    }
}
