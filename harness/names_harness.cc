// TermNames harness. Ops (one per line): insert <name> <term> | push | pop | global <0|1> | dump
// Output per op: insert -> 1/0 ; dump -> canonical listing "n2t: name=term ... | t2n: term=[names] ... | elems: ..."
#define protected public
#include <common/TermNames.h>
#undef protected
#include <options/SMTConfig.h>
#include <algorithm>
#include <iostream>
#include <map>
#include <sstream>
using namespace opensmt;
int main() {
    SMTConfig config;
    TermNames names(config);
    std::string line;
    std::vector<PTRef> knownTerms;
    while (std::getline(std::cin, line)) {
        std::istringstream is(line);
        std::string op;
        is >> op;
        if (op == "insert") {
            std::string n; unsigned t; is >> n >> t;
            PTRef tr{t};
            if (std::find_if(knownTerms.begin(), knownTerms.end(), [&](PTRef x){ return x.x == t; }) == knownTerms.end()) knownTerms.push_back(tr);
            std::cout << (names.tryInsert(n, tr) ? 1 : 0) << "\n";
        } else if (op == "push") { names.pushScope(); std::cout << "ok\n"; }
        else if (op == "pop") { names.popScope(); std::cout << "ok\n"; }
        else if (op == "global") {
            int b; is >> b; char const * msg = "ok";
            config.setOption(SMTConfig::o_global_declarations, SMTOption(b), msg);
            std::cout << "ok\n";
        } else if (op == "dump") {
            std::map<std::string, unsigned> n2t;
            for (auto const & [n, t] : names) { (void)t; if (auto r = names.tryGetTermByName(n)) n2t[n] = r->x; }
            // also names no longer in the scoped vector cannot be enumerated; list through the vector and lookups
            std::cout << "elems:";
            for (auto const & [n, t] : names) std::cout << " " << n << "=" << t.x;
            std::cout << " | n2t:";
            for (auto const & [n, t] : n2t) std::cout << " " << n << "=" << t;
            std::cout << " | t2n:";
            std::sort(knownTerms.begin(), knownTerms.end(), [](PTRef a, PTRef b){ return a.x < b.x; });
            for (PTRef t : knownTerms) {
                auto const * v = names.tryGetNamesForTerm(t);
                if (v && !v->empty()) { std::cout << " " << t.x << "=["; for (size_t i = 0; i < v->size(); ++i) std::cout << (i ? "," : "") << (*v)[i]; std::cout << "]"; }
            }
            std::cout << "\n";
        }
    }
}
