// LD_PRELOAD shim: read(0, ...) returns at most the next size of the schedule in $VERIF_CHUNKS (comma separated,
// repeated cyclically), so that the chunking of standard input is exactly reproducible.
#define _GNU_SOURCE
#include <dlfcn.h>
#include <stdlib.h>
#include <string.h>
#include <unistd.h>
static ssize_t (*real_read)(int, void *, size_t) = 0;
static int sched[256], nsched = -1, pos = 0;
ssize_t read(int fd, void * buf, size_t count) {
    if (!real_read) real_read = (ssize_t (*)(int, void *, size_t))dlsym(RTLD_NEXT, "read");
    if (fd != 0) return real_read(fd, buf, count);
    if (nsched < 0) {
        nsched = 0;
        char const * e = getenv("VERIF_CHUNKS");
        if (e) { char * d = strdup(e); for (char * t = strtok(d, ","); t && nsched < 256; t = strtok(0, ",")) sched[nsched++] = atoi(t); free(d); }
    }
    if (nsched > 0) { size_t lim = (size_t)sched[pos++ % nsched]; if (lim > 0 && lim < count) count = lim; }
    return real_read(fd, buf, count);
}
