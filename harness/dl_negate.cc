// Converter<SafeInt>::negate and ::getValue on integers (one per line): prints "<negate(v)> <getValue(Number(v))>"
#include <tsolvers/stpsolver/IDLSolver.h>
#include <iostream>
#include <string>
int main() {
    std::string s;
    while (std::getline(std::cin, s)) {
        if (s.empty()) continue;
        long long v = std::stoll(s);
        std::cout << opensmt::Converter<opensmt::SafeInt>::negate(opensmt::SafeInt(v)).value() << " ";
        try {
            std::cout << opensmt::Converter<opensmt::SafeInt>::getValue(opensmt::Number(s.c_str())).value() << "\n";
        } catch (std::overflow_error const &) { std::cout << "overflow\n"; }
    }
}
