// Theory-solver harness: drives one theory solver (LA over reals / integers, difference logic over integers / reals, EUF)
// through declare / assert / check / backtrack sequences read from stdin, prints every verdict, and writes the atoms and every
// conflict to the verification trace (OPENSMT_VERIF_TRACE) in the format of the engine hooks.
//   theory lra|lia|idl|rdl|euf
//   var <k>                         (arithmetic) numeric variable x<k>
//   uterm <f> <i>*                  (euf) term: constant f when there are no arguments, else f applied to earlier terms
//   atom la <k> <c0> <c1> ...       sum c_i * x_i <= k           atom dl <i> <j> <k>      x_i - x_j <= k
//   atom eq <i> <j>                 (euf) equality of terms        atom pred <i>             (euf) p(term)
//   assert <atom> <0|1>   check <0|1>   pop <n>
#include <common/VerifTrace.h>
#include <logics/ArithLogic.h>
#include <logics/Logic.h>
#include <models/ModelBuilder.h>
#include <tsolvers/egraph/Egraph.h>
#include <tsolvers/lasolver/LASolver.h>
#include <tsolvers/stpsolver/IDLSolver.h>
#include <tsolvers/stpsolver/RDLSolver.h>
#include <algorithm>
#include <iostream>
#include <memory>
#include <sstream>
using namespace opensmt;

int main() {
    std::string line, theory;
    std::getline(std::cin, line);
    { std::istringstream is(line); std::string t; is >> t >> theory; }
    SMTConfig config;
    std::unique_ptr<Logic> logicPtr;
    if (theory == "lra") logicPtr = std::make_unique<ArithLogic>(Logic_t::QF_LRA);
    else if (theory == "lia") logicPtr = std::make_unique<ArithLogic>(Logic_t::QF_LIA);
    else if (theory == "idl") logicPtr = std::make_unique<ArithLogic>(Logic_t::QF_IDL);
    else if (theory == "rdl") logicPtr = std::make_unique<ArithLogic>(Logic_t::QF_RDL);
    else logicPtr = std::make_unique<Logic>(Logic_t::QF_UF);
    Logic & logic = *logicPtr;
    ArithLogic * alogic = dynamic_cast<ArithLogic *>(logicPtr.get());
    std::unique_ptr<TSolver> solver;
    if (theory == "lra" or theory == "lia") solver = std::make_unique<LASolver>(config, *alogic);
    else if (theory == "idl") solver = std::make_unique<IDLSolver>(config, *alogic);
    else if (theory == "rdl") solver = std::make_unique<RDLSolver>(config, *alogic);
    else solver = std::make_unique<Egraph>(config, logic);
    void const * sid = solver.get();
    opensmt::verif::term(logic, logic.getTerm_true());
    opensmt::verif::term(logic, logic.getTerm_false());
    bool const isInt = theory == "lia" or theory == "idl";
    std::vector<PTRef> vars, uterms, atoms;
    unsigned depth = 0;    // number of asserted literals (one backtrack point each)
    std::vector<unsigned> onStack;
    SRef U = theory == "euf" ? logic.declareUninterpretedSort("U") : SRef_Undef;
    SymRef pred = SymRef_Undef;
    auto num = [&](std::string const & s) { return alogic->mkConst(isInt ? alogic->getSort_int() : alogic->getSort_real(), s.c_str()); };
    auto show = [&](vec<PtAsgn> const & c) {
        std::ostringstream os, tr;
        for (PtAsgn a : c) {
            int idx = -1;
            for (std::size_t i = 0; i < atoms.size(); ++i) if (atoms[i] == a.tr) idx = (int)i;
            os << " " << idx << ":" << (a.sgn == l_True ? 1 : 0);
            tr << " " << (a.sgn == l_True ? -(idx + 1) : (idx + 1));
        }
        opensmt::verif::line("th %p conflict%s 0", sid, tr.str().c_str());
        return os.str();
    };
    while (std::getline(std::cin, line)) {
        std::istringstream is(line);
        std::string op;
        is >> op;
        try {
            if (op == "var") {
                int k; is >> k;
                vars.push_back(isInt ? alogic->mkIntVar(("x" + std::to_string(k)).c_str()) : alogic->mkRealVar(("x" + std::to_string(k)).c_str()));
                std::cout << "ok\n";
            } else if (op == "uterm") {
                std::string f; is >> f;
                vec<PTRef> args; unsigned i;
                while (is >> i) args.push(uterms.at(i));
                if (args.size() == 0) uterms.push_back(logic.mkVar(U, f.c_str()));
                else {
                    vec<SRef> as; for (int j = 0; j < args.size(); ++j) as.push(U);
                    SymRef s = logic.declareFun(f + "_" + std::to_string(args.size()), U, as);
                    uterms.push_back(logic.mkUninterpFun(s, std::move(args)));
                }
                std::cout << "ok\n";
            } else if (op == "atom") {
                std::string kind; is >> kind;
                PTRef a = PTRef_Undef;
                if (kind == "la") {
                    std::string k, c; is >> k;
                    vec<PTRef> summands; std::size_t i = 0;
                    while (is >> c) { if (c != "0") summands.push(alogic->mkTimes(num(c), vars.at(i))); ++i; }
                    PTRef sum = summands.size() == 0 ? num("0") : alogic->mkPlus(std::move(summands));
                    a = alogic->mkLeq(sum, num(k));
                } else if (kind == "dl") {
                    unsigned i, j; std::string k; is >> i >> j >> k;
                    a = alogic->mkLeq(alogic->mkMinus(vars.at(i), vars.at(j)), num(k));
                } else if (kind == "eq") {
                    unsigned i, j; is >> i >> j;
                    a = logic.mkEq(uterms.at(i), uterms.at(j));
                } else if (kind == "pred") {
                    unsigned i; is >> i;
                    if (pred == SymRef_Undef) pred = logic.declareFun("p", logic.getSort_bool(), {U});
                    a = logic.mkUninterpFun(pred, {uterms.at(i)});
                }
                bool isNeg = logic.isNot(a);
                PTRef core = isNeg ? logic.getPterm(a)[0] : a;
                if (logic.isTrue(a) or logic.isFalse(a) or not solver->isValid(core)) {
                    atoms.push_back(PTRef_Undef);
                    std::cout << "constant\n";
                    continue;
                }
                // the constructor may return the negation of an atom (x <= k built as not (k+1 <= x)): keep the atom, report the flip
                {
                    int same = -1;
                    for (std::size_t i = 0; i < atoms.size(); ++i) if (atoms[i] == core) same = (int)i;
                    if (same >= 0) { atoms.push_back(PTRef_Undef); std::cout << "same " << same << "\n"; continue; }
                }
                atoms.push_back(core);
                opensmt::verif::term(logic, core);
                opensmt::verif::line("v %p %d %p %u", sid, (int)atoms.size(), static_cast<void const *>(&logic), core.x);
                solver->declareAtom(core);
                std::cout << (isNeg ? "flipped\n" : "ok\n");
            } else if (op == "assert") {
                unsigned i; int s; is >> i >> s;
                if (atoms.at(i) == PTRef_Undef or std::find(onStack.begin(), onStack.end(), i) != onStack.end()) {
                    std::cout << "skip\n";     // constants, duplicates, and atoms that already have a value: the SAT engine never asserts those
                    continue;
                }
                solver->pushBacktrackPoint();
                bool ok = solver->assertLit(PtAsgn(atoms.at(i), s ? l_True : l_False));
                if (ok) { ++depth; onStack.push_back(i); std::cout << "ok\n"; }
                else {
                    // as the SAT engine does: read the conflict, then backtrack over the literal that caused it
                    vec<PtAsgn> c; solver->getConflict(c); std::cout << "conflict" << show(c) << "\n";
                    solver->popBacktrackPoints(1);
                }
            } else if (op == "check") {
                int complete; is >> complete;
                TRes r = solver->check(complete != 0);
                if (r == TRes::SAT) {
                    bool const undecided = solver->hasNewSplits();
                    std::cout << (undecided ? "unknown" : "sat");
                    if (complete != 0 and not undecided and alogic and dynamic_cast<LASolver *>(solver.get())) {
                        // the solver's own witness of consistency: the value of every numeric variable (LA only: the difference-logic
                        // solvers build models only in the state the search leaves them in, with every known atom decided)
                        try {
                            solver->computeModel();
                            ModelBuilder mb(logic);
                            solver->fillTheoryFunctions(mb);
                            std::cout << " | model";
                            for (std::size_t k = 0; k < vars.size(); ++k) {
                                if (mb.hasVarVal(vars[k])) std::cout << " " << k << "=" << alogic->getNumConst(mb.getVarVal(vars[k])).get_str();
                            }
                        } catch (std::exception const & e) { std::cout << " | model-error " << e.what(); }
                    }
                    // theory propagation: every deduced literal comes with a reason among the asserted literals
                    while (true) {
                        PtAsgn_reason d = solver->getDeduction();
                        if (d.tr == PTRef_Undef) break;
                        int idx = -1;
                        for (std::size_t i = 0; i < atoms.size(); ++i) if (atoms[i] == d.tr) idx = (int)i;
                        if (idx < 0 or std::find(onStack.begin(), onStack.end(), (unsigned)idx) != onStack.end()) continue;
                        vec<PtAsgn> reason = solver->getReasonFor(PtAsgn(d.tr, d.sgn));
                        std::ostringstream os, tr;
                        os << " | ded " << idx << ":" << (d.sgn == l_True ? 1 : 0) << " <-";
                        tr << " " << (d.sgn == l_True ? (idx + 1) : -(idx + 1));
                        for (PtAsgn a : reason) {
                            if (a.tr == d.tr) continue;
                            int j = -1;
                            for (std::size_t i = 0; i < atoms.size(); ++i) if (atoms[i] == a.tr) j = (int)i;
                            os << " " << j << ":" << (a.sgn == l_True ? 1 : 0);
                            tr << " " << (a.sgn == l_True ? -(j + 1) : (j + 1));
                        }
                        opensmt::verif::line("th %p reason%s 0", sid, tr.str().c_str());
                        std::cout << os.str();
                    }
                    std::cout << "\n";
                }
                else if (r == TRes::UNSAT) {
                    vec<PtAsgn> c; solver->getConflict(c); std::cout << "unsat" << show(c) << "\n";
                    if (depth > 0) { solver->popBacktrackPoints(1); --depth; onStack.pop_back(); }
                }
                else std::cout << "unknown\n";
            } else if (op == "pop") {
                unsigned n; is >> n;
                if (n > depth) n = depth;
                solver->popBacktrackPoints(n);
                depth -= n;
                onStack.resize(onStack.size() - n);
                std::cout << "ok " << n << "\n";
            } else std::cout << "bad-op\n";
        } catch (std::exception const & e) { std::cout << "exception " << e.what() << "\n"; }
    }
    return 0;
}
