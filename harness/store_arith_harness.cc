// Term-store harness for an arithmetic logic with uninterpreted functions (QF_UFLIA): commutative arithmetic and Boolean
// constructors whose argument order is normalised by the constructor.
//   ivar <k>              integer variable x<k>
//   bvar <k>              Boolean variable b<k>
//   scale <c> <i>         c * (result i), c not in {0, 1, -1}, result i an integer variable
//   plus <i> <j> ...      sum of earlier results over pairwise different variables (nothing to merge)
//   eq <i> <j>            equality of two integer results
//   xor <i> <j>           exclusive or of two different Boolean results, neither the negation of the other
// Output per line: <PTRef> <Pterm id> <number of children> <child PTRef>*
#include <logics/ArithLogic.h>
#include <iostream>
#include <sstream>
#include <vector>
using namespace opensmt;
int main() {
    ArithLogic logic{Logic_t::QF_UFLIA};
    std::vector<PTRef> res;
    std::string line;
    while (std::getline(std::cin, line)) {
        std::istringstream is(line);
        std::string op;
        is >> op;
        PTRef tr = PTRef_Undef;
        try {
            if (op == "ivar") { int k; is >> k; tr = logic.mkIntVar(("x" + std::to_string(k)).c_str()); }
            else if (op == "bvar") { int k; is >> k; tr = logic.mkBoolVar(("b" + std::to_string(k)).c_str()); }
            else if (op == "scale") {
                std::string c; unsigned i; is >> c >> i;
                tr = logic.mkTimes(logic.mkIntConst(Number(c.c_str())), res.at(i));
            } else {
                vec<PTRef> args;
                unsigned i;
                while (is >> i) args.push(res.at(i));
                if (op == "plus") tr = logic.mkPlus(std::move(args));
                else if (op == "eq") tr = logic.mkEq(args[0], args[1]);
                else if (op == "xor") tr = logic.mkXor(args[0], args[1]);
            }
        } catch (std::exception const & e) { std::cout << "error " << e.what() << "\n"; res.push_back(PTRef_Undef); continue; }
        res.push_back(tr);
        Pterm const & t = logic.getPterm(tr);
        std::cout << tr.x << " " << Idx(t.getId()) << " " << t.size();
        for (PTRef ch : t) std::cout << " " << ch.x;
        std::cout << (logic.isTrue(tr) ? " TRUE" : "") << "\n";
    }
    return 0;
}
