// Differential harness for FastRational: same line protocol as `osmt-model rat`.
// Also compares every result with GMP (mpq_class) as an independent oracle and reports `ORACLE-MISMATCH`.
#include <common/numbers/FastRational.h>
#include <gmpxx.h>
#include <cstdio>
#include <iostream>
#include <sstream>
#include <string>
#include <vector>
using namespace opensmt;

static FastRational lit(std::string const & s) { return FastRational(s.c_str()); }
static FastRational operand(std::string const & s) {
    if (s.rfind("c:", 0) == 0) {
        auto rest = s.substr(2);
        auto p = rest.find(':');
        FastRational x = lit(rest.substr(0, p)), y = lit(rest.substr(p + 1));
        return (x + y) - y;
    }
    return lit(s);
}
static mpq_class oracle(std::string const & s) {
    std::string t = s;
    if (t.rfind("c:", 0) == 0) { t = t.substr(2); t = t.substr(0, t.find(':')); }
    mpq_class q(t); q.canonicalize(); return q;
}
static std::string show(FastRational const & r) {
    std::ostringstream os;
    mpq_class q = r.getMpq();
    os << q.get_num() << "/" << q.get_den() << " " << (r.wordPartValid() ? "w " : "b ");
    if (r.wordPartValid()) os << r.getHashValue(); else os << "-";
    return os.str();
}
static std::string chk(FastRational const & r, mpq_class const & expect) {
    std::string s = show(r);
    if (!r.isWellFormed()) s += " NOT-WELLFORMED";
    mpq_class e = expect; e.canonicalize();
    if (r.getMpq() != e) s += " ORACLE-MISMATCH";
    bool fitsW = e.get_num().fits_sint_p() && e.get_den().fits_uint_p();
    if (fitsW != r.wordPartValid()) s += " REPRESENTATION-MISMATCH";
    return s;
}
int main() {
    std::string line;
    while (std::getline(std::cin, line)) {
        std::istringstream is(line);
        std::string op, a, b;
        is >> op >> a >> b;
        if (op.empty()) continue;
        FastRational x = operand(a);
        mpq_class qx = oracle(a);
        if (!b.empty()) {
            FastRational y = operand(b);
            mpq_class qy = oracle(b);
            if (op == "add") std::cout << chk(x + y, qx + qy);
            else if (op == "sub") std::cout << chk(x - y, qx - qy);
            else if (op == "mul") std::cout << chk(x * y, qx * qy);
            else if (op == "div") std::cout << chk(x / y, qx / qy);
            else if (op == "addA") { x += y; std::cout << chk(x, qx + qy); }
            else if (op == "subA") { x -= y; std::cout << chk(x, qx - qy); }
            else if (op == "mulA") { x *= y; std::cout << chk(x, qx * qy); }
            else if (op == "divA") { x /= y; std::cout << chk(x, qx / qy); }
            else if (op == "cmp") { int c = x.compare(y); std::cout << (c < 0 ? -1 : c > 0 ? 1 : 0); if ((c < 0) != (qx < qy) || (c > 0) != (qx > qy)) std::cout << " ORACLE-MISMATCH"; }
            else if (op == "eq") { bool e = (x == y); std::cout << (e ? 1 : 0); if (e != (qx == qy)) std::cout << " ORACLE-MISMATCH"; }
            else if (op == "fdiv") { mpz_class q; mpz_fdiv_q(q.get_mpz_t(), qx.get_num_mpz_t(), qy.get_num_mpz_t()); std::cout << chk(fastrat_fdiv_q(x, y), mpq_class(q)); }
            else if (op == "gcd") { mpz_class q; mpz_gcd(q.get_mpz_t(), qx.get_num_mpz_t(), qy.get_num_mpz_t()); std::cout << chk(gcd(x, y), mpq_class(q)); }
            else if (op == "lcm") { mpz_class q; mpz_lcm(q.get_mpz_t(), qx.get_num_mpz_t(), qy.get_num_mpz_t()); std::cout << chk(lcm(x, y), mpq_class(q)); }
            else if (op == "mod") { mpz_class q; mpz_fdiv_r(q.get_mpz_t(), qx.get_num_mpz_t(), qy.get_num_mpz_t()); std::cout << chk(x % y, mpq_class(q)); }
            else std::cout << "bad-op";
        } else {
            if (op == "neg") std::cout << chk(-x, -qx);
            else if (op == "negate") { x.negate(); std::cout << chk(x, -qx); }
            else if (op == "inv") std::cout << chk(x.inverse(), 1 / qx);
            else if (op == "sign") { std::cout << x.sign(); if (x.sign() != sgn(qx)) std::cout << " ORACLE-MISMATCH"; }
            else if (op == "isint") { std::cout << (x.isInteger() ? 1 : 0); if (x.isInteger() != (qx.get_den() == 1)) std::cout << " ORACLE-MISMATCH"; }
            else if (op == "ceil") { mpz_class q; mpz_cdiv_q(q.get_mpz_t(), qx.get_num_mpz_t(), qx.get_den_mpz_t()); std::cout << chk(x.ceil(), mpq_class(q)); }
            else if (op == "floor") { mpz_class q; mpz_fdiv_q(q.get_mpz_t(), qx.get_num_mpz_t(), qx.get_den_mpz_t()); std::cout << chk(x.floor(), mpq_class(q)); }
            else if (op == "id") std::cout << chk(x, qx);
            else std::cout << "bad-op";
        }
        std::cout << "\n";
    }
    return 0;
}
