// PRNG harness: `<seed> <size> <n>` per line -> n pairs `state:irand` (state printed as an integer; it is one for integer seeds)
#include <Random.h>
#include <cstdio>
#include <iostream>
#include <sstream>
int main() {
    std::string line;
    while (std::getline(std::cin, line)) {
        std::istringstream is(line);
        double seed; int size, n;
        if (!(is >> seed >> size >> n)) continue;
        for (int k = 0; k < n; ++k) {
            int i = opensmt::irand(seed, size);
            std::printf("%s%.0f:%d", k ? " " : "", seed, i);
        }
        std::printf("\n");
    }
    return 0;
}
