// Term-store harness: builds terms through the Logic API, one operation per line, and prints the identity of each result.
//   leaf <k>              constant c<k> of sort U
//   app <f> <i> ...       uninterpreted function f (arity = number of arguments) applied to the results of earlier lines
//   pred <i>              predicate p applied to an earlier result
//   eq <i> <j>            equality (commutative; equal arguments give the constant true)
//   and <i> <j> ...       conjunction of earlier Boolean results (distinct, none the negation of another)
//   or  <i> <j> ...
// Output per line: <PTRef> <Pterm id> <number of children> <child PTRef>*
#include <logics/Logic.h>
#include <iostream>
#include <map>
#include <sstream>
#include <vector>
using namespace opensmt;
int main() {
    Logic logic{Logic_t::QF_UF};
    SRef U = logic.declareUninterpretedSort("U");
    std::map<std::pair<std::string, int>, SymRef> funs;
    SymRef p = logic.declareFun("p", logic.getSort_bool(), {U});
    std::vector<PTRef> res;
    std::string line;
    while (std::getline(std::cin, line)) {
        std::istringstream is(line);
        std::string op;
        is >> op;
        PTRef tr = PTRef_Undef;
        try {
            if (op == "leaf") {
                int k; is >> k;
                tr = logic.mkVar(U, ("c" + std::to_string(k)).c_str());
            } else {
                std::string f;
                if (op == "app") is >> f;
                vec<PTRef> args;
                unsigned i;
                while (is >> i) args.push(res.at(i));
                if (op == "app") {
                    auto key = std::make_pair(f, args.size());
                    if (not funs.count(key)) {
                        vec<SRef> as; for (int j = 0; j < args.size(); ++j) as.push(U);
                        funs[key] = logic.declareFun(f + "_" + std::to_string(args.size()), U, as);
                    }
                    tr = logic.mkUninterpFun(funs[key], std::move(args));
                } else if (op == "pred") tr = logic.mkUninterpFun(p, std::move(args));
                else if (op == "eq") tr = logic.mkEq(args[0], args[1]);
                else if (op == "and") tr = logic.mkAnd(std::move(args));
                else if (op == "or") tr = logic.mkOr(std::move(args));
            }
        } catch (std::exception const & e) { std::cout << "error " << e.what() << "\n"; res.push_back(PTRef_Undef); continue; }
        res.push_back(tr);
        Pterm const & t = logic.getPterm(tr);
        std::cout << tr.x << " " << Idx(t.getId()) << " " << t.size();
        for (PTRef ch : t) std::cout << " " << ch.x;
        std::cout << (logic.isTrue(tr) ? " TRUE" : "") << "\n";
    }
    return 0;
}
