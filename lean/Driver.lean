import Driver.Parse
import Driver.Smt
