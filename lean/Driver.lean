import Driver.Parse
import Driver.Smt
import Driver.Fk
import Driver.ModelMode
import Driver.FramesMode
import Driver.RatMode
import Driver.MkMode
import Driver.IntMode
