import Osmt.Term
import Osmt.Prop
import Osmt.Skel
import Osmt.Cdcl
import Osmt.LA
import Osmt.EUF
import Osmt.Smt
import Osmt.Model
