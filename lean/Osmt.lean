import Osmt.Term
import Osmt.Prop
import Osmt.Skel
import Osmt.Cdcl
