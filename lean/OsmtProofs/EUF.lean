import Osmt.EUF
import OsmtProofs.Skel
/-! Soundness of the EUF proof checker. -/
namespace Osmt.EUF
open Osmt

def Holds (I : Interp) (e : Eqn) : Prop := eval I e.1 = eval I e.2

def AllHold (I : Interp) (d : Array Eqn) : Prop := ∀ (j : Nat) (e : Eqn), d[j]? = some e → Holds I e

theorem argsOk_sound (I : Interp) (d : Array Eqn) (hd : AllHold I d) : ∀ (as bs : List Term) (js : List Nat),
    argsOk d as bs js = true → evalList I as = evalList I bs
  | [], [], [], _ => rfl
  | a :: as, b :: bs, j :: js, h => by
    simp only [argsOk, Bool.and_eq_true] at h
    obtain ⟨h1, h2⟩ := h
    have ih := argsOk_sound I d hd as bs js h2
    split at h1
    · rename_i x y hj
      simp only [Bool.and_eq_true, decide_eq_true_eq] at h1
      have := hd j (x, y) hj
      simp only [Holds, h1.1, h1.2] at this
      simp [evalList, this, ih]
    · simp at h1
  | [], _ :: _, _, h => by simp [argsOk] at h
  | [], [], _ :: _, h => by simp [argsOk] at h
  | _ :: _, [], _, h => by simp [argsOk] at h
  | _ :: _, _ :: _, [], h => by simp [argsOk] at h

theorem stepEqn_sound (I : Interp) (hyps d : Array Eqn) (hh : AllHold I hyps) (hd : AllHold I d)
    (s : Step) (e : Eqn) (h : stepEqn hyps d s = some e) : Holds I e := by
  cases s with
  | hyp i => exact hh i e h
  | refl t => simp [stepEqn] at h; subst h; rfl
  | symm j =>
    simp only [stepEqn] at h
    split at h
    · rename_i a b hj
      simp at h; subst h
      exact (hd j (a, b) hj).symm
    · simp at h
  | trans j k =>
    simp only [stepEqn] at h
    split at h
    · rename_i a b b' c hj hk
      split at h
      · rename_i hb
        simp at h; subst h; subst hb
        exact (hd j (a, b) hj).trans (hd k (b, c) hk)
      · simp at h
    · simp at h
  | congr a b js =>
    simp only [stepEqn] at h
    split at h
    rename_i o1 as o2 bs
    split at h
    · rename_i hc
      simp only [Bool.and_eq_true, decide_eq_true_eq] at hc
      simp at h; subst h
      obtain ⟨ho, ha⟩ := hc
      subst ho
      simp only [Holds, eval, argsOk_sound I d hd as bs js ha]
    · simp at h
  | eqT j =>
    simp only [stepEqn] at h
    split at h
    · rename_i a b hj
      have hab := hd j (a, b) hj
      simp only [Holds] at hab
      simp at h; subst h
      simp only [Holds, eval, evalList, applyOp, allEqAdj, hab, tru]; simp
    · simp at h
  | bnot j =>
    simp only [stepEqn] at h
    split at h
    · rename_i a c hj
      have hac := hd j (a, c) hj
      simp only [Holds] at hac
      split at h
      · rename_i hc; subst hc
        simp at h; subst h
        simp only [Holds, eval, evalList, applyOp, hac, fls, tru, Val.toBool]; rfl
      · split at h
        · rename_i hc; subst hc
          simp at h; subst h
          simp only [Holds, eval, evalList, applyOp, hac, fls, tru, Val.toBool]; rfl
        · simp at h
    · simp at h

theorem allHold_push (I : Interp) (d : Array Eqn) (e : Eqn) (hd : AllHold I d) (he : Holds I e) :
    AllHold I (d.push e) := by
  intro j e' hj
  rw [Array.getElem?_push] at hj
  split at hj
  · simp at hj; subst hj; exact he
  · exact hd j e' hj

theorem runSteps_sound (I : Interp) (hyps : Array Eqn) (hh : AllHold I hyps) :
    ∀ (steps : List Step) (d d' : Array Eqn), AllHold I d → runSteps hyps steps d = some d' → AllHold I d'
  | [], d, d', hd, h => by simp [runSteps] at h; subst h; exact hd
  | s :: r, d, d', hd, h => by
    simp only [runSteps] at h
    split at h
    · rename_i e he
      exact runSteps_sound I hyps hh r _ d' (allHold_push I d e hd (stepEqn_sound I hyps d hh hd s e he)) h
    · simp at h

theorem eval_tru (I : Interp) : eval I tru = .b true := by simp [tru, eval, evalList, applyOp]
theorem eval_fls (I : Interp) : eval I fls = .b false := by simp [fls, eval, evalList, applyOp]

/-- the hypotheses extracted from a clause literal hold whenever that literal is false -/
theorem hypsOfLit_sound (I : Interp) (hI : I.WF) (l : Term × Bool) (e : Eqn) (h : e ∈ hypsOfLit l)
    (hfalse : evalB I l.1 = l.2) : Holds I e := by
  unfold hypsOfLit at h
  rcases List.mem_append.mp h with h1 | h2
  · split at h1
    · rename_i a b
      split at h1
      · simp at h1
      · simp only [List.mem_singleton] at h1; subst h1
        simp only [evalB, eval, evalList, applyOp, allEqAdj, Val.toBool] at hfalse
        simpa [Holds] using hfalse
    · simp at h1
  · split at h2
    · rename_i hb
      simp only [List.mem_singleton] at h2; subst h2
      obtain ⟨x, hx⟩ := isBool_eval I hI l.1 hb
      simp only [evalB, hx, Val.toBool] at hfalse
      cases hl : l.2 <;> simp [Holds, hx, eval_tru, eval_fls, hfalse, hl]
    · simp at h2

theorem hypsOf_hold (I : Interp) (hI : I.WF) (lits : List (Term × Bool))
    (hall : ∀ l ∈ lits, evalB I l.1 = l.2) : AllHold I (hypsOf lits).toArray := by
  intro j e hj
  have hmem : e ∈ hypsOf lits := by
    have := Array.mem_of_getElem? hj
    simpa using this
  simp only [hypsOf, List.mem_flatMap] at hmem
  obtain ⟨l, hl, hle⟩ := hmem
  exact hypsOfLit_sound I hI l e hle (hall l hl)

theorem isNumeral_eval (I : Interp) (t : Term) (q : Rat) (h : isNumeral t = some q) : eval I t = .n q := by
  unfold isNumeral at h
  split at h
  · simp at h; subst h; simp [eval, evalList, applyOp]
  · simp at h

/-- **EUF clause validity**: a clause accepted by `eufClauseCheck` has a true literal in every well-formed
interpretation. -/
theorem eufClauseCheck_sound (lits : List (Term × Bool)) (steps : List Step) (goal : Nat)
    (h : eufClauseCheck lits steps goal = true) (I : Interp) (hI : I.WF) :
    ∃ l ∈ lits, evalB I l.1 = !l.2 := by
  apply Classical.byContradiction
  intro hno
  have hall : ∀ l ∈ lits, evalB I l.1 = l.2 := by
    intro l hl
    have : ¬ evalB I l.1 = !l.2 := fun e => hno ⟨l, hl, e⟩
    cases h1 : evalB I l.1 <;> cases h2 : l.2 <;> simp_all
  unfold eufClauseCheck at h
  split at h
  · simp at h
  · rename_i d hd
    split at h
    · rename_i e he
      have hE : Holds I e :=
        runSteps_sound I _ (hypsOf_hold I hI lits hall) steps #[] d (by intro j e hj; simp at hj) hd goal e he
      unfold contradicts at h
      simp only [Bool.or_eq_true, List.any_eq_true, Bool.and_eq_true, decide_eq_true_eq] at h
      rcases h with ((⟨l, hl, hm⟩ | ⟨h1, h2⟩) | ⟨h1, h2⟩) | h
      · apply hno
        refine ⟨l, hl, ?_⟩
        split at hm
        · rename_i a b
          simp only [Bool.or_eq_true, Bool.and_eq_true, decide_eq_true_eq] at hm
          simp only [evalB, eval, evalList, applyOp, allEqAdj, Val.toBool, Bool.not_false, Bool.and_true,
            decide_eq_true_eq]
          rcases hm with ⟨h1, h2⟩ | ⟨h1, h2⟩
          · rw [h1, h2]; exact hE
          · rw [h1, h2]; exact hE.symm
        · simp at hm
      · simp [Holds, h1, h2, eval_tru, eval_fls] at hE
      · simp [Holds, h1, h2, eval_tru, eval_fls] at hE
      · split at h
        · rename_i p q hp hq
          simp only [decide_eq_true_eq] at h
          simp only [Holds, isNumeral_eval I _ p hp, isNumeral_eval I _ q hq, Val.n.injEq] at hE
          exact h hE
        · simp at h
    · simp at h

end Osmt.EUF
