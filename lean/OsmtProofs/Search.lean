import Osmt.Search
import Mathlib.Data.Finset.Card
import Mathlib.Data.List.Nodup
import Mathlib.Tactic.Linarith
import Mathlib.Tactic.Ring
/-!
Termination measure of the trail machine: every step increases `phi`; within a restart period `mu` increases and is below `3^n`.
-/
namespace Osmt.Search

theorem len_le (n : Nat) (l : List Nat) (hn : l.Nodup) (hb : ∀ v ∈ l, v < n) : l.length ≤ n := by
  have hsub : l.toFinset ⊆ Finset.range n := by
    intro v hv
    simp only [List.mem_toFinset] at hv
    simpa using hb v hv
  calc l.length = l.toFinset.card := (List.toFinset_card_of_nodup hn).symm
    _ ≤ (Finset.range n).card := Finset.card_le_card hsub
    _ = n := Finset.card_range n

theorem digit_pos (m : Mark) : 1 ≤ digit m := by cases m <;> simp [digit]
theorem digit_le (m : Mark) : digit m ≤ 2 := by cases m <;> simp [digit]

theorem mu_lt : ∀ (n : Nat) (t : Trail), t.length ≤ n → mu n t < 3 ^ n
  | n, [], _ => by simp [mu]
  | 0, _ :: _, h => by simp at h
  | n + 1, e :: t, h => by
    have ih := mu_lt n t (by simpa using h)
    have hd := digit_le e.2
    simp only [mu, pow_succ]
    have : 0 < 3 ^ n := Nat.pow_pos (by decide)
    nlinarith

theorem mu_append_lt : ∀ (n : Nat) (t : Trail) (e : Nat × Mark), t.length < n → mu n t < mu n (t ++ [e])
  | 0, _, _, h => by simp at h
  | n + 1, [], e, _ => by
    have := digit_pos e.2
    simp only [List.nil_append, mu]
    have : 0 < 3 ^ n := Nat.pow_pos (by decide)
    nlinarith
  | n + 1, a :: t, e, h => by
    have ih := mu_append_lt n t e (by simpa using h)
    simp only [List.cons_append, mu]
    omega

theorem mu_backjump_lt : ∀ (n : Nat) (p rest : Trail) (x v : Nat), p.length + 1 + rest.length ≤ n →
    mu n (p ++ (x, Mark.dec) :: rest) < mu n (p ++ [(v, Mark.prop)])
  | 0, _, _, _, _, h => by omega
  | n + 1, [], rest, x, v, h => by
    have hr := mu_lt n rest (by simp at h; omega)
    simp only [List.nil_append, mu, digit]
    omega
  | n + 1, a :: p, rest, x, v, h => by
    have ih := mu_backjump_lt n p rest x v (by simp at h; omega)
    simp only [List.cons_append, mu]
    omega

theorem decomp (t : Trail) (k : Nat) (e : Nat × Mark) (h : t[k]? = some e) : t = t.take k ++ e :: t.drop (k + 1) := by
  have hk : k < t.length := by
    rcases Nat.lt_or_ge k t.length with h' | h'
    · exact h'
    · rw [List.getElem?_eq_none h'] at h; cases h
  have he : t[k] = e := by
    rw [List.getElem?_eq_getElem hk] at h; exact Option.some.inj h
  rw [← he, ← List.drop_eq_getElem_cons hk, List.take_append_drop]

theorem vars_take (t : Trail) (k : Nat) : vars (t.take k) = (vars t).take k := by simp [vars, List.map_take]

theorem step_inv_phi (n : Nat) (lim : Nat → Nat) (s s' : St) (x : Step) (hi : Inv n s) (h : step? n lim s x = some s') :
    Inv n s' ∧ phi n s < phi n s' := by
  obtain ⟨hnd, hb, hc⟩ := hi
  have hlen : s.t.length ≤ n := by simpa [vars] using len_le n (vars s.t) hnd hb
  cases x with
  | decide v =>
    simp only [step?] at h
    split at h
    · rename_i hv
      cases h
      have hnd' : (vars (s.t ++ [(v, Mark.dec)])).Nodup := by
        simp only [vars, List.map_append, List.map_cons, List.map_nil]
        exact List.Nodup.append hnd (by simp) (by
          intro a ha hb'; simp at hb'; subst hb'; exact hv.2 ha)
      have hb' : ∀ w ∈ vars (s.t ++ [(v, Mark.dec)]), w < n := by
        intro w hw
        simp only [vars, List.map_append, List.map_cons, List.map_nil, List.mem_append, List.mem_singleton] at hw
        rcases hw with hw | rfl
        · exact hb w hw
        · exact hv.1
      have hl' : (s.t ++ [(v, Mark.dec)]).length ≤ n := by simpa [vars] using len_le n _ hnd' hb'
      have hm := mu_append_lt n s.t (v, Mark.dec) (by simp at hl'; omega)
      refine ⟨⟨hnd', hb', ?_⟩, ?_⟩
      · show s.c ≤ mu n (s.t ++ [(v, Mark.dec)]); omega
      · show s.i * 3 ^ n + mu n s.t < s.i * 3 ^ n + mu n (s.t ++ [(v, Mark.dec)]); omega
    · cases h
  | propagate v =>
    simp only [step?] at h
    split at h
    · rename_i hv
      cases h
      have hnd' : (vars (s.t ++ [(v, Mark.prop)])).Nodup := by
        simp only [vars, List.map_append, List.map_cons, List.map_nil]
        exact List.Nodup.append hnd (by simp) (by
          intro a ha hb'; simp at hb'; subst hb'; exact hv.2 ha)
      have hb' : ∀ w ∈ vars (s.t ++ [(v, Mark.prop)]), w < n := by
        intro w hw
        simp only [vars, List.map_append, List.map_cons, List.map_nil, List.mem_append, List.mem_singleton] at hw
        rcases hw with hw | rfl
        · exact hb w hw
        · exact hv.1
      have hl' : (s.t ++ [(v, Mark.prop)]).length ≤ n := by simpa [vars] using len_le n _ hnd' hb'
      have hm := mu_append_lt n s.t (v, Mark.prop) (by simp at hl'; omega)
      refine ⟨⟨hnd', hb', ?_⟩, ?_⟩
      · show s.c ≤ mu n (s.t ++ [(v, Mark.prop)]); omega
      · show s.i * 3 ^ n + mu n s.t < s.i * 3 ^ n + mu n (s.t ++ [(v, Mark.prop)]); omega
    · cases h
  | backjump k v =>
    simp only [step?] at h
    split at h
    · rename_i y hy
      split at h
      · rename_i hv
        cases h
        have hd := decomp s.t k _ hy
        have hsub : (vars (s.t.take k)).Sublist (vars s.t) := by
          rw [vars_take]; exact List.take_sublist _ _
        have hnd' : (vars (s.t.take k ++ [(v, Mark.prop)])).Nodup := by
          simp only [vars, List.map_append, List.map_cons, List.map_nil]
          exact List.Nodup.append (hnd.sublist hsub) (by simp) (by
            intro a ha hb'; simp at hb'; subst hb'; exact hv.2 ha)
        have hb' : ∀ w ∈ vars (s.t.take k ++ [(v, Mark.prop)]), w < n := by
          intro w hw
          simp only [vars, List.map_append, List.map_cons, List.map_nil, List.mem_append, List.mem_singleton] at hw
          rcases hw with hw | rfl
          · exact hb w (hsub.subset hw)
          · exact hv.1
        have hm : mu n s.t < mu n (s.t.take k ++ [(v, Mark.prop)]) := by
          conv_lhs => rw [hd]
          apply mu_backjump_lt
          have hk : k < s.t.length := by
            rcases Nat.lt_or_ge k s.t.length with h' | h'
            · exact h'
            · rw [List.getElem?_eq_none h'] at hy; cases hy
          simp only [List.length_take, List.length_drop]
          omega
        refine ⟨⟨hnd', hb', ?_⟩, ?_⟩
        · show s.c + 1 ≤ mu n (s.t.take k ++ [(v, Mark.prop)]); omega
        · show s.i * 3 ^ n + mu n s.t < s.i * 3 ^ n + mu n (s.t.take k ++ [(v, Mark.prop)]); omega
      · cases h
    · cases h
  | tjump k v =>
    simp only [step?] at h
    split at h
    · rename_i y hy
      split at h
      · rename_i hv
        cases h
        have hd := decomp s.t k _ hy
        have hsub : (vars (s.t.take k)).Sublist (vars s.t) := by
          rw [vars_take]; exact List.take_sublist _ _
        have hnd' : (vars (s.t.take k ++ [(v, Mark.prop)])).Nodup := by
          simp only [vars, List.map_append, List.map_cons, List.map_nil]
          exact List.Nodup.append (hnd.sublist hsub) (by simp) (by
            intro a ha hb'; simp at hb'; subst hb'; exact hv.2 ha)
        have hb' : ∀ w ∈ vars (s.t.take k ++ [(v, Mark.prop)]), w < n := by
          intro w hw
          simp only [vars, List.map_append, List.map_cons, List.map_nil, List.mem_append, List.mem_singleton] at hw
          rcases hw with hw | rfl
          · exact hb w (hsub.subset hw)
          · exact hv.1
        have hm : mu n s.t < mu n (s.t.take k ++ [(v, Mark.prop)]) := by
          conv_lhs => rw [hd]
          apply mu_backjump_lt
          have hk : k < s.t.length := by
            rcases Nat.lt_or_ge k s.t.length with h' | h'
            · exact h'
            · rw [List.getElem?_eq_none h'] at hy; cases hy
          simp only [List.length_take, List.length_drop]
          omega
        refine ⟨⟨hnd', hb', ?_⟩, ?_⟩
        · show s.c ≤ mu n (s.t.take k ++ [(v, Mark.prop)]); omega
        · show s.i * 3 ^ n + mu n s.t < s.i * 3 ^ n + mu n (s.t.take k ++ [(v, Mark.prop)]); omega
      · cases h
    · cases h
  | restart k =>
    simp only [step?] at h
    split at h
    · cases h
      have hsub : (vars (s.t.take k)).Sublist (vars s.t) := by
        rw [vars_take]; exact List.take_sublist _ _
      refine ⟨⟨hnd.sublist hsub, fun w hw => hb w (hsub.subset hw), Nat.zero_le _⟩, ?_⟩
      have := mu_lt n s.t hlen
      show s.i * 3 ^ n + mu n s.t < (s.i + 1) * 3 ^ n + mu n (s.t.take k)
      nlinarith
    · cases h

/-- a restart can only happen in a period whose conflict limit is below `3^n` -/
theorem restart_limit_small (n : Nat) (lim : Nat → Nat) (s s' : St) (k : Nat) (hi : Inv n s)
    (h : step? n lim s (.restart k) = some s') : lim s.i < 3 ^ n := by
  obtain ⟨hnd, hb, hc⟩ := hi
  have hlen : s.t.length ≤ n := by simpa [vars] using len_le n (vars s.t) hnd hb
  simp only [step?] at h
  split at h
  · rename_i hr
    have := mu_lt n s.t hlen
    omega
  · cases h

theorem step_index (n : Nat) (lim : Nat → Nat) (s s' : St) (x : Step) (h : step? n lim s x = some s') :
    s'.i = s.i ∨ (∃ k, x = .restart k ∧ s'.i = s.i + 1) := by
  cases x <;> simp only [step?] at h
  · split at h <;> cases h; exact Or.inl rfl
  · split at h <;> cases h; exact Or.inl rfl
  · split at h
    · split at h <;> cases h; exact Or.inl rfl
    · cases h
  · split at h
    · split at h <;> cases h; exact Or.inl rfl
    · cases h
  · split at h <;> cases h; exact Or.inr ⟨_, rfl, rfl⟩

theorem run_inv_phi (n : Nat) (lim : Nat → Nat) : ∀ (xs : List Step) (s s' : St), Inv n s → run? n lim s xs = some s' →
    Inv n s' ∧ phi n s + xs.length ≤ phi n s'
  | [], s, s', hi, h => by simp only [run?] at h; cases h; exact ⟨hi, by simp⟩
  | x :: xs, s, s', hi, h => by
    simp only [run?] at h
    split at h
    · rename_i s1 h1
      obtain ⟨hi1, hp1⟩ := step_inv_phi n lim s s1 x hi h1
      obtain ⟨hi', hp'⟩ := run_inv_phi n lim xs s1 s' hi1 h
      exact ⟨hi', by simp only [List.length_cons]; omega⟩
    · cases h

/-- if the limits are at least `3^n` from period `i0` on, the period index never exceeds `i0` -/
theorem run_index_le (n : Nat) (lim : Nat → Nat) (i0 : Nat) (hlim : ∀ i, i0 ≤ i → 3 ^ n ≤ lim i) :
    ∀ (xs : List Step) (s s' : St), Inv n s → s.i ≤ i0 → run? n lim s xs = some s' → s'.i ≤ i0
  | [], s, s', _, hle, h => by simp only [run?] at h; cases h; exact hle
  | x :: xs, s, s', hi, hle, h => by
    simp only [run?] at h
    split at h
    · rename_i s1 h1
      have hi1 := (step_inv_phi n lim s s1 x hi h1).1
      have hle1 : s1.i ≤ i0 := by
        rcases step_index n lim s s1 x h1 with he | ⟨k, rfl, he⟩
        · omega
        · have hsmall := restart_limit_small n lim s s1 k hi h1
          have : s.i < i0 := by
            by_contra hge
            have := hlim s.i (by omega)
            omega
          omega
      exact run_index_le n lim i0 hlim xs s1 s' hi1 hle1 h
    · cases h

theorem init_inv (n : Nat) : Inv n init := by simp [Inv, init, vars, mu]

/-- **Termination of the trail machine.**  With conflict limits that reach `3^n` (any unbounded restart policy does), every run
from the empty trail has fewer than `(i0 + 1) * 3^n` steps. -/
theorem run_length_bounded (n : Nat) (lim : Nat → Nat) (i0 : Nat) (hlim : ∀ i, i0 ≤ i → 3 ^ n ≤ lim i)
    (xs : List Step) (s' : St) (h : run? n lim init xs = some s') : xs.length < (i0 + 1) * 3 ^ n := by
  obtain ⟨hi', hp⟩ := run_inv_phi n lim xs init s' (init_inv n) h
  have hidx := run_index_le n lim i0 hlim xs init s' (init_inv n) (by simp [init]) h
  obtain ⟨hnd, hb, _⟩ := hi'
  have hlen : s'.t.length ≤ n := by simpa [vars] using len_le n (vars s'.t) hnd hb
  have hm := mu_lt n s'.t hlen
  simp only [phi, init, mu] at hp
  have : s'.i * 3 ^ n ≤ i0 * 3 ^ n := Nat.mul_le_mul_right _ hidx
  nlinarith

/-- **One restart period is finite**, whatever the restart policy: a run without restart has fewer than `3^n` steps. -/
theorem period_length_bounded (n : Nat) (lim : Nat → Nat) (xs : List Step) (s s' : St) (hi : Inv n s)
    (hnr : ∀ x ∈ xs, isRestart x = false) (h : run? n lim s xs = some s') : xs.length < 3 ^ n := by
  have hsame : ∀ (xs : List Step) (s s' : St), (∀ x ∈ xs, isRestart x = false) → run? n lim s xs = some s' → s'.i = s.i := by
    intro xs
    induction xs with
    | nil => intro s s' _ h; simp only [run?] at h; cases h; rfl
    | cons x xs ih =>
      intro s s' hnr h
      simp only [run?] at h
      split at h
      · rename_i s1 h1
        have h2 := ih s1 s' (fun y hy => hnr y (by simp [hy])) h
        rcases step_index n lim s s1 x h1 with he | ⟨k, rfl, _⟩
        · omega
        · have := hnr (.restart k) (by simp); simp [isRestart] at this
      · cases h
  obtain ⟨hi', hp⟩ := run_inv_phi n lim xs s s' hi h
  have he := hsame xs s s' hnr h
  obtain ⟨hnd, hb, _⟩ := hi'
  have hlen : s'.t.length ≤ n := by simpa [vars] using len_le n (vars s'.t) hnd hb
  have hm := mu_lt n s'.t hlen
  simp only [phi, he] at hp
  omega

end Osmt.Search
