import Osmt.Smt
import OsmtProofs.Cdcl
import OsmtProofs.Skel
import OsmtProofs.LA
import OsmtProofs.EUF
/-! Soundness of the SMT-level machine: an accepted `unsat` answer refutes the roots. -/
namespace Osmt.Smt
open Osmt

theorem clauseTerms_eval (vm : VarMap) (I : Interp) : ∀ (c : Clause) (lits : List (Term × Bool)),
    clauseTerms vm c = some lits → (∃ l ∈ lits, evalB I l.1 = !l.2) → Clause.eval (inducedAsg vm I) c = true
  | [], lits, h, hex => by
    simp [clauseTerms] at h; subst h; obtain ⟨l, hl, _⟩ := hex; simp at hl
  | l :: r, lits, h, hex => by
    simp only [clauseTerms, List.mapM_cons] at h
    cases hv : vm l.var with
    | none => simp [hv] at h
    | some t =>
      simp only [hv, Option.map_some, Option.bind_eq_bind, Option.bind_some] at h
      cases hr : List.mapM (fun l => (vm l.var).map (fun t => (t, l.neg))) r with
      | none => simp [hr] at h
      | some lr =>
        simp [hr] at h; subst h
        obtain ⟨x, hx, hxe⟩ := hex
        simp only [Clause.eval, List.any_cons, Bool.or_eq_true]
        rcases List.mem_cons.mp hx with rfl | hx
        · left
          simp only [Lit.eval, inducedAsg, hv]
          simp only at hxe
          cases hn : l.neg <;> simp [hn] at hxe ⊢ <;> exact hxe
        · right
          exact clauseTerms_eval vm I r lr hr ⟨x, hx, hxe⟩

theorem theoryOk_sound (vm : VarMap) (c : Clause) (cert : ThCert) (h : theoryOk vm c cert = true)
    (I : Interp) (hI : I.WF) : Clause.eval (inducedAsg vm I) c = true := by
  cases cert with
  | la cert =>
    simp only [theoryOk] at h
    split at h
    · rename_i lits hl
      exact clauseTerms_eval vm I c lits hl (LA.laClauseCheck_sound lits cert h I hI)
    · simp at h
  | euf steps goal =>
    simp only [theoryOk] at h
    split at h
    · rename_i lits hl
      exact clauseTerms_eval vm I c lits hl (EUF.eufClauseCheck_sound lits steps goal h I hI)
    · simp at h
  | trusted => simp [theoryOk] at h

/-- invariant: every axiom of the propositional machine holds under the assignment induced by any
well-formed interpretation that satisfies all roots; the database follows from the axioms -/
def Inv (s : State) : Prop :=
  Cdcl.Inv s.core ∧
  ∀ I : Interp, I.WF → (∀ r ∈ s.roots, evalB I r = true) → satisfies (inducedAsg s.vm I) s.core.axioms

theorem step_vm {s s' : State} {e : Event} (h : step? s e = some s') : s'.vm = s.vm ∧ s'.trustTheory = s.trustTheory := by
  cases e <;> simp only [step?] at h
  · split at h
    · simp only [Option.map_eq_some_iff] at h; obtain ⟨k, _, rfl⟩ := h; exact ⟨rfl, rfl⟩
    · simp at h
  · split at h
    · simp only [Option.map_eq_some_iff] at h; obtain ⟨k, _, rfl⟩ := h; exact ⟨rfl, rfl⟩
    · simp at h
  · simp only [Option.map_eq_some_iff] at h; obtain ⟨k, _, rfl⟩ := h; exact ⟨rfl, rfl⟩
  · split at h
    · simp only [Option.map_eq_some_iff] at h; obtain ⟨k, _, rfl⟩ := h; exact ⟨rfl, rfl⟩
    · simp at h

theorem axiom_step_axioms {k k' : Cdcl.State} {c : Clause} (h : Cdcl.step? k (.axiom_ c) = some k') :
    k'.axioms = c :: k.axioms := by
  simp only [Cdcl.step?, Option.some.injEq] at h; subst h; rfl

theorem other_step_axioms {k k' : Cdcl.State} {e : Cdcl.Event} (h : Cdcl.step? k e = some k')
    (hne : ∀ c, e ≠ .axiom_ c) : k'.axioms = k.axioms := by
  cases e with
  | axiom_ c => exact absurd rfl (hne c)
  | learn c => simp only [Cdcl.step?] at h; split at h <;> simp at h; subst h; rfl
  | answer a =>
    cases a with
    | sat m => simp only [Cdcl.step?] at h; split at h <;> simp at h; subst h; rfl
    | unsat as => simp only [Cdcl.step?] at h; split at h <;> simp at h; subst h; rfl
    | unknown => simp only [Cdcl.step?, Option.some.injEq] at h; subst h; rfl

theorem step_inv {s s' : State} {e : Event} (hs : s.trustTheory = false) (h : step? s e = some s')
    (hi : Inv s) : Inv s' := by
  obtain ⟨hc, hr⟩ := hi
  cases e with
  | input root c =>
    simp only [step?] at h
    split at h
    · rename_i hok
      simp only [Option.map_eq_some_iff] at h
      obtain ⟨k, hk, rfl⟩ := h
      refine ⟨Cdcl.step_inv hk hc, ?_⟩
      intro I hI hroots
      simp only [axiom_step_axioms hk]
      intro d hd
      rcases List.mem_cons.mp hd with rfl | hd
      · exact inputOk_sound s.vm root d hok I hI (hroots root (by simp))
      · exact hr I hI (fun r hr' => hroots r (by simp [hr'])) d hd
    · simp at h
  | theory c cert =>
    simp only [step?, hs, Bool.false_or] at h
    split at h
    · rename_i hok
      simp only [Option.map_eq_some_iff] at h
      obtain ⟨k, hk, rfl⟩ := h
      refine ⟨Cdcl.step_inv hk hc, ?_⟩
      intro I hI hroots
      simp only [axiom_step_axioms hk]
      intro d hd
      rcases List.mem_cons.mp hd with rfl | hd
      · exact theoryOk_sound s.vm d cert hok I hI
      · exact hr I hI hroots d hd
    · simp at h
  | learn c =>
    simp only [step?, Option.map_eq_some_iff] at h
    obtain ⟨k, hk, rfl⟩ := h
    refine ⟨Cdcl.step_inv hk hc, ?_⟩
    intro I hI hroots
    simp only [other_step_axioms hk (by intro c; simp)]
    exact hr I hI hroots
  | answer a =>
    simp only [step?] at h
    split at h
    · simp only [Option.map_eq_some_iff] at h
      obtain ⟨k, hk, rfl⟩ := h
      refine ⟨Cdcl.step_inv hk hc, ?_⟩
      intro I hI hroots
      simp only [other_step_axioms hk (by intro c; simp)]
      exact hr I hI hroots
    · simp at h

theorem run_inv : ∀ (evs : List Event) (s s' : State), s.trustTheory = false → run s evs = some s' → Inv s →
    Inv s' ∧ s'.vm = s.vm ∧ s'.trustTheory = false
  | [], s, s', ht, h, hi => by simp only [run, Option.some.injEq] at h; subst h; exact ⟨hi, rfl, ht⟩
  | e :: es, s, s', ht, h, hi => by
    simp only [run] at h
    split at h
    · simp at h
    · rename_i s1 hs
      have hv := step_vm hs
      obtain ⟨h1, h2, h3⟩ := run_inv es s1 s' (hv.2.trans ht) h (step_inv ht hs hi)
      exact ⟨h1, h2.trans hv.1, h3⟩

def init (vm : VarMap) (fuel : Nat) : State := { vm := vm, core := { fuel := fuel } }

theorem init_inv (vm : VarMap) (fuel : Nat) : Inv (init vm fuel) :=
  ⟨Cdcl.inv_init fuel, by intro I _ _ c hc; simp [init] at hc⟩

/-- **C01 (engine level)**: if the machine accepts an event sequence of a real run and then accepts the answer
`unsat` under assumptions `A`, then no well-formed interpretation satisfies every root formula handed to the
engine together with the assumption literals. Holds for every event sequence, whatever produced it. -/
theorem unsat_sound (vm : VarMap) (fuel : Nat) (evs : List Event) (A : List Lit) (s s' : State)
    (hrun : run (init vm fuel) evs = some s) (hans : step? s (.answer (.unsat A)) = some s') :
    ¬ ∃ I : Interp, I.WF ∧ (∀ r ∈ s.roots, evalB I r = true) ∧ (∀ l ∈ A, l.eval (inducedAsg vm I) = true) := by
  rintro ⟨I, hI, hroots, hA⟩
  obtain ⟨⟨hc, hr⟩, hvm, _⟩ := run_inv evs (init vm fuel) s rfl hrun (init_inv vm fuel)
  simp only [step?, answerOk, if_true, Option.map_eq_some_iff] at hans
  obtain ⟨k, hk, _⟩ := hans
  have hvm' : s.vm = vm := hvm
  exact Cdcl.step_unsat_sound hc hk ⟨inducedAsg vm I, hvm' ▸ hr I hI hroots, hA⟩

/-- **C12**: every clause in the database of an accepted run (learnt, derived, unit) is a propositional
consequence of the input and theory clauses seen so far (here with theory clauses taken as given). -/
theorem learnt_implied (s0 : State) (evs : List Event) (s : State)
    (hrun : run s0 evs = some s) (h0 : Cdcl.Inv s0.core) : Cdcl.Inv s.core := by
  induction evs generalizing s0 with
  | nil => simp only [run, Option.some.injEq] at hrun; subst hrun; exact h0
  | cons e es ih =>
    simp only [run] at hrun
    split at hrun
    · simp at hrun
    · rename_i s1 hs
      apply ih s1 hrun
      cases e <;> simp only [step?] at hs
      · split at hs
        · simp only [Option.map_eq_some_iff] at hs; obtain ⟨k, hk, rfl⟩ := hs; exact Cdcl.step_inv hk h0
        · simp at hs
      · split at hs
        · simp only [Option.map_eq_some_iff] at hs; obtain ⟨k, hk, rfl⟩ := hs; exact Cdcl.step_inv hk h0
        · simp at hs
      · simp only [Option.map_eq_some_iff] at hs; obtain ⟨k, hk, rfl⟩ := hs; exact Cdcl.step_inv hk h0
      · split at hs
        · simp only [Option.map_eq_some_iff] at hs; obtain ⟨k, hk, rfl⟩ := hs; exact Cdcl.step_inv hk h0
        · simp at hs

/-- the atom values of a model agree with an interpretation -/
def ModelAgrees (vm : VarMap) (m : List Lit) (I : Interp) : Prop :=
  ∀ l ∈ m, ∀ t, vm l.var = some t → eval I t = .b (!l.neg)

theorem modelAssign_agrees (vm : VarMap) (m : List Lit) (I : Interp) (h : ModelAgrees vm m I) :
    (modelAssign vm m).Agrees I := by
  intro e he
  simp only [modelAssign, List.mem_filterMap] at he
  obtain ⟨l, hl, hle⟩ := he
  cases hv : vm l.var with
  | none => simp [hv] at hle
  | some t =>
    simp only [hv, Option.bind_some] at hle
    split at hle
    · simp at hle; subst hle; exact h l hl t hv
    · simp at hle

/-- **C02 (engine level)**: an accepted `sat` answer comes with a Boolean model such that every
interpretation agreeing with it on the atoms makes every root formula true — the roots are evaluated from the
atom values alone, so neither the CNF encoding nor variable elimination is trusted. (That the atom values
are jointly consistent in the theory is established per run by validating a printed model, see C03.) -/
theorem sat_sound (s s' : State) (m : List Lit) (hans : step? s (.answer (.sat m)) = some s')
    (I : Interp) (hag : ModelAgrees s.vm m I) : ∀ r ∈ s.roots, evalB I r = true := by
  simp only [step?, answerOk] at hans
  by_cases hok : satOk s m = true
  · intro r hr
    simp only [satOk, List.all_eq_true, beq_iff_eq] at hok
    have := eval3_sound I _ (modelAssign_agrees s.vm m I hag) r true (hok r hr)
    simp [evalB, this, Val.toBool]
  · simp [hok] at hans

end Osmt.Smt
