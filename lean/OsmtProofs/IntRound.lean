import Osmt.IntRound
import Mathlib.Tactic.Linarith
import Mathlib.Tactic.Ring
import Mathlib.Tactic.FieldSimp
import Mathlib.Algebra.Order.Field.Rat
import Mathlib.Data.Int.Lemmas
/-! Exactness of integer rounding (C27), for every integer and rational input. -/
namespace Osmt.IntRound

theorem floor_eq_iff (q : Rat) (k : Int) : q.floor = k ↔ ((k : Rat) ≤ q ∧ q < (k : Rat) + 1) := by
  constructor
  · rintro rfl
    exact ⟨Rat.floor_le q, by have := Rat.lt_floor_add_one q; push_cast at this; exact this⟩
  · rintro ⟨h1, h2⟩
    have a : k ≤ q.floor := Rat.le_floor_iff.mpr h1
    have b : q.floor < k + 1 := by
      rw [Rat.floor_lt_iff]; push_cast; exact h2
    omega

theorem ceil_eq_iff (q : Rat) (k : Int) : q.ceil = k ↔ ((k : Rat) - 1 < q ∧ q ≤ (k : Rat)) := by
  rw [Rat.ceil_eq_neg_floor_neg]
  constructor
  · intro h
    have h' : (-q).floor = -k := by omega
    obtain ⟨h1, h2⟩ := (floor_eq_iff _ _).mp h'
    push_cast at h1 h2
    constructor <;> linarith
  · rintro ⟨h1, h2⟩
    have : (-q).floor = -k := (floor_eq_iff _ _).mpr ⟨by push_cast; linarith, by push_cast; linarith⟩
    omega

/-- bounds on an integer from a rational constant (`getBoundsValueForIntVar`) -/
theorem int_bounds (z : Int) (c : Rat) :
    ((z : Rat) ≤ c ↔ z ≤ boundLeq c) ∧ ((z : Rat) < c ↔ z ≤ boundLt c) ∧
    (¬ (z : Rat) ≤ c ↔ boundNotLeq c ≤ z) ∧ (¬ (z : Rat) < c ↔ boundNotLt c ≤ z) := by
  unfold boundLeq boundLt boundNotLeq boundNotLt
  refine ⟨Rat.le_floor_iff.symm, ?_, ?_, ?_⟩
  · -- z < c ↔ z ≤ ⌈c-1⌉
    obtain ⟨h1, h2⟩ := (ceil_eq_iff (c - 1) _).mp rfl
    constructor
    · intro h
      by_contra hn
      have : (c - 1).ceil + 1 ≤ z := by omega
      have : (((c - 1).ceil + 1 : Int) : Rat) ≤ z := by exact_mod_cast this
      push_cast at this; linarith
    · intro h
      have : (z : Rat) ≤ ((c - 1).ceil : Rat) := by exact_mod_cast h
      linarith
  · -- ¬ z ≤ c ↔ ⌊c+1⌋ ≤ z
    obtain ⟨h1, h2⟩ := (floor_eq_iff (c + 1) _).mp rfl
    constructor
    · intro h
      have h' : c < z := lt_of_not_ge h
      by_contra hn
      have : z + 1 ≤ (c + 1).floor := by omega
      have : ((z + 1 : Int) : Rat) ≤ ((c + 1).floor : Rat) := by exact_mod_cast this
      push_cast at this; linarith
    · intro h hle
      have : (((c + 1).floor : Int) : Rat) ≤ z := by exact_mod_cast h
      linarith
  · -- ¬ z < c ↔ ⌈c⌉ ≤ z
    obtain ⟨h1, h2⟩ := (ceil_eq_iff c _).mp rfl
    constructor
    · intro h
      have h' : c ≤ z := le_of_not_gt h
      by_contra hn
      have : z + 1 ≤ c.ceil := by omega
      have : ((z + 1 : Int) : Rat) ≤ (c.ceil : Rat) := by exact_mod_cast this
      push_cast at this; linarith
    · intro h hlt
      have : ((c.ceil : Int) : Rat) ≤ z := by exact_mod_cast h
      linarith

/-- constant folding of `div`: SMT-LIB (Euclidean) quotient for either sign of the divisor -/
theorem foldDiv_eq (a d : Int) (hd : d ≠ 0) : foldDiv a d = a / d := by
  unfold foldDiv
  simp only
  rcases lt_or_gt_of_ne hd with hneg | hpos
  · have hng : ¬ d > 0 := by omega
    rw [if_neg hng, ceil_eq_iff]
    have hdq : (d : Rat) < 0 := by exact_mod_cast hneg
    -- Euclidean: a = d * (a/d) + r, 0 ≤ r < |d| = -d
    have h1 := Int.emod_nonneg a hd
    have h2 : a % d < -d := by have := Int.emod_lt_abs a hd; rw [abs_of_neg hneg] at this; exact this
    have h3 := Int.emod_add_mul_ediv a d
    have e : (a : Rat) = (a % d : Int) + (d : Rat) * ((a / d : Int) : Rat) := by exact_mod_cast h3.symm
    have r1 : (0 : Rat) ≤ ((a % d : Int) : Rat) := by exact_mod_cast h1
    have r2 : ((a % d : Int) : Rat) < -(d : Rat) := by exact_mod_cast h2
    have hx : (a : Rat) / d * d = a := div_mul_cancel₀ _ (ne_of_lt hdq)
    generalize (a : Rat) / d = x at hx
    have key : (x - ((a / d : Int) : Rat)) * d = ((a % d : Int) : Rat) := by rw [sub_mul, hx, e]; ring
    constructor
    · by_contra hc
      push_neg at hc
      have h5 : x - ((a / d : Int) : Rat) ≤ -1 := by linarith
      have h6 : (x - ((a / d : Int) : Rat)) * d ≥ (-1) * d := mul_le_mul_of_nonpos_right h5 hdq.le
      linarith
    · by_contra hc
      push_neg at hc
      have h5 : 0 < x - ((a / d : Int) : Rat) := by linarith
      have h6 : (x - ((a / d : Int) : Rat)) * d < 0 := mul_neg_of_pos_of_neg h5 hdq
      linarith
  · rw [if_pos hpos, floor_eq_iff]
    have hdq : (0 : Rat) < d := by exact_mod_cast hpos
    have h1 := Int.emod_nonneg a hd
    have h2 : a % d < d := Int.emod_lt_of_pos a hpos
    have h3 := Int.emod_add_mul_ediv a d
    have e : (a : Rat) = (a % d : Int) + (d : Rat) * ((a / d : Int) : Rat) := by exact_mod_cast h3.symm
    have r1 : (0 : Rat) ≤ ((a % d : Int) : Rat) := by exact_mod_cast h1
    have r2 : ((a % d : Int) : Rat) < (d : Rat) := by exact_mod_cast h2
    constructor
    · rw [le_div_iff₀ hdq]; nlinarith
    · rw [div_lt_iff₀ hdq]; nlinarith

/-- constant folding of `mod`: SMT-LIB (Euclidean) remainder, `0 ≤ r < |d|` -/
theorem foldMod_eq (a d : Int) (hd : d ≠ 0) : foldMod a d = a % d := by
  unfold foldMod
  rw [foldDiv_eq a d hd]
  have := Int.emod_add_mul_ediv a d
  linarith [Int.mul_comm (a / d) d]

/-- the axioms used to eliminate `div` / `mod` characterise exactly the Euclidean quotient and remainder -/
theorem divmod_def (a d q r : Int) (hd : d ≠ 0) :
    (a = d * q + r ∧ 0 ≤ r ∧ r ≤ |d| - 1) ↔ (q = a / d ∧ r = a % d) := by
  constructor
  · rintro ⟨h1, h2, h3⟩
    have hr : r < |d| := by omega
    have hq : q = a / d := by
      rw [h1, Int.add_comm, Int.add_mul_ediv_left _ _ hd, Int.ediv_eq_zero_of_lt_abs h2 hr]; ring
    refine ⟨hq, ?_⟩
    have := Int.emod_add_mul_ediv a d
    rw [← hq] at this
    linarith
  · rintro ⟨rfl, rfl⟩
    refine ⟨?_, Int.emod_nonneg a hd, ?_⟩
    · have := Int.emod_add_mul_ediv a d; linarith
    · have := Int.emod_lt_abs a hd; omega

/-- gcd normalisation of an integer inequality: dividing by a positive common factor and rounding the bound
down keeps exactly the same integer solutions -/
theorem gcd_normalise (g : Int) (hg : 0 < g) (s c : Int) : g * s ≤ c ↔ s ≤ c / g := by
  rw [Int.le_ediv_iff_mul_le hg, Int.mul_comm]

/-- negation of an integer difference constraint -/
theorem negateDL_exact (x y c : Int) : ¬ (x - y ≤ c) ↔ y - x ≤ negateDL c := by
  unfold negateDL; omega

end Osmt.IntRound
