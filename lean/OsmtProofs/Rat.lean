import Osmt.Rat
import Mathlib.Data.Rat.Defs
import Mathlib.Data.Rat.Lemmas
import Mathlib.Data.Nat.GCD.Basic
import Mathlib.Data.Int.GCD
import Mathlib.Tactic.Linarith
import Mathlib.Tactic.Ring
import OsmtProofs.Knuth
/-! Exactness and canonicity of the `FastRational` mirror. -/
namespace Osmt.FR

theorem gcdLoop_eq : ∀ (fuel a b : Nat), 0 < b → b < fuel → gcdLoop fuel a b = Nat.gcd a b
  | 0, _, _, _, h => by omega
  | fuel+1, a, b, hb, hf => by
    simp only [gcdLoop]
    split
    · rename_i hr
      have : b ∣ a := Nat.dvd_of_mod_eq_zero hr
      exact (Nat.gcd_eq_right this).symm
    · rename_i hr
      have hlt : a % b < b := Nat.mod_lt _ hb
      rw [gcdLoop_eq fuel b (a % b) (Nat.pos_of_ne_zero hr) (by omega)]
      rw [Nat.gcd_comm a b, Nat.gcd_rec b a, Nat.gcd_comm]

/-- the `gcd` template computes the greatest common divisor -/
theorem gcdU_eq (a b : Nat) : gcdU a b = Nat.gcd a b := by
  unfold gcdU
  split
  · rename_i h; subst h; simp
  · split
    · rename_i h; subst h; simp
    · rename_i ha hb
      split
      · rw [gcdLoop_eq _ b a (Nat.pos_of_ne_zero ha) (by omega), Nat.gcd_comm]
      · exact gcdLoop_eq _ a b (Nat.pos_of_ne_zero hb) (by omega)

/-- well-formedness: what `isWellFormed()` and the representation discipline require -/
def WFw (n : Int) (d : Nat) : Prop :=
  WORD_MIN ≤ n ∧ n ≤ WORD_MAX ∧ 0 < d ∧ d ≤ UWORD_MAX ∧ Nat.gcd n.natAbs d = 1

def FR.WF : FR → Prop
  | .word n d => WFw n d
  | .big n d => 0 < d ∧ Nat.gcd n.natAbs d = 1 ∧ fits n d = false

theorem fits_iff (n : Int) (d : Nat) : fits n d = true ↔ (WORD_MIN ≤ n ∧ n ≤ WORD_MAX ∧ d ≤ UWORD_MAX) := by
  simp [fits, and_assoc]

theorem ofRat_exact (q : Rat) : (ofRat q).toRat = q := by
  unfold ofRat
  split <;> simp [FR.toRat, Rat.mkRat_self]

theorem ofRat_wf (q : Rat) : (ofRat q).WF := by
  unfold ofRat
  split
  · rename_i h
    have := (fits_iff _ _).mp h
    exact ⟨this.1, this.2.1, q.den_pos, this.2.2, q.reduced⟩
  · rename_i h
    exact ⟨q.den_pos, q.reduced, by simpa using h⟩

theorem toRat_num_den (n : Int) (d : Nat) (hd : 0 < d) (hc : Nat.gcd n.natAbs d = 1) :
    (mkRat n d).num = n ∧ (mkRat n d).den = d := by
  have hd' : d ≠ 0 := by omega
  have := Rat.mkRat_num_den hd' (rfl : mkRat n d = mkRat n d)
  rw [Rat.mkRat_eq_divInt, Rat.divInt_eq_div] at *
  constructor
  · exact Rat.num_div_eq_of_coprime (by exact_mod_cast hd) (by simpa [Nat.Coprime] using hc)
  · have := Rat.den_div_eq_of_coprime (a := n) (b := (d : Int)) (by exact_mod_cast hd) (by simpa [Nat.Coprime] using hc)
    exact_mod_cast this

/-- **canonical representation**: well-formed values that are equal as rationals are equal as data, hence have
the same representation and hash -/
theorem canonical (a b : FR) (ha : a.WF) (hb : b.WF) (h : a.toRat = b.toRat) : a = b := by
  cases a with
  | word an ad =>
    obtain ⟨a1, a2, a3, a4, a5⟩ := ha
    have hA := toRat_num_den an ad a3 a5
    cases b with
    | word bn bd =>
      obtain ⟨b1, b2, b3, b4, b5⟩ := hb
      have hB := toRat_num_den bn bd b3 b5
      simp only [FR.toRat] at h
      rw [h] at hA
      have hn : an = bn := hA.1.symm.trans hB.1
      have hd : ad = bd := hA.2.symm.trans hB.2
      rw [hn, hd]
    | big bn bd =>
      obtain ⟨b3, b5, b6⟩ := hb
      have hB := toRat_num_den bn bd b3 b5
      simp only [FR.toRat] at h
      rw [h] at hA
      have hn : an = bn := hA.1.symm.trans hB.1
      have hd : ad = bd := hA.2.symm.trans hB.2
      exfalso
      have : fits bn bd = true := by
        rw [fits_iff, ← hn, ← hd]; exact ⟨a1, a2, a4⟩
      rw [this] at b6; exact absurd b6 (by simp)
  | big an ad =>
    obtain ⟨a3, a5, a6⟩ := ha
    have hA := toRat_num_den an ad a3 a5
    cases b with
    | word bn bd =>
      obtain ⟨b1, b2, b3, b4, b5⟩ := hb
      have hB := toRat_num_den bn bd b3 b5
      simp only [FR.toRat] at h
      rw [h] at hA
      have hn : an = bn := hA.1.symm.trans hB.1
      have hd : ad = bd := hA.2.symm.trans hB.2
      exfalso
      have : fits an ad = true := by
        rw [fits_iff, hn, hd]; exact ⟨b1, b2, b4⟩
      rw [this] at a6; exact absurd a6 (by simp)
    | big bn bd =>
      obtain ⟨b3, b5, b6⟩ := hb
      have hB := toRat_num_den bn bd b3 b5
      simp only [FR.toRat] at h
      rw [h] at hA
      have hn : an = bn := hA.1.symm.trans hB.1
      have hd : ad = bd := hA.2.symm.trans hB.2
      rw [hn, hd]

end Osmt.FR

namespace Osmt.FR

theorem chkWord_some {x y : Int} (h : chkWord x = some y) : y = x ∧ WORD_MIN ≤ x ∧ x ≤ WORD_MAX := by
  unfold chkWord at h; split at h <;> simp_all
theorem chkUWord_some {x y : Nat} (h : chkUWord x = some y) : y = x ∧ x ≤ UWORD_MAX := by
  unfold chkUWord at h; split at h <;> simp_all

/-- the shared final reduction: if the gcd fits a `uword` (no truncation), the result is the reduced fraction -/
theorem reduceND_sound (n : Int) (d : Nat) (zn : Int) (zd : Nat) (hd : 0 < d)
    (hg : Nat.gcd n.natAbs d ≤ UWORD_MAX) (h : reduceND n d = some (zn, zd)) :
    mkRat zn zd = mkRat n d ∧ WFw zn zd := by
  unfold reduceND at h
  simp only [gcdU_eq] at h
  have hmod : Nat.gcd n.natAbs d % 2^32 = Nat.gcd n.natAbs d := Nat.mod_eq_of_lt (by unfold UWORD_MAX at hg; omega)
  rw [hmod] at h
  set g := Nat.gcd n.natAbs d with hgdef
  have hgpos : 0 < g := Nat.gcd_pos_of_pos_right _ hd
  have hgn : (g : ℤ) ∣ n := Int.natCast_dvd.mpr (Nat.gcd_dvd_left _ _)
  have hgd : g ∣ d := Nat.gcd_dvd_right _ _
  -- uniform description of zn, zd
  have hzn : (if g ≠ 1 then n / (g : ℤ) else n) = n / (g : ℤ) := by
    split
    · rfl
    · rename_i h1; simp only [ne_eq, not_not] at h1; simp [h1]
  have hzd : (if g ≠ 1 then d / g else d) = d / g := by
    split
    · rfl
    · rename_i h1; simp only [ne_eq, not_not] at h1; simp [h1]
  simp only [hzn, hzd] at h
  cases h1 : chkWord (n / (g : ℤ)) with
  | none => simp [h1] at h
  | some a =>
    cases h2 : chkUWord (d / g) with
    | none => simp [h1, h2] at h
    | some b =>
      simp only [h1, h2, Option.some.injEq, Prod.mk.injEq] at h
      obtain ⟨rfl, rfl⟩ := h
      obtain ⟨ea, ha1, ha2⟩ := chkWord_some h1
      obtain ⟨eb, hb1⟩ := chkUWord_some h2
      subst ea; subst eb
      have hdpos : 0 < d / g := Nat.div_pos (Nat.le_of_dvd hd hgd) hgpos
      refine ⟨?_, ha1, ha2, hdpos, hb1, ?_⟩
      · rw [Rat.mkRat_eq_iff (by omega) (by omega)]
        obtain ⟨n', hn'⟩ := hgn
        obtain ⟨d', hd'⟩ := hgd
        have e1 : n / (g : ℤ) = n' := by rw [hn']; exact Int.mul_ediv_cancel_left _ (by exact_mod_cast hgpos.ne')
        have e2 : d / g = d' := Nat.div_eq_of_eq_mul_right hgpos hd'
        rw [e1, e2, hn', hd']; push_cast; ring
      · rw [Int.natAbs_ediv_of_dvd hgn, Int.natAbs_natCast]
        exact Nat.coprime_div_gcd_div_gcd hgpos

theorem int_gcd_of_wf {n : Int} {d : Nat} (h : Nat.gcd n.natAbs d = 1) : Int.gcd n d = 1 := by
  simpa [Int.gcd] using h

/-- coprimality is preserved by adding a multiple of the denominator -/
theorem coprime_add_mul (a k : Int) (d : Nat) (h : Nat.gcd a.natAbs d = 1) :
    Nat.gcd (a + k * d).natAbs d = 1 := by
  have hs : Nat.gcd (a + k * d).natAbs d ∣ 1 := by
    rw [← h]
    apply Nat.dvd_gcd
    · have h1 : ((Nat.gcd (a + k * d).natAbs d : ℕ) : ℤ) ∣ a + k * d :=
        Int.natCast_dvd.mpr (Nat.gcd_dvd_left _ _)
      have h2 : ((Nat.gcd (a + k * d).natAbs d : ℕ) : ℤ) ∣ k * d :=
        Dvd.dvd.mul_left (Int.natCast_dvd_natCast.mpr (Nat.gcd_dvd_right _ _)) k
      exact Int.natCast_dvd.mp ((Int.dvd_add_left h2).mp h1)
    · exact Nat.gcd_dvd_right _ _
  exact Nat.dvd_one.mp hs

end Osmt.FR

namespace Osmt.FR

theorem slow_ok (q : Rat) : (ofRat q).toRat = q ∧ (ofRat q).WF := ⟨ofRat_exact q, ofRat_wf q⟩

/-- `addition` on two word-valid operands: exact sum and a well-formed (canonical, in-range) result, in every
branch: the three shortcuts, the two integer-operand branches, the general branch with both gcd reductions
(including the 32-bit store of the second gcd), and every fall-back to GMP. -/
theorem add_word_sound (an : Int) (ad : Nat) (bn : Int) (bd : Nat) (ha : WFw an ad) (hb : WFw bn bd) :
    (add (.word an ad) (.word bn bd)).toRat = mkRat an ad + mkRat bn bd ∧ (add (.word an ad) (.word bn bd)).WF := by
  obtain ⟨a1, a2, had, a4, a5⟩ := ha
  obtain ⟨b1, b2, hbd, b4, b5⟩ := hb
  have had' : ad ≠ 0 := by omega
  have hbd' : bd ≠ 0 := by omega
  unfold add
  simp only
  by_cases h1 : bn = 0
  · subst h1
    simp only [if_true]
    exact ⟨by simp [FR.toRat], a1, a2, had, a4, a5⟩
  simp only [h1, if_false]
  by_cases h2 : an = 0
  · subst h2
    simp only [if_true]
    exact ⟨by simp [FR.toRat], b1, b2, hbd, b4, b5⟩
  simp only [h2, if_false]
  by_cases h3 : ad = bd ∧ bn > WORD_MIN ∧ an = -bn
  · rw [if_pos h3]
    obtain ⟨e1, _, e3⟩ := h3
    subst e1; subst e3
    refine ⟨?_, by unfold WORD_MIN; omega, by unfold WORD_MAX; omega, by omega, by unfold UWORD_MAX; omega, by simp⟩
    simp only [FR.toRat]
    rw [Rat.mkRat_add_mkRat _ _ had' had', Rat.mkRat_eq_iff (by decide) (Nat.mul_ne_zero had' had')]
    push_cast; ring
  rw [if_neg h3]
  by_cases h4 : bd = 1
  · subst h4
    simp only [if_true]
    cases hc : chkWord (an + bn * ad) with
    | none => exact slow_ok _
    | some n =>
      obtain ⟨rfl, hn1, hn2⟩ := chkWord_some hc
      refine ⟨?_, hn1, hn2, had, a4, coprime_add_mul an bn ad a5⟩
      simp only [FR.toRat]
      rw [Rat.mkRat_add_mkRat _ _ had' (by decide), Rat.mkRat_eq_iff had' (by simpa using had')]
      push_cast; ring
  simp only [h4, if_false]
  by_cases h5 : ad = 1
  · subst h5
    simp only [if_true]
    cases hc : chkWord (bn + an * bd) with
    | none => exact slow_ok _
    | some n =>
      obtain ⟨rfl, hn1, hn2⟩ := chkWord_some hc
      refine ⟨?_, hn1, hn2, hbd, b4, coprime_add_mul bn an bd b5⟩
      simp only [FR.toRat]
      rw [Rat.mkRat_add_mkRat _ _ (by decide) hbd', Rat.mkRat_eq_iff hbd' (by simpa using hbd')]
      push_cast; ring
  simp only [h5, if_false]
  -- general branch
  rw [gcdU_eq]
  set g := Nat.gcd ad bd with hg
  have hgpos : 0 < g := Nat.gcd_pos_of_pos_left _ had
  have hn1 : (if g ≠ 1 then an * ((bd : ℤ) / (g : ℤ)) else an * (bd : ℤ)) = an * ((bd / g : ℕ) : ℤ) := by
    split
    · rw [Int.natCast_ediv]
    · rename_i hh; simp only [ne_eq, not_not] at hh; simp [hh]
  have hn2 : (if g ≠ 1 then bn * ((ad : ℤ) / (g : ℤ)) else bn * (ad : ℤ)) = bn * ((ad / g : ℕ) : ℤ) := by
    split
    · rw [Int.natCast_ediv]
    · rename_i hh; simp only [ne_eq, not_not] at hh; simp [hh]
  simp only [hn1, hn2]
  cases hs : chkSumL (an * ((bd / g : ℕ) : ℤ)) (bn * ((ad / g : ℕ) : ℤ)) with
  | none => exact slow_ok _
  | some n =>
    have hn : n = an * ((bd / g : ℕ) : ℤ) + bn * ((ad / g : ℕ) : ℤ) := by
      unfold chkSumL at hs
      split at hs
      · simp at hs
      · split at hs
        · simp at hs
        · simp at hs; exact hs.symm
    have hbdg : bd / g ≤ UWORD_MAX := le_trans (Nat.div_le_self _ _) b4
    have hDlt : ad * (bd / g) < 2^64 := by
      have : ad * (bd / g) ≤ UWORD_MAX * UWORD_MAX := Nat.mul_le_mul a4 hbdg
      unfold UWORD_MAX at this; omega
    rw [Nat.mod_eq_of_lt hDlt]
    dsimp only
    have hbdgpos : 0 < bd / g := Nat.div_pos (Nat.le_of_dvd hbd (Nat.gcd_dvd_right _ _)) hgpos
    have hDpos : 0 < ad * (bd / g) := Nat.mul_pos had hbdgpos
    cases hr : reduceND n (ad * (bd / g)) with
    | none => exact slow_ok _
    | some zz =>
      obtain ⟨zn, zd⟩ := zz
      have hk := knuth_gcd_dvd an bn ad bd had hbd (int_gcd_of_wf a5) (int_gcd_of_wf b5)
      rw [← hg, ← hn] at hk
      have hgle : Nat.gcd n.natAbs (ad * (bd / g)) ≤ UWORD_MAX :=
        le_trans (Nat.le_of_dvd hgpos hk) (le_trans (Nat.le_of_dvd had (Nat.gcd_dvd_left _ _)) a4)
      obtain ⟨hv, hwf⟩ := reduceND_sound n (ad * (bd / g)) zn zd hDpos hgle hr
      refine ⟨?_, hwf⟩
      simp only [FR.toRat]
      rw [hv, Rat.mkRat_add_mkRat _ _ had' hbd', Rat.mkRat_eq_iff (by omega) (Nat.mul_ne_zero had' hbd'), hn]
      obtain ⟨x, hx⟩ : g ∣ bd := Nat.gcd_dvd_right _ _
      obtain ⟨y, hy⟩ : g ∣ ad := Nat.gcd_dvd_left _ _
      have e1 : bd / g = x := Nat.div_eq_of_eq_mul_right hgpos hx
      have e2 : ad / g = y := Nat.div_eq_of_eq_mul_right hgpos hy
      rw [e1, e2]
      have hx' : (bd : ℤ) = g * x := by exact_mod_cast hx
      have hy' : (ad : ℤ) = g * y := by exact_mod_cast hy
      push_cast
      rw [hx', hy']; ring

/-- **C15 (addition)**: for all well-formed operands, in either representation, `addition` returns the exact
sum in well-formed (canonical) form. -/
theorem add_sound (a b : FR) (ha : a.WF) (hb : b.WF) :
    (add a b).toRat = a.toRat + b.toRat ∧ (add a b).WF := by
  cases a with
  | word an ad =>
    cases b with
    | word bn bd => exact add_word_sound an ad bn bd ha hb
    | big bn bd => exact slow_ok _
  | big an ad => cases b <;> exact slow_ok _

end Osmt.FR

namespace Osmt.FR

/-- unary minus / `negate()`: exact and well-formed; `-WORD_MIN` leaves the word range and goes through GMP -/
theorem neg_sound (a : FR) (ha : a.WF) : (neg a).toRat = -a.toRat ∧ (neg a).WF := by
  cases a with
  | word n d =>
    obtain ⟨a1, a2, a3, a4, a5⟩ := ha
    simp only [neg]
    split
    · rename_i h
      refine ⟨by simp [FR.toRat, Rat.neg_mkRat], ?_, ?_, a3, a4, by simpa using a5⟩
      · unfold WORD_MIN WORD_MAX at *; omega
      · unfold WORD_MIN WORD_MAX at *; omega
    · exact slow_ok _
  | big n d => exact slow_ok _

theorem cmpInt_spec (a b : Int) : (cmpInt a b = -1 ↔ a < b) ∧ (cmpInt a b = 0 ↔ a = b) ∧ (cmpInt a b = 1 ↔ a > b) := by
  unfold cmpInt
  split
  · rename_i h; simp; omega
  · split
    · rename_i h1 h2; simp; omega
    · rename_i h1 h2; simp; omega

theorem mkRat_lt_iff (an bn : Int) (ad bd : Nat) (had : 0 < ad) (hbd : 0 < bd) :
    mkRat an ad < mkRat bn bd ↔ an * bd < bn * ad := by
  rw [Rat.mkRat_eq_div, Rat.mkRat_eq_div]
  have h1 : (0 : ℚ) < ad := by exact_mod_cast had
  have h2 : (0 : ℚ) < bd := by exact_mod_cast hbd
  rw [div_lt_div_iff₀ h1 h2]
  exact_mod_cast Iff.rfl

/-- `compare` is the order of the rationals (the word path compares cross products in 64 bits: |num| ≤ 2^31 and
den < 2^32, so the products do not overflow) -/
theorem compare_exact (a b : FR) (ha : a.WF) (hb : b.WF) :
    (compare a b = -1 ↔ a.toRat < b.toRat) ∧ (compare a b = 1 ↔ a.toRat > b.toRat) ∧
    (compare a b = 0 ↔ a.toRat = b.toRat) := by
  have generic : ∀ x y : Rat, let c : Int := if x < y then -1 else if x > y then 1 else 0
      (c = -1 ↔ x < y) ∧ (c = 1 ↔ x > y) ∧ (c = 0 ↔ x = y) := by
    intro x y
    rcases lt_trichotomy x y with h | h | h
    · have : ¬ x > y := not_lt.mpr h.le
      simp [h, this, h.ne]
    · subst h; simp
    · have : ¬ x < y := not_lt.mpr h.le
      simp [h, this, h.ne']
  cases a with
  | word an ad =>
    cases b with
    | word bn bd =>
      obtain ⟨_, _, had, _, _⟩ := ha
      obtain ⟨_, _, hbd, _, _⟩ := hb
      have hlt := mkRat_lt_iff an bn ad bd had hbd
      have hgt := mkRat_lt_iff bn an bd ad hbd had
      have heq : mkRat an ad = mkRat bn bd ↔ an * bd = bn * ad := Rat.mkRat_eq_iff (by omega) (by omega)
      simp only [compare, FR.toRat]
      split
      · rename_i h; subst h
        obtain ⟨c1, c2, c3⟩ := cmpInt_spec an bn
        have hp : (0 : ℤ) < (bd : ℤ) := by exact_mod_cast hbd
        refine ⟨c1.trans ?_, c3.trans ?_, c2.trans ?_⟩
        · rw [hlt]; exact (Int.mul_lt_mul_right hp).symm
        · show bn < an ↔ mkRat bn bd < mkRat an bd
          rw [hgt]; exact (Int.mul_lt_mul_right hp).symm
        · rw [heq]; constructor
          · intro e; rw [e]
          · intro e; exact mul_right_cancel₀ hp.ne' e
      · obtain ⟨c1, c2, c3⟩ := cmpInt_spec (an * bd) (bn * ad)
        refine ⟨c1.trans hlt.symm, c3.trans ?_, c2.trans heq.symm⟩
        show bn * (ad : ℤ) < an * bd ↔ mkRat bn bd < mkRat an ad
        exact hgt.symm
    | big bn bd => exact generic _ _
  | big an ad => cases b <;> exact generic _ _

end Osmt.FR

namespace Osmt.FR

theorem isZeroW_toRat (a : FR) (h : isZeroW a = true) : a.toRat = 0 := by
  cases a with
  | word n d => simp [isZeroW] at h; subst h; simp [FR.toRat]
  | big n d => simp [isZeroW] at h

theorem isOneW_toRat (a : FR) (h : isOneW a = true) : a.toRat = 1 := by
  cases a with
  | word n d =>
    simp [isOneW] at h; obtain ⟨rfl, rfl⟩ := h
    simp only [FR.toRat]
    rw [Rat.mkRat_eq_div]; simp
  | big n d => simp [isOneW] at h

theorem wf_zero : (FR.word 0 1).WF :=
  ⟨by unfold WORD_MIN; omega, by unfold WORD_MAX; omega, by omega, by unfold UWORD_MAX; omega, by simp⟩

/-- `multiplication`: exact product, well-formed result (cross-cancellation before multiplying keeps the result
reduced), in every branch -/
theorem mul_sound (a b : FR) (ha : a.WF) (hb : b.WF) :
    (mul a b).toRat = a.toRat * b.toRat ∧ (mul a b).WF := by
  unfold mul
  split
  · rename_i h
    simp only [Bool.or_eq_true] at h
    refine ⟨?_, wf_zero⟩
    rcases h with h | h
    · rw [isZeroW_toRat a h]; simp [FR.toRat]
    · rw [isZeroW_toRat b h]; simp [FR.toRat]
  split
  · rename_i h; exact ⟨by simp [isOneW_toRat a h], hb⟩
  split
  · rename_i h; exact ⟨by simp [isOneW_toRat b h], ha⟩
  cases a with
  | big an ad => exact slow_ok _
  | word an ad =>
    cases b with
    | big bn bd => exact slow_ok _
    | word bn bd =>
      obtain ⟨a1, a2, had, a4, a5⟩ := ha
      obtain ⟨b1, b2, hbd, b4, b5⟩ := hb
      simp only [gcdU_eq]
      set c1 := Nat.gcd an.natAbs bd with hc1
      set c2 := Nat.gcd ad bn.natAbs with hc2
      have hc1pos : 0 < c1 := Nat.gcd_pos_of_pos_right _ hbd
      have hc2pos : 0 < c2 := Nat.gcd_pos_of_pos_left _ had
      have e1 : (if c1 > 1 then an / (c1 : ℤ) else an) = an / (c1 : ℤ) := by
        split
        · rfl
        · have : c1 = 1 := by omega
          simp [this]
      have e4 : (if c1 > 1 then bd / c1 else bd) = bd / c1 := by
        split
        · rfl
        · have : c1 = 1 := by omega
          simp [this]
      have e2 : (if c2 > 1 then bn / (c2 : ℤ) else bn) = bn / (c2 : ℤ) := by
        split
        · rfl
        · have : c2 = 1 := by omega
          simp [this]
      have e3 : (if c2 > 1 then ad / c2 else ad) = ad / c2 := by
        split
        · rfl
        · have : c2 = 1 := by omega
          simp [this]
      simp only [e1, e2, e3, e4]
      cases h1 : chkWord (an / (c1 : ℤ) * (bn / (c2 : ℤ))) with
      | none => exact slow_ok _
      | some zn =>
        cases h2 : chkUWord (ad / c2 * (bd / c1)) with
        | none => exact slow_ok _
        | some zd =>
          obtain ⟨rfl, r1, r2⟩ := chkWord_some h1
          obtain ⟨rfl, r3⟩ := chkUWord_some h2
          dsimp only
          have d1 : (c1 : ℤ) ∣ an := Int.natCast_dvd.mpr (Nat.gcd_dvd_left _ _)
          have d4 : c1 ∣ bd := Nat.gcd_dvd_right _ _
          have d2 : (c2 : ℤ) ∣ bn := Int.natCast_dvd.mpr (Nat.gcd_dvd_right _ _)
          have d3 : c2 ∣ ad := Nat.gcd_dvd_left _ _
          obtain ⟨k1, hk1⟩ := d1
          obtain ⟨k4, hk4⟩ := d4
          obtain ⟨k2, hk2⟩ := d2
          obtain ⟨k3, hk3⟩ := d3
          have q1 : an / (c1 : ℤ) = k1 := by rw [hk1]; exact Int.mul_ediv_cancel_left _ (by exact_mod_cast hc1pos.ne')
          have q2 : bn / (c2 : ℤ) = k2 := by rw [hk2]; exact Int.mul_ediv_cancel_left _ (by exact_mod_cast hc2pos.ne')
          have q3 : ad / c2 = k3 := Nat.div_eq_of_eq_mul_right hc2pos hk3
          have q4 : bd / c1 = k4 := Nat.div_eq_of_eq_mul_right hc1pos hk4
          have k3pos : 0 < k3 := by
            rcases Nat.eq_zero_or_pos k3 with h | h
            · rw [h] at hk3; omega
            · exact h
          have k4pos : 0 < k4 := by
            rcases Nat.eq_zero_or_pos k4 with h | h
            · rw [h] at hk4; omega
            · exact h
          -- coprimality facts
          have cA : Nat.Coprime k1.natAbs k4 := by
            have := Nat.coprime_div_gcd_div_gcd (m := an.natAbs) (n := bd) hc1pos
            rw [← hc1, q4] at this
            have e : an.natAbs / c1 = k1.natAbs := by
              rw [hk1, Int.natAbs_mul, Int.natAbs_natCast]; exact Nat.mul_div_cancel_left _ hc1pos
            rwa [e] at this
          have cB : Nat.Coprime k3 k2.natAbs := by
            have := Nat.coprime_div_gcd_div_gcd (m := ad) (n := bn.natAbs) hc2pos
            rw [← hc2, q3] at this
            have e : bn.natAbs / c2 = k2.natAbs := by
              rw [hk2, Int.natAbs_mul, Int.natAbs_natCast]; exact Nat.mul_div_cancel_left _ hc2pos
            rwa [e] at this
          have cC : Nat.Coprime k1.natAbs k3 := by
            have h1' : k1.natAbs ∣ an.natAbs := ⟨c1, by rw [hk1, Int.natAbs_mul, Int.natAbs_natCast]; ring⟩
            have h2' : k3 ∣ ad := ⟨c2, by rw [hk3]; ring⟩
            exact Nat.Coprime.coprime_dvd_left h1' (Nat.Coprime.coprime_dvd_right h2' a5)
          have cD : Nat.Coprime k2.natAbs k4 := by
            have h1' : k2.natAbs ∣ bn.natAbs := ⟨c2, by rw [hk2, Int.natAbs_mul, Int.natAbs_natCast]; ring⟩
            have h2' : k4 ∣ bd := ⟨c1, by rw [hk4]; ring⟩
            exact Nat.Coprime.coprime_dvd_left h1' (Nat.Coprime.coprime_dvd_right h2' b5)
          rw [q1, q2] at r1 r2
          rw [q3, q4] at r3
          rw [q1, q2, q3, q4]
          refine ⟨?_, r1, r2, Nat.mul_pos k3pos k4pos, r3, ?_⟩
          · simp only [FR.toRat]
            rw [Rat.mkRat_mul_mkRat, Rat.mkRat_eq_iff (by positivity) (by positivity)]
            have hk3' : (ad : ℤ) = c2 * k3 := by exact_mod_cast hk3
            have hk4' : (bd : ℤ) = c1 * k4 := by exact_mod_cast hk4
            push_cast
            rw [hk1, hk2, hk3', hk4']; ring
          · rw [Int.natAbs_mul]
            exact Nat.Coprime.mul_left (Nat.Coprime.mul_right cC cA) (Nat.Coprime.mul_right cB.symm cD)

end Osmt.FR
