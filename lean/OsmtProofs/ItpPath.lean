import Osmt.ItpPath
import OsmtProofs.Itp
/-!
Path property of labelled interpolation systems: for one refutation labelled for two consecutive cuts whose labels fit together
(`pairOK`), the interpolant of the first cut together with the middle group implies the interpolant of the second cut.
-/
namespace Osmt.Itp

/-- the literals a node may still "owe": those whose two labels are not both `a` and not both `b` -/
def inX (x y : Lbl) : Bool := !(x.onlyA && y.onlyA) && !(x.onlyB && y.onlyB)

def restrX (n : Node2) : Clause :=
  n.proj1.clause.filter (fun l => inX (n.proj1.lab l.var) (n.proj2.lab l.var))

def PInv (G : Asg → Prop) (n : Node2) : Prop :=
  ∀ σ, G σ → n.proj1.itp.eval σ = true → cEval σ (restrX n) = false → n.proj2.itp.eval σ = true

theorem proj_clause : ∀ n : Node2, n.proj1.clause = n.proj2.clause
  | .leaf c o ls => by cases o <;> rfl
  | .leafT c ls i1 i2 => rfl
  | .res n1 n2 p => by simp only [Node2.proj1, Node2.proj2, Node.clause, proj_clause n1, proj_clause n2]

theorem pairOK_absent : pairOK ⟨false, false⟩ ⟨false, false⟩ = true := by decide

theorem pairOK_join (x1 y1 x2 y2 : Lbl) (h1 : pairOK x1 y1 = true) (h2 : pairOK x2 y2 = true) :
    pairOK (x1.join x2) (y1.join y2) = true := by
  obtain ⟨a1, b1⟩ := x1; obtain ⟨c1, d1⟩ := y1; obtain ⟨a2, b2⟩ := x2; obtain ⟨c2, d2⟩ := y2
  revert h1 h2
  cases a1 <;> cases b1 <;> cases c1 <;> cases d1 <;> cases a2 <;> cases b2 <;> cases c2 <;> cases d2 <;>
    simp [pairOK, Lbl.join, Lbl.absent, Lbl.onlyA, Lbl.onlyB]

theorem labs_pairOK (ls : Labs) (h : ls.all (fun e => pairOK e.2.1 e.2.2) = true) (v : Var) :
    pairOK (labOf1 ls v) (labOf2 ls v) = true := by
  unfold labOf1 labOf2
  cases hf : ls.find? (fun e => e.1 == v) with
  | none => exact pairOK_absent
  | some e =>
    have hm := List.mem_of_find?_eq_some hf
    exact List.all_eq_true.mp h e hm

theorem node_pairOK : ∀ n : Node2, n.labelsOK = true → ∀ v, pairOK (n.proj1.lab v) (n.proj2.lab v) = true
  | .leaf c o ls, h, v => by
    simp only [Node2.labelsOK, Bool.and_eq_true] at h
    cases o <;> exact labs_pairOK ls h.1 v
  | .leafT c ls i1 i2, h, v => by
    simp only [Node2.labelsOK, Bool.and_eq_true] at h
    exact labs_pairOK ls h.1 v
  | .res n1 n2 p, h, v => by
    simp only [Node2.labelsOK, Bool.and_eq_true] at h
    simp only [Node2.proj1, Node2.proj2, Node.lab]
    exact pairOK_join _ _ _ _ (node_pairOK n1 h.1 v) (node_pairOK n2 h.2 v)

/-- every literal of a node's clause is labelled (in the first cut, hence in both) -/
theorem labelled1 : ∀ n : Node2, n.labelsOK = true → ∀ l ∈ n.proj1.clause, (n.proj1.lab l.var).absent = false
  | .leaf c o ls, h, l, hl => by
    simp only [Node2.labelsOK, Bool.and_eq_true, List.all_eq_true, Bool.not_eq_true'] at h
    cases o <;> exact h.2 l (by simpa [Node2.proj1, Node.clause] using hl)
  | .leafT c ls i1 i2, h, l, hl => by
    simp only [Node2.labelsOK, Bool.and_eq_true, List.all_eq_true, Bool.not_eq_true'] at h
    exact h.2 l (by simpa [Node2.proj1, Node.clause] using hl)
  | .res n1 n2 p, h, l, hl => by
    simp only [Node2.labelsOK, Bool.and_eq_true] at h
    simp only [Node2.proj1, Node.clause, List.mem_append, List.mem_filter] at hl
    simp only [Node2.proj1, Node.lab, Lbl.join, Lbl.absent]
    rcases hl with ⟨h1, _⟩ | ⟨h2, _⟩
    · have := labelled1 n1 h.1 l h1
      revert this; simp only [Lbl.absent]
      cases (n1.proj1.lab l.var).a <;> cases (n1.proj1.lab l.var).b <;> simp
    · have := labelled1 n2 h.2 l h2
      revert this; simp only [Lbl.absent]
      cases (n2.proj1.lab l.var).a <;> cases (n2.proj1.lab l.var).b <;> simp

theorem any_false_iff (σ : Asg) (c : Clause) : cEval σ c = false ↔ ∀ l ∈ c, l.eval σ = false := by simp [cEval]

theorem inX_join (x1 y1 x2 y2 : Lbl) (hx : inX x1 y1 = true) (hn : x1.absent = false)
    (h1 : pairOK x1 y1 = true) (h2 : pairOK x2 y2 = true) : inX (x1.join x2) (y1.join y2) = true := by
  obtain ⟨a1, b1⟩ := x1; obtain ⟨c1, d1⟩ := y1; obtain ⟨a2, b2⟩ := x2; obtain ⟨c2, d2⟩ := y2
  revert hx hn h1 h2
  cases a1 <;> cases b1 <;> cases c1 <;> cases d1 <;> cases a2 <;> cases b2 <;> cases c2 <;> cases d2 <;>
    simp [inX, pairOK, Lbl.join, Lbl.absent, Lbl.onlyA, Lbl.onlyB]

theorem inX_join' (x1 y1 x2 y2 : Lbl) (hx : inX x2 y2 = true) (hn : x2.absent = false)
    (h1 : pairOK x1 y1 = true) (h2 : pairOK x2 y2 = true) : inX (x1.join x2) (y1.join y2) = true := by
  obtain ⟨a1, b1⟩ := x1; obtain ⟨c1, d1⟩ := y1; obtain ⟨a2, b2⟩ := x2; obtain ⟨c2, d2⟩ := y2
  revert hx hn h1 h2
  cases a1 <;> cases b1 <;> cases c1 <;> cases d1 <;> cases a2 <;> cases b2 <;> cases c2 <;> cases d2 <;>
    simp [inX, pairOK, Lbl.join, Lbl.absent, Lbl.onlyA, Lbl.onlyB]

/-- label facts used at the leaves -/
theorem leaf_first_lbl (x y : Lbl) (hb : x.b = true) (ha : x.a = false) (hp : pairOK x y = true) :
    (y.b = true ∧ y.a = false) ∨ inX x y = true := by
  obtain ⟨a, b⟩ := x; obtain ⟨c, d⟩ := y
  revert hb ha hp
  cases a <;> cases b <;> cases c <;> cases d <;> simp [inX, pairOK, Lbl.absent, Lbl.onlyA, Lbl.onlyB]

theorem leaf_middle_lbl (x y : Lbl) (hn : x.absent = false) (hp : pairOK x y = true) :
    (x.a = true ∧ x.b = false) ∨ inX x y = true ∨ (y.b = true ∧ y.a = false) := by
  obtain ⟨a, b⟩ := x; obtain ⟨c, d⟩ := y
  revert hn hp
  cases a <;> cases b <;> cases c <;> cases d <;> simp [inX, pairOK, Lbl.absent, Lbl.onlyA, Lbl.onlyB]

theorem leaf_last_lbl (x y : Lbl) (ha : y.a = true) (hb : y.b = false) (hp : pairOK x y = true) :
    (x.a = true ∧ x.b = false) ∨ inX x y = true := by
  obtain ⟨a, b⟩ := x; obtain ⟨c, d⟩ := y
  revert ha hb hp
  cases a <;> cases b <;> cases c <;> cases d <;> simp [inX, pairOK, Lbl.absent, Lbl.onlyA, Lbl.onlyB]

/-! ### leaves -/
theorem leaf_first (G c ls) (h : (Node2.leaf c .first ls).labelsOK = true) : PInv G (.leaf c .first ls) := by
  intro σ _ h1 hx
  simp only [Node2.proj1, Node2.proj2, Node.itp, bigOr_eval, cEval, List.any_eq_true] at h1 ⊢
  obtain ⟨l, hl, hlt⟩ := h1
  simp only [onlyB, List.mem_filter, Bool.and_eq_true, Bool.not_eq_true'] at hl
  have hp := node_pairOK _ h l.var
  simp only [Node2.proj1, Node2.proj2, Node.lab] at hp
  rcases leaf_first_lbl _ _ hl.2.1 hl.2.2 hp with hy | hy
  · refine ⟨l, ?_, hlt⟩
    simp only [onlyB, List.mem_filter, Bool.and_eq_true, Bool.not_eq_true']
    exact ⟨hl.1, hy⟩
  · exfalso
    rw [any_false_iff] at hx
    have : l ∈ restrX (.leaf c .first ls) := by
      simp only [restrX, Node2.proj1, Node2.proj2, Node.clause, Node.lab, List.mem_filter]
      exact ⟨hl.1, hy⟩
    rw [hx l this] at hlt; exact absurd hlt (by simp)

theorem leaf_middle (G c ls) (h : (Node2.leaf c .middle ls).labelsOK = true)
    (hm : (Node2.leaf c .middle ls).middleOk G) : PInv G (.leaf c .middle ls) := by
  intro σ hG h1 hx
  simp only [Node2.proj1, Node2.proj2, Node.itp, bigOr_eval, bigAndNeg_eval, Bool.not_eq_true'] at h1 ⊢
  have hc := hm σ hG
  simp only [cEval, List.any_eq_true] at hc ⊢
  obtain ⟨l, hl, hlt⟩ := hc
  have hp := node_pairOK _ h l.var
  have hn := labelled1 _ h l (by simpa [Node2.proj1, Node.clause] using hl)
  simp only [Node2.proj1, Node2.proj2, Node.lab] at hp hn
  rw [any_false_iff] at h1 hx
  rcases leaf_middle_lbl _ _ hn hp with hy | hy | hy
  · exfalso
    have : l ∈ onlyA c (labOf1 ls) := by
      simp only [onlyA, List.mem_filter, Bool.and_eq_true, Bool.not_eq_true']; exact ⟨hl, hy⟩
    rw [h1 l this] at hlt; exact absurd hlt (by simp)
  · exfalso
    have : l ∈ restrX (.leaf c .middle ls) := by
      simp only [restrX, Node2.proj1, Node2.proj2, Node.clause, Node.lab, List.mem_filter]
      exact ⟨hl, hy⟩
    rw [hx l this] at hlt; exact absurd hlt (by simp)
  · refine ⟨l, ?_, hlt⟩
    simp only [onlyB, List.mem_filter, Bool.and_eq_true, Bool.not_eq_true']
    exact ⟨hl, hy⟩

theorem leaf_last (G c ls) (h : (Node2.leaf c .last ls).labelsOK = true) : PInv G (.leaf c .last ls) := by
  intro σ _ h1 hx
  simp only [Node2.proj1, Node2.proj2, Node.itp, bigAndNeg_eval, Bool.not_eq_true'] at h1 ⊢
  rw [any_false_iff] at h1 hx ⊢
  intro l hl
  simp only [onlyA, List.mem_filter, Bool.and_eq_true, Bool.not_eq_true'] at hl
  have hp := node_pairOK _ h l.var
  simp only [Node2.proj1, Node2.proj2, Node.lab] at hp
  rcases leaf_last_lbl _ _ hl.2.1 hl.2.2 hp with hy | hy
  · exact h1 l (by simp only [onlyA, List.mem_filter, Bool.and_eq_true, Bool.not_eq_true']; exact ⟨hl.1, hy⟩)
  · exact hx l (by
      simp only [restrX, Node2.proj1, Node2.proj2, Node.clause, Node.lab, List.mem_filter]
      exact ⟨hl.1, hy⟩)

/-! ### resolution -/
theorem n1_restrX_false (σ) (n1 n2 : Node2) (p : Var) (h : (Node2.res n1 n2 p).labelsOK = true)
    (hpos : ∀ l ∈ n1.proj1.clause, l.var = p → l.neg = false)
    (hx : cEval σ (restrX (.res n1 n2 p)) = false)
    (hp : σ p = false ∨ inX (n1.proj1.lab p) (n1.proj2.lab p) = false) : cEval σ (restrX n1) = false := by
  rw [any_false_iff] at hx ⊢
  intro l hl
  simp only [restrX, List.mem_filter] at hl
  simp only [Node2.labelsOK, Bool.and_eq_true] at h
  by_cases hv : l.var = p
  · rcases hp with hp | hp
    · have := hpos l hl.1 hv; simp [Lit.eval, this, hv, hp]
    · rw [hv, hp] at hl; simp at hl
  · apply hx l
    simp only [restrX, Node2.proj1, Node2.proj2, Node.clause, Node.lab, List.mem_filter, List.mem_append]
    refine ⟨Or.inl ⟨hl.1, by simpa using hv⟩, ?_⟩
    exact inX_join _ _ _ _ hl.2 (labelled1 n1 h.1 l hl.1) (node_pairOK n1 h.1 _) (node_pairOK n2 h.2 _)

theorem n2_restrX_false (σ) (n1 n2 : Node2) (p : Var) (h : (Node2.res n1 n2 p).labelsOK = true)
    (hneg : ∀ l ∈ n2.proj1.clause, l.var = p → l.neg = true)
    (hx : cEval σ (restrX (.res n1 n2 p)) = false)
    (hp : σ p = true ∨ inX (n2.proj1.lab p) (n2.proj2.lab p) = false) : cEval σ (restrX n2) = false := by
  rw [any_false_iff] at hx ⊢
  intro l hl
  simp only [restrX, List.mem_filter] at hl
  simp only [Node2.labelsOK, Bool.and_eq_true] at h
  by_cases hv : l.var = p
  · rcases hp with hp | hp
    · have := hneg l hl.1 hv; simp [Lit.eval, this, hv, hp]
    · rw [hv, hp] at hl; simp at hl
  · apply hx l
    simp only [restrX, Node2.proj1, Node2.proj2, Node.clause, Node.lab, List.mem_filter, List.mem_append]
    refine ⟨Or.inr ⟨hl.1, by simpa using hv⟩, ?_⟩
    exact inX_join' _ _ _ _ hl.2 (labelled1 n2 h.2 l hl.1) (node_pairOK n1 h.1 _) (node_pairOK n2 h.2 _)

theorem res_pinv (G) (n1 n2 : Node2) (p : Var) (h : (Node2.res n1 n2 p).labelsOK = true)
    (hs : (Node2.res n1 n2 p).proj1.structOk = true)
    (i1 : PInv G n1) (i2 : PInv G n2) : PInv G (.res n1 n2 p) := by
  simp only [Node2.proj1, Node.structOk, Bool.and_eq_true, List.all_eq_true, List.any_eq_true, Bool.or_eq_true,
    bne_iff_ne, ne_eq, Bool.not_eq_true', beq_iff_eq] at hs
  obtain ⟨⟨⟨⟨⟨_, _⟩, hpos⟩, hneg⟩, ⟨l1, hl1, hv1⟩⟩, ⟨l2, hl2, hv2⟩⟩ := hs
  have hpos' : ∀ l ∈ n1.proj1.clause, l.var = p → l.neg = false := fun l hl hv => by
    rcases hpos l hl with h | h
    · exact absurd hv h
    · exact h
  have hneg' : ∀ l ∈ n2.proj1.clause, l.var = p → l.neg = true := fun l hl hv => by
    rcases hneg l hl with h | h
    · exact absurd hv h
    · exact h
  have hl := h
  simp only [Node2.labelsOK, Bool.and_eq_true] at hl
  have hna1 := labelled1 n1 hl.1 l1 hl1
  have hna2 := labelled1 n2 hl.2 l2 hl2
  rw [hv1] at hna1; rw [hv2] at hna2
  have hok1 := node_pairOK n1 hl.1 p
  have hok2 := node_pairOK n2 hl.2 p
  intro σ hG h1 hx
  have hI1 : (σ p = false ∨ inX (n1.proj1.lab p) (n1.proj2.lab p) = false) →
      n1.proj1.itp.eval σ = true → n1.proj2.itp.eval σ = true :=
    fun hp e => i1 σ hG e (n1_restrX_false σ n1 n2 p h hpos' hx hp)
  have hI2 : (σ p = true ∨ inX (n2.proj1.lab p) (n2.proj2.lab p) = false) →
      n2.proj1.itp.eval σ = true → n2.proj2.itp.eval σ = true :=
    fun hp e => i2 σ hG e (n2_restrX_false σ n1 n2 p h hneg' hx hp)
  revert h1
  simp only [Node2.proj1, Node2.proj2, Node.itp, Lbl.join]
  simp only [inX, pairOK, Lbl.absent, Lbl.onlyA, Lbl.onlyB] at hI1 hI2 hok1 hok2 hna1 hna2
  generalize (n1.proj1.lab p).a = a1 at hI1 hI2 hok1 hok2 hna1 hna2 ⊢
  generalize (n1.proj1.lab p).b = b1 at hI1 hI2 hok1 hok2 hna1 hna2 ⊢
  generalize (n2.proj1.lab p).a = a2 at hI1 hI2 hok1 hok2 hna1 hna2 ⊢
  generalize (n2.proj1.lab p).b = b2 at hI1 hI2 hok1 hok2 hna1 hna2 ⊢
  generalize (n1.proj2.lab p).a = c1 at hI1 hI2 hok1 hok2 hna1 hna2 ⊢
  generalize (n1.proj2.lab p).b = d1 at hI1 hI2 hok1 hok2 hna1 hna2 ⊢
  generalize (n2.proj2.lab p).a = c2 at hI1 hI2 hok1 hok2 hna1 hna2 ⊢
  generalize (n2.proj2.lab p).b = d2 at hI1 hI2 hok1 hok2 hna1 hna2 ⊢
  generalize hsp : σ p = sp at hI1 hI2 ⊢
  cases a1 <;> cases b1 <;> cases c1 <;> cases d1 <;> simp at hok1 hna1 <;>
  cases a2 <;> cases b2 <;> cases c2 <;> cases d2 <;> simp at hok2 hna2 <;>
  cases sp <;> simp_all [F.eval, Lit.eval] <;> grind

theorem pinv_all (G) : ∀ n : Node2, n.labelsOK = true → n.proj1.structOk = true → n.middleOk G → PInv G n
  | .leaf c .first ls, h, _, _ => leaf_first G c ls h
  | .leaf c .middle ls, h, _, hm => leaf_middle G c ls h hm
  | .leaf c .last ls, h, _, _ => leaf_last G c ls h
  | .leafT c ls i1 i2, _, _, hm => by
    intro σ hG h1 hx
    exact hm σ hG h1 (by simpa [restrX, inX, Node2.proj1, Node2.proj2, Node.clause, Node.lab] using hx)
  | .res n1 n2 p, h, hs, hm => by
    have hl := h
    simp only [Node2.labelsOK, Bool.and_eq_true] at hl
    have hs' := hs
    simp only [Node2.proj1, Node.structOk, Bool.and_eq_true] at hs'
    exact res_pinv G n1 n2 p h hs (pinv_all G n1 hl.1 hs'.1.1.1.1.1 hm.1) (pinv_all G n2 hl.2 hs'.1.1.1.1.2 hm.2)

/-- **Path property.**  For a refutation labelled for two consecutive cuts with fitting labels, whose middle-group leaves follow from
the middle group `G`: the first cut's interpolant together with `G` implies the second cut's interpolant. -/
theorem path_step (G : Asg → Prop) (n : Node2) (hl : n.labelsOK = true) (hs : n.proj1.structOk = true) (hm : n.middleOk G)
    (hempty : n.proj1.clause = []) : ∀ σ, G σ → n.proj1.itp.eval σ = true → n.proj2.itp.eval σ = true := by
  intro σ hG h1
  exact pinv_all G n hl hs hm σ hG h1 (by simp [restrX, hempty, cEval])

/-- the three proof-independent labelling systems of the solver give fitting labels for two consecutive cuts: moving the middle
group from the B side to the A side only adds A-membership and only removes B-membership -/
theorem system_pairOK (alg : Nat) (inA1 inB1 inA2 inB2 : Var → Bool) (v : Var)
    (hA : inA1 v = true → inA2 v = true) (hB : inB2 v = true → inB1 v = true)
    (hpres : (inA1 v || inB1 v) = (inA2 v || inB2 v)) :
    pairOK (systemLabel alg inA1 inB1 v) (systemLabel alg inA2 inB2 v) = true := by
  unfold systemLabel
  revert hA hB hpres
  generalize (alg == 0) = z0; generalize (alg == 1) = z1
  cases z0 <;> cases z1 <;> cases inA1 v <;> cases inB1 v <;> cases inA2 v <;> cases inB2 v <;>
    simp [pairOK, Lbl.absent, Lbl.onlyA, Lbl.onlyB]

end Osmt.Itp
