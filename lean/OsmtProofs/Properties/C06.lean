import OsmtProofs.ProofCheck
import OsmtProofs.Core
/-!
# C06 — unsat cores are unsatisfiable and name current assertions only;  C07 — minimal cores are irreducible

C06, proof-level part: the core is computed from the leaves of the resolution refutation; a refutation accepted
by the checker shows that its leaves are jointly unsatisfiable (`C06_refutation_leaves_unsat`).  That the leaves
map to the right assertions (partition masks, names → terms, scoping) is bookkeeping that is *not* mirrored here:
it is decided per run by re-deciding every printed core with certified verdicts (unsat: Lean machine on a fresh
traced run; sat: Lean evaluator on a printed model).
C07: `performNaive` over any monotone unsatisfiability oracle returns an unsatisfiable sub-list from which no
single member can be removed (`C07_naive_irreducible`).
-/
namespace Osmt.Properties
open Osmt

theorem C06_refutation_leaves_unsat (steps : List Proof.Step) (root : Nat) (h : Proof.checkRefutation steps root = true) :
    ¬ ∃ I : Interp, ∀ l ∈ Proof.leaves steps, Proof.clauseTrue I l = true := Proof.checkRefutation_sound steps root h

theorem C06_resolve_sound (I : Interp) (c1 c2 r : Proof.TClause) (p : Term) (h : Proof.resolve c1 c2 p = some r)
    (h1 : Proof.clauseTrue I c1 = true) (h2 : Proof.clauseTrue I c2 = true) : Proof.clauseTrue I r = true :=
  Proof.resolve_sound I c1 c2 r p h h1 h2

theorem C07_naive_irreducible {α} [DecidableEq α] (unsat : List α → Bool) (mono : Core.Monotone' unsat) (bg ts : List α)
    (hnd : ts.Nodup) (h : unsat (bg ++ ts) = true) :
    let ks := Core.performNaive unsat bg ts
    unsat (bg ++ ks) = true ∧ ks.Sublist ts ∧ ∀ k ∈ ks, unsat (bg ++ ks.erase k) = false :=
  Core.naive_irreducible unsat mono bg ts hnd h

/-! Non-vacuity: with "contains both 1 and 2" as unsatisfiability, the core of [1,3,2,4] is [1,2]. -/
example : Core.performNaive (fun s : List Nat => s.contains 1 && s.contains 2) [] [1, 3, 2, 4] = [1, 2] := by decide
def pa : Term := .app (.var 0 .bool) []
example : Proof.checkRefutation [.leaf [(pa, false)], .leaf [(pa, true)], .chain 0 [(1, pa)]] 2 = true := by decide
example : Proof.checkRefutation [.leaf [(pa, false)], .leaf [(pa, true)], .chain 0 [(5, pa)]] 2 = false := by decide

end Osmt.Properties
