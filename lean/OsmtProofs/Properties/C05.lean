import OsmtProofs.Properties.C01
import OsmtProofs.Properties.C02
/-!
# C05 — definitive answers do not depend on the solver configuration

The machine theorems of C01 and C02 quantify over *every* accepted event sequence: the random seed, the
engine (CDCL, lookahead, picky, ghost), restarts, clause minimisation, SatELite, proof / core / model tracking
are exactly the nondeterminism of that machine.  Two accepted runs on the same roots therefore cannot answer
`unsat` and exhibit a model.
-/
namespace Osmt.Properties
open Osmt

/-- an accepted unsat run and a validated well-formed model of the same formulas cannot coexist -/
theorem C05_unsat_vs_model (vm : VarMap) (fuel : Nat) (evs : List Smt.Event) (s s' : Smt.State)
    (hrun : Smt.run (Smt.init vm fuel) evs = some s) (hans : Smt.step? s (.answer (.unsat [])) = some s')
    (m : Model) (hm : m.satisfies s.roots = true) (hwf : m.interp.WF) : False :=
  C02_not_unsat m s.roots hm hwf (C01_unsat_roots vm fuel evs s s' hrun hans)

/-- configuration-free form: `Unsat` and satisfiability by a well-formed interpretation are contradictory -/
theorem C05_no_contradiction (ts : List Term) (h₁ : Unsat ts) (I : Interp) (hI : I.WF) (h₂ : Sat I ts) : False :=
  h₁ ⟨I, hI, h₂⟩

example : ¬ Unsat ([] : List Term) := by
  intro h
  exact h ⟨{ var := fun _ s => defaultVal s, uf := fun _ s _ => defaultVal s },
    ⟨fun _ s => by cases s <;> rfl, fun _ s _ => by cases s <;> rfl⟩, by intro t ht; simp at ht⟩

end Osmt.Properties
