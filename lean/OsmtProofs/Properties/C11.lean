import OsmtProofs.Smt
/-!
# C11 — every theory clause used in search is valid in the theory

A theory clause is accepted by the machine only with a certificate checked by a kernel.  Soundness of each
kernel, for all clauses and certificates: an accepted clause has a true literal in *every* well-formed
interpretation (integers for `Int` symbols; arbitrary functions for uninterpreted symbols; foreign subterms
as unknowns), independently of any asserted formula.
Kernels: linear arithmetic over ℚ and ℤ (Farkas combination, integer tightening, disequality splits — this
covers conflicts, propagation reasons, branch-and-bound / cut splits, interface trichotomy clauses and
difference-logic cycles) and EUF (explicit equational proofs with congruence).
Not covered by a kernel (named, not claimed): array lemmas.
-/
namespace Osmt.Properties
open Osmt

theorem C11_la_clause_valid (lits : List (Term × Bool)) (cert : LA.Cert)
    (h : LA.laClauseCheck lits cert = true) (I : Interp) (hI : I.WF) : ∃ l ∈ lits, evalB I l.1 = !l.2 :=
  LA.laClauseCheck_sound lits cert h I hI

theorem C11_euf_clause_valid (lits : List (Term × Bool)) (steps : List EUF.Step) (goal : Nat)
    (h : EUF.eufClauseCheck lits steps goal = true) (I : Interp) (hI : I.WF) : ∃ l ∈ lits, evalB I l.1 = !l.2 :=
  EUF.eufClauseCheck_sound lits steps goal h I hI

/-- accepted theory clause ⇒ true under the propositional assignment induced by any well-formed interpretation -/
theorem C11_theory_clause_valid (vm : VarMap) (c : Clause) (cert : Smt.ThCert) (h : Smt.theoryOk vm c cert = true)
    (I : Interp) (hI : I.WF) : Clause.eval (inducedAsg vm I) c = true :=
  Smt.theoryOk_sound vm c cert h I hI

/-- Farkas: a non-negative combination cancelling all unknowns with a contradictory constant refutes the
conjunction over ℚ (hence over ℤ). -/
theorem C11_farkas (cs : List (LA.Ineq × Rat)) (h : LA.farkasCheck cs = true) :
    ¬ ∃ x : Term → Rat, ∀ ik ∈ cs, ik.1.holds x := LA.farkas_sound cs h

/-- integer split clauses: `z ≤ ⌊r⌋ ∨ ⌈r⌉ ≤ z` for every integer `z` and rational `r` -/
theorem C11_split_valid (z : Int) (r : Rat) : z ≤ r.floor ∨ r.ceil ≤ z := by
  by_cases h : (z : Rat) ≤ r
  · left; exact Rat.le_floor_iff.mpr h
  · right
    rw [Rat.ceil_eq_neg_floor_neg]
    have h1 : r < z := lt_of_not_ge h
    have : (-r).floor ≥ -z := by
      rw [ge_iff_le, Rat.le_floor_iff]; push_cast; linarith
    omega

/-! Non-vacuity: `x ≤ 0 ∨ 1 ≤ x` over the integers is accepted with weights (1, 1); over the reals it is not. -/
def exX : Term := .app (.var 0 .int) []
def exXr : Term := .app (.var 0 .real) []
def n0 : Term := .app (.num 0) []
def n1 : Term := .app (.num 1) []
example : LA.laClauseCheck [(.app .leq [exX, n0], false), (.app .leq [n1, exX], false)] (.farkas [1, 1]) = true := by
  decide +kernel
example : LA.laClauseCheck [(.app .leq [exXr, n0], false), (.app .leq [n1, exXr], false)] (.farkas [1, 1]) = false := by
  decide +kernel

end Osmt.Properties
