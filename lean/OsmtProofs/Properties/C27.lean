import OsmtProofs.IntRound
import OsmtProofs.LA
/-!
# C27 — integer rounding is exact for every integer input

For all integers and rationals: constant folding of `div` / `mod` is the SMT-LIB Euclidean quotient and
remainder for either divisor sign; the axioms used to eliminate `div` / `mod` characterise exactly those;
strict and non-strict bounds on integer terms are tightened to exactly the same integer solutions; gcd
normalisation keeps the integer solutions; the negation of an integer difference constraint is exact.
The integer tightening used by the LA kernel (`tighten_sound`) is the same fact on linear polynomials.
Machine-word overflow of the difference-logic type is outside these statements (see C02's IDL fix).
-/
namespace Osmt.Properties
open Osmt.IntRound

theorem C27_fold_div (a d : Int) (hd : d ≠ 0) : foldDiv a d = a / d := foldDiv_eq a d hd
theorem C27_fold_mod (a d : Int) (hd : d ≠ 0) : foldMod a d = a % d := foldMod_eq a d hd
theorem C27_mod_range (a d : Int) (hd : d ≠ 0) : 0 ≤ foldMod a d ∧ foldMod a d < |d| := by
  rw [foldMod_eq a d hd]; exact ⟨Int.emod_nonneg a hd, Int.emod_lt_abs a hd⟩
theorem C27_divmod_axioms (a d q r : Int) (hd : d ≠ 0) :
    (a = d * q + r ∧ 0 ≤ r ∧ r ≤ |d| - 1) ↔ (q = a / d ∧ r = a % d) := divmod_def a d q r hd
theorem C27_int_bounds (z : Int) (c : Rat) :
    ((z : Rat) ≤ c ↔ z ≤ boundLeq c) ∧ ((z : Rat) < c ↔ z ≤ boundLt c) ∧
    (¬ (z : Rat) ≤ c ↔ boundNotLeq c ≤ z) ∧ (¬ (z : Rat) < c ↔ boundNotLt c ≤ z) := int_bounds z c
theorem C27_gcd_normalise (g : Int) (hg : 0 < g) (s c : Int) : g * s ≤ c ↔ s ≤ c / g := gcd_normalise g hg s c
theorem C27_negate_difference (x y c : Int) : ¬ (x - y ≤ c) ↔ y - x ≤ negateDL c := negateDL_exact x y c
theorem C27_tighten (I : Interp) (hI : I.WF) (i : LA.Ineq) (h : i.holds (LA.xI I)) : (i.tighten).holds (LA.xI I) :=
  LA.tighten_sound I hI i h

example : foldDiv 7 (-2) = -3 ∧ foldMod 7 (-2) = 1 ∧ foldDiv (-7) 2 = -4 ∧ foldMod (-7) 2 = 1 := by decide +kernel
example : boundLt (3 / 2) = 1 ∧ boundNotLeq (3 / 2) = 2 ∧ boundLt 2 = 1 := by decide +kernel

end Osmt.Properties
