import OsmtProofs.Rng
/-!
# C23 — runs are reproducible (partial)

The only source of randomness the solver owns is the generator of `common/Random.h`.  Its mirror is proved to be a pure
function of the seed whose state stays in [1, m-1] (never 0, where it would freeze; never out of the range in which the
double arithmetic is exact) and whose draws stay below the requested size.  That the executable as a whole is reproducible
(no dependence on addresses, hash-table iteration order over pointers, uninitialised memory) is not a theorem: it is
compared per run (same script, same options, address-space randomisation on and off).
-/
namespace Osmt.Properties
open Osmt.Rng

theorem C23_state_in_range (s : Nat) (h0 : 0 < s) (hm : s < m) : 0 < next s ∧ next s < m := next_range s h0 hm
theorem C23_draw_below_size (s size : Nat) (hs : 0 < size) : irand s size < size := irand_lt s size hs
theorem C23_stream_in_range (n s : Nat) (h0 : 0 < s) (hm : s < m) : ∀ x ∈ states s n, 0 < x ∧ x < m := states_range n s h0 hm

example : next 91648253 = (91648253 * 1389796) % 2147483647 ∧ 0 < next 91648253 := by decide

end Osmt.Properties
