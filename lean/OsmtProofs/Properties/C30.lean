import OsmtProofs.Search
/-!
# C30 — the search loop of the default engine cannot run forever inside one restart period (PARTIAL)

`Search.step?` is what `CoreSMTSolver::search` does to its trail (decide, propagate, backjump after a conflict, the same jump caused by
a new theory lemma, restart).  The check replays the
trail events of every run on this machine (every step must be legal), so the theorems speak about the real runs:

* `C30_period_finite`: between two restarts there are fewer than `3^n` trail steps (n = number of SAT variables), whatever
  the clauses, the theories and the heuristics do;
* `C30_run_finite`: with conflict limits that reach `3^n`, a whole run has fewer than `(i0 + 1) * 3^n` steps;
* `C30_restart_needs_limit`: a restart happens only after the conflict limit of its period.

Not proved (named in DESIGN.md): that each single step returns (propagation, conflict analysis, Simplex with its pivoting rule,
congruence closure, array lemma generation, theory combination), that the number of variables stops growing when theories add
atoms during search, the lookahead engines, and that the solver's restart policy reaches `3^n` (it is geometric or Luby: a fact
about floating-point code).  Those are searched for with time limits, which is a test.
-/
namespace Osmt.Properties
open Osmt.Search

theorem C30_period_finite (n : Nat) (lim : Nat → Nat) (xs : List Step) (s s' : St) (hi : Inv n s)
    (hnr : ∀ x ∈ xs, isRestart x = false) (h : run? n lim s xs = some s') : xs.length < 3 ^ n :=
  period_length_bounded n lim xs s s' hi hnr h

theorem C30_run_finite (n : Nat) (lim : Nat → Nat) (i0 : Nat) (hlim : ∀ i, i0 ≤ i → 3 ^ n ≤ lim i)
    (xs : List Step) (s' : St) (h : run? n lim init xs = some s') : xs.length < (i0 + 1) * 3 ^ n :=
  run_length_bounded n lim i0 hlim xs s' h

theorem C30_restart_needs_limit (n : Nat) (lim : Nat → Nat) (s s' : St) (k : Nat)
    (h : step? n lim s (.restart k) = some s') : lim s.i ≤ s.c := by
  simp only [step?] at h
  split at h
  · rename_i hr; exact hr.1
  · cases h

/-- non-vacuity: a legal run over 3 variables with a backjump and a restart (limit 1) -/
example : (run? 3 (fun _ => 1) init [.decide 0, .propagate 1, .decide 2, .backjump 2 2, .restart 0, .propagate 1]).isSome = true := by
  decide

end Osmt.Properties
