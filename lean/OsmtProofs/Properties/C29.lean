import OsmtProofs.Smt
import Osmt.Model
/-!
# C29 — input outside the declared logic is rejected or answered correctly

The statements are those of C01 and C03, deliberately *independent of the declared logic*: the checker's semantics
(`eval`) is that of SMT-LIB for every term it can read — sums of three variables or scaled variables under a
difference logic, Int-sorted symbols under a real-arithmetic logic (integrality is part of `Interp.WF` and of
`constsWellSorted`), and so on.  An answer that these checkers accept is therefore correct whatever the solver assumed
about the shape of its input; an answer they cannot accept on out-of-logic input is reported.
-/
namespace Osmt.Properties
open Osmt

/-- an accepted `unsat` trace refutes the roots in every well-formed interpretation (Int symbols integral) -/
theorem C29_unsat_certified (vm : VarMap) (fuel : Nat) (evs : List Smt.Event) (A : List Lit) (s s' : Smt.State)
    (hrun : Smt.run (Smt.init vm fuel) evs = some s) (hans : Smt.step? s (.answer (.unsat A)) = some s') :
    ¬ ∃ I : Interp, I.WF ∧ (∀ r ∈ s.roots, evalB I r = true) ∧ (∀ l ∈ A, l.eval (inducedAsg vm I) = true) :=
  Smt.unsat_sound vm fuel evs A s s' hrun hans

/-- a validated printed model is a model: the assertions are satisfiable -/
theorem C29_sat_certified (m : Model) (ts : List Term) (h : m.satisfies ts = true) : Sat m.interp ts := by
  simpa [Model.satisfies, Sat, List.all_eq_true] using h

/-- non-vacuity: `x + y + z ≤ 1` (three variables, not a difference constraint) is evaluated as written -/
example :
    let x := Term.app (.var 0 .int) []; let y := Term.app (.var 1 .int) []; let z := Term.app (.var 2 .int) []
    let m : Model := { abs := [], defs := [{ id := 0, srt := .int, params := [], body := .app (.num 1) [] },
                                           { id := 1, srt := .int, params := [], body := .app (.num 1) [] },
                                           { id := 2, srt := .int, params := [], body := .app (.num 0) [] }] }
    m.satisfies [.app .leq [.app .plus [x, y, z], .app (.num 1) []]] = false := by decide +kernel

end Osmt.Properties
