import OsmtProofs.Pipe
/-!
# C20 — pipe mode and file mode produce identical results

The pipe-mode scanner is mirrored byte-wise (`Osmt/Pipe.lean`).  For every byte string and every way of
splitting it across reads the scanner emits the same commands and the same error (`C20_chunk_independent`,
`C20_two_chunkings_agree`); emitted commands are never altered by later input (`C20_frames_prefix`); the depth
counter cannot go negative without the "unbalanced parentheses" error (`C20_depth`).
Equality of output with file mode is tied per run (same script through a file and through the pipe under several chunk schedules).
-/
namespace Osmt.Properties
open Osmt.Pipe

theorem C20_chunk_independent (s : St) (chunks : List (List Char)) : runChunks s chunks = run s chunks.flatten :=
  chunk_independent s chunks
theorem C20_two_chunkings_agree (s : St) (c1 c2 : List (List Char)) (h : c1.flatten = c2.flatten) :
    runChunks s c1 = runChunks s c2 := two_chunkings_agree s c1 c2 h
theorem C20_frames_prefix (bytes : List Char) (s : St) : ∃ more, (run s bytes).frames = s.frames ++ more :=
  run_frames_prefix bytes s
theorem C20_depth (bytes : List Char) (s : St) (h : 0 ≤ s.par) :
    (run s bytes).unbalanced = true ∨ 0 ≤ (run s bytes).par := run_par_nonneg bytes s h

/-- a quoted symbol or string containing parentheses or a semicolon does not disturb the framing -/
example : (run {} "(a |x(y;| \"p)q\")(b)".toList).frames = ["(a |x(y;| \"p)q\")".toList, "(b)".toList] := by decide
/-- backslash escapes inside string literals are honoured as in the lexer (after the fix recorded in
known_findings.json): `(echo "a\"b")(c)` is two commands -/
example : (run {} "(echo \"a\\\"b\")(c)".toList).frames = ["(echo \"a\\\"b\")".toList, "(c)".toList] := by decide

end Osmt.Properties
