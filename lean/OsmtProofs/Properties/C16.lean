import OsmtProofs.Num
/-!
# C16 — numeric literals are read and printed exactly

`s2rDec` restates `stringToRational` on digit lists (see `Osmt/Num.lean`).  For every sign, integer part and
fraction part — any length, any number of leading or trailing zeros — the result is the exact decimal value
(`C16_decimal_exact`); every string of the lexer's decimal language is accepted (`C16_lexdec_accepted`).
Rejection of malformed strings and the `isIntString` / `isRealString` automata are tied exhaustively (all strings
up to length 6 or 8 over the digits 0 1 5 9, dot, slash and minus) rather than proved.  Printing is checked by re-reading (`get-value`).
-/
namespace Osmt.Properties
open Osmt.Num

theorem C16_decimal_exact (s ip fp : List Char) (h : decShape (dropSign s) = some (ip, fp)) :
    s2rDec s = some (decimalValue (isNeg s) ip fp) := s2rDec_exact s ip fp h
theorem C16_lexdec_accepted (s : List Char) (h : lexDec s = true) : (s2rDec s).isSome = true := lexDec_accepted s h
/-- trailing zeros of the fraction part do not change the value -/
theorem C16_trailing_zeros (ds : List Char) (k : Nat) :
    natOfDigits (ds ++ List.replicate k '0') = natOfDigits ds * 10 ^ k := natOfDigits_append_zeros ds k

example : s2rDec "007.50".toList = some (mkRat 15 2) := by decide +kernel
example : s2rDec "-0.125".toList = some (mkRat (-1) 8) := by decide +kernel
example : s2rDec "1..2".toList = none := by decide +kernel

end Osmt.Properties
