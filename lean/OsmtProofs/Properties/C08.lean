import OsmtProofs.Itp
import OsmtProofs.ItpPath
import OsmtProofs.LA
import OsmtProofs.Smt
/-!
# C08 / C09 — interpolants

Three layers.
1. `C08_certified_split` / `C09_path_from_splits`: what the per-run certification establishes.  The check re-decides, for every
   printed interpolant `I` of a split (A, B), the sets `A ∪ {¬I}` and `{I} ∪ B` (and for sequences `{I_j} ∪ G ∪ {¬I_{j+1}}`);
   an `unsat` verdict is accepted only when the Lean machine accepts the trace of that run, which by `Smt.unsat_sound`
   makes the set unsatisfiable.  These theorems unfold two such facts into Craig's conditions.
2. `C08_labelled_interpolation_sound` (+ `_symbols`): for every resolution refutation over A ∪ B (leaves from A, from B, and
   theory lemmas that come with a partial interpolant satisfying the two leaf conditions, `Node.leafT`) and every labelling
   (McMillan, Pudlák, McMillan', proof-sensitive variants are instances), the root partial interpolant is implied by A,
   inconsistent with B, and over shared variables.  All proofs, all labellings.
3. `C08_farkas_interpolant` / `C08_farkas_dual_interpolant`: for LRA conflicts, the weighted sum of the A-part of a Farkas
   refutation (resp. the negated sum of the B-part) is an interpolant, for all weights.
4. `C09_labelled_path_step`: for one refutation labelled for two consecutive cuts (A₁ | G ∪ B₂) and (A₁ ∪ G | B₂) whose occurrence
   labels fit together (`Itp.pairOK`: McMillan, Pudlák, McMillan' applied to both cuts do), I₁ ∧ G ⊨ I₂ — the path property, for
   every refutation and every such labelling.
Layers 2, 3 and 4 are theorems about the model of the algorithms; layer 1 is what ties each run to the semantics.
-/
namespace Osmt.Properties
open Osmt

/-- two certified refutations are exactly Craig's two semantic conditions -/
theorem C08_certified_split (A B : List Term) (I : Term)
    (h1 : Unsat (A ++ [.app .not [I]])) (h2 : Unsat (I :: B)) :
    (∀ M : Interp, M.WF → Sat M A → evalB M I = true) ∧ (¬ ∃ M : Interp, M.WF ∧ evalB M I = true ∧ Sat M B) := by
  constructor
  · intro M hM hA
    cases hI : evalB M I with
    | true => rfl
    | false =>
      exfalso; apply h1
      refine ⟨M, hM, fun t ht => ?_⟩
      rcases List.mem_append.mp ht with h | h
      · exact hA t h
      · simp only [List.mem_singleton] at h; subst h
        simp only [evalB] at hI
        simp only [evalB, eval, evalList, applyOp, hI]; rfl
  · rintro ⟨M, hM, hI, hB⟩
    apply h2
    exact ⟨M, hM, fun t ht => by rcases List.mem_cons.mp ht with rfl | h; exact hI; exact hB t h⟩

/-- a certified refutation of `I_j ∧ G ∧ ¬I_{j+1}` is the step condition of a sequence interpolant -/
theorem C09_path_from_splits (G : List Term) (I J : Term) (h : Unsat (I :: G ++ [.app .not [J]])) :
    ∀ M : Interp, M.WF → evalB M I = true → Sat M G → evalB M J = true := by
  intro M hM hI hG
  cases hJ : evalB M J with
  | true => rfl
  | false =>
    exfalso; apply h
    refine ⟨M, hM, fun t ht => ?_⟩
    rcases List.mem_cons.mp ht with rfl | ht
    · exact hI
    · rcases List.mem_append.mp ht with h | h
      · exact hG t h
      · simp only [List.mem_singleton] at h; subst h
        simp only [evalB] at hJ
        simp only [evalB, eval, evalList, applyOp, hJ]; rfl

theorem C08_labelled_interpolation_sound (A B : Itp.Asg → Prop) (n : Itp.Node) (h : n.WF A B) (hempty : n.clause = []) :
    (∀ σ, A σ → n.itp.eval σ = true) ∧ (∀ σ, B σ → n.itp.eval σ = false) := Itp.root_interpolant A B n h hempty

/-- the form the mirror uses: the executable structural check plus the leaves following from their sides -/
theorem C08_checked_refutation_interpolant (A B : Itp.Asg → Prop) (n : Itp.Node) (hs : n.structOk = true) (hl : n.leavesOk A B)
    (hempty : n.clause = []) :
    (∀ σ, A σ → n.itp.eval σ = true) ∧ (∀ σ, B σ → n.itp.eval σ = false) := Itp.checked_refutation_interpolant A B n hs hl hempty

theorem C08_labelled_interpolation_symbols (A B : Itp.Asg → Prop) (inA inB : Itp.Var → Bool) (n : Itp.Node)
    (h : n.WF A B) (hf : n.Faithful inA inB) : ∀ v ∈ n.itp.vars, inA v = true ∧ inB v = true :=
  Itp.itp_vars_shared A B inA inB n h hf

/-- the weighted sum of the A-part: implied by A -/
theorem C08_farkas_interpolant (x : Term → Rat) (csA : List (LA.Ineq × Rat))
    (hpos : ∀ ik ∈ csA, 0 ≤ ik.2) (hA : ∀ ik ∈ csA, ik.1.holds x) :
    let r := LA.combine csA
    LA.Ineq.holds x ⟨⟨r.1, r.2.1⟩, r.2.2⟩ := by
  have := LA.combine_eval x csA hpos hA
  simp only [LA.Ineq.holds, LA.Lin.eval] at this ⊢
  split
  · rename_i hs; exact this.2 hs
  · exact this.1

/-- ... and inconsistent with B whenever the sum together with the B-part is a Farkas refutation -/
theorem C08_farkas_interpolant_B (csA csB : List (LA.Ineq × Rat))
    (h : LA.farkasCheck ((⟨⟨(LA.combine csA).1, (LA.combine csA).2.1⟩, (LA.combine csA).2.2⟩, 1) :: csB) = true) :
    ¬ ∃ x : Term → Rat, LA.Ineq.holds x ⟨⟨(LA.combine csA).1, (LA.combine csA).2.1⟩, (LA.combine csA).2.2⟩ ∧
      ∀ ik ∈ csB, ik.1.holds x := by
  rintro ⟨x, hI, hB⟩
  exact LA.farkas_sound _ h ⟨x, fun ik hik => by rcases List.mem_cons.mp hik with rfl | h'; exact hI; exact hB ik h'⟩

/-- dual (weak) interpolant: a Farkas refutation of A ∪ B shows that A excludes every point where all of B holds -/
theorem C08_farkas_dual_interpolant (csA csB : List (LA.Ineq × Rat)) (h : LA.farkasCheck (csA ++ csB) = true)
    (x : Term → Rat) (hA : ∀ ik ∈ csA, ik.1.holds x) : ¬ ∀ ik ∈ csB, ik.1.holds x := by
  intro hB
  exact LA.farkas_sound _ h ⟨x, fun ik hik => (List.mem_append.mp hik).elim (hA ik) (hB ik)⟩

/-- non-vacuity: the refutation of A = {p}, B = {¬p}, labelled in McMillan's style (shared variable labelled b) -/
example :
    let lab : Itp.Var → Itp.Lbl := fun _ => ⟨false, true⟩
    let n := Itp.Node.res (.leafA [⟨0, false⟩] lab) (.leafB [⟨0, true⟩] lab) 0
    n.clause = [] ∧ n.itp.eval (fun _ => true) = true ∧ n.itp.eval (fun _ => false) = false := by decide

/-- non-vacuity with a theory lemma: atom 0 stands for x ≤ 0, atom 1 for x ≥ 1, the assignments of interest satisfy the lemma
¬0 ∨ ¬1; A = {0}, B = {1}; the lemma's partial interpolant is the A-literal 0, and so is the root interpolant -/
example :
    let T : Itp.Asg → Prop := fun σ => ¬ (σ 0 = true ∧ σ 1 = true)
    let lab : Itp.Var → Itp.Lbl := fun v => if v = 0 then ⟨true, false⟩ else ⟨false, true⟩
    let n := Itp.Node.res (.leafB [⟨1, false⟩] lab)
      (.res (.leafA [⟨0, false⟩] lab) (.leafT [⟨0, true⟩, ⟨1, true⟩] lab (.lit ⟨0, false⟩)) 0) 1
    n.structOk = true ∧ n.clause = [] ∧ n.leavesOk (fun σ => T σ ∧ σ 0 = true) (fun σ => T σ ∧ σ 1 = true) := by
  refine ⟨by decide, by decide, ?_⟩
  simp only [Itp.Node.leavesOk]
  refine ⟨?_, ?_, ?_, ?_⟩
  · intro σ h; simp [Itp.cEval, Itp.Lit.eval, h.2]
  · intro σ h; simp [Itp.cEval, Itp.Lit.eval, h.2]
  · intro σ h _; simp [Itp.F.eval, Itp.Lit.eval, h.2]
  · intro σ h _
    have := h.1
    simp [h.2] at this
    simp [Itp.F.eval, Itp.Lit.eval, this]

/-- **C09, algorithm level.**  Sequence interpolants computed from one refutation by a labelled interpolation system with fitting
labels satisfy the path condition between consecutive cuts: I_j together with the middle group implies I_{j+1}. -/
theorem C09_labelled_path_step (G : Itp.Asg → Prop) (n : Itp.Node2) (hl : n.labelsOK = true) (hs : n.proj1.structOk = true)
    (hm : n.middleOk G) (hempty : n.proj1.clause = []) :
    ∀ σ, G σ → n.proj1.itp.eval σ = true → n.proj2.itp.eval σ = true :=
  Itp.path_step G n hl hs hm hempty

/-- **C09, Farkas leaves.**  For an arithmetic conflict whose constraints are split A₁ | G | B₂, the interpolant of the second cut
(the weighted sum over A₁ ∪ G) follows from the interpolant of the first cut (the weighted sum over A₁) and the constraints of G. -/
theorem C09_farkas_path_leaf (x : Term → Rat) (csA1 csG : List (LA.Ineq × Rat))
    (hpos : ∀ ik ∈ csG, 0 ≤ ik.2) (hG : ∀ ik ∈ csG, ik.1.holds x) (hI1 : LA.combHolds x (LA.combine csA1)) :
    LA.combHolds x (LA.combine (csG ++ csA1)) :=
  LA.combine_extend x csG csA1 hpos hG hI1

/-- non-vacuity: A₁ = {0 ≤ x}, G = {0 ≤ y - x} at the point x = y = 0: the hypotheses hold -/
example :
    let X : Term := .app (.var 0 .real) []
    let Y : Term := .app (.var 1 .real) []
    let pt : Term → Rat := fun _ => 0
    let csA1 : List (LA.Ineq × Rat) := [(⟨⟨[(X, 1)], 0⟩, false⟩, 1)]
    let csG : List (LA.Ineq × Rat) := [(⟨⟨[(Y, 1), (X, -1)], 0⟩, false⟩, 1)]
    (∀ ik ∈ csG, 0 ≤ ik.2) ∧ (∀ ik ∈ csG, ik.1.holds pt) ∧ LA.combHolds pt (LA.combine csA1) := by
  simp [LA.Ineq.holds, LA.Lin.eval, LA.Poly.eval, LA.combHolds, LA.combine, LA.Poly.addScaled, LA.Poly.add1]

/-- non-vacuity: groups {p}, {¬p ∨ q}, {¬q}; McMillan's labels for both cuts; I₁ = p, I₂ = q -/
example :
    let l1 : Itp.Labs := [(0, ⟨false, true⟩, ⟨true, false⟩)]
    let l2 : Itp.Labs := [(0, ⟨false, true⟩, ⟨true, false⟩), (1, ⟨false, true⟩, ⟨false, true⟩)]
    let l3 : Itp.Labs := [(1, ⟨false, true⟩, ⟨false, true⟩)]
    let n := Itp.Node2.res (.res (.leaf [⟨0, false⟩] .first l1) (.leaf [⟨0, true⟩, ⟨1, false⟩] .middle l2) 0)
      (.leaf [⟨1, true⟩] .last l3) 1
    n.labelsOK = true ∧ n.proj1.structOk = true ∧ n.proj1.clause = [] ∧
      (∀ a b : Bool, n.proj1.itp.eval (fun v => if v = 0 then a else b) = a ∧
        n.proj2.itp.eval (fun v => if v = 0 then a else b) = b) := by decide

end Osmt.Properties
