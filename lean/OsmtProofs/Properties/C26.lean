import OsmtProofs.LA
/-!
# C26 — arithmetic conflicts carry valid Farkas certificates

`conflictCheck lits ws` is the executable statement of the property for one conflict: one strictly positive
coefficient per conflicting bound, the weighted sum cancels every unknown and leaves a false constant
inequality (integer bounds being read with integer tightening, as the solver does).  The theorem says that
such a certificate really refutes the bounds.  The tie runs `conflictCheck` on the bounds and coefficients
that `LASolver::storeExplanation` stores for *every* conflict of every traced run.
-/
namespace Osmt.Properties
open Osmt

theorem C26_conflict_certificate_sound (lits : List (Term × Bool)) (ws : List Rat)
    (h : LA.conflictCheck lits ws = true) : ¬ ∃ I : Interp, I.WF ∧ ∀ l ∈ lits, evalB I l.1 = !l.2 :=
  LA.conflictCheck_sound lits ws h

/-- the check demands strictly positive coefficients, one per bound -/
theorem C26_coefficients_positive (lits : List (Term × Bool)) (ws : List Rat)
    (h : LA.conflictCheck lits ws = true) : (∀ w ∈ ws, 0 < w) ∧ lits.length = ws.length := by
  unfold LA.conflictCheck at h
  generalize LA.collect (lits.map (fun l => LA.itemOf l.1 l.2)) = cd at h
  obtain ⟨c, d⟩ := cd
  simp only [Bool.and_eq_true, List.all_eq_true, decide_eq_true_eq] at h
  exact ⟨h.1.2, h.1.1.2⟩

/-! Non-vacuity: `x ≤ 0` and `1 ≤ x` with coefficients (1,1) is accepted; with (1,0) it is not. -/
def cX : Term := .app (.var 0 .real) []
def c0 : Term := .app (.num 0) []
def c1 : Term := .app (.num 1) []
example : LA.conflictCheck [(.app .leq [cX, c0], false), (.app .leq [c1, cX], false)] [1, 1] = true := by decide +kernel
example : LA.conflictCheck [(.app .leq [cX, c0], false), (.app .leq [c1, cX], false)] [1, 0] = false := by decide +kernel

end Osmt.Properties
