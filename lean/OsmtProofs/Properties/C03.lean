import Osmt.Model
/-!
# C03 — models produced after sat satisfy every current assertion

The printed model is read as a `Model` (definitions with bodies) and *denotes* the interpretation
`Model.interp`; `Model.satisfies` evaluates assertions with `eval`, which is the SMT-LIB semantics used by all
other theorems.  `C03_model_satisfies` says that the executable check is exactly `Sat`.  The value of this file
is that the evaluator is the specification; the tie evaluates every assertion of every sat answer.
Abstracted (validated per run, not proved): how Egraph / Simplex / STP values are extracted.
-/
namespace Osmt.Properties
open Osmt

theorem C03_model_satisfies (m : Model) (ts : List Term) :
    m.satisfies ts = true ↔ Sat m.interp ts := by
  simp [Model.satisfies, Sat, List.all_eq_true]

/-- the evaluator is compositional: conjunction -/
theorem C03_eval_and (I : Interp) (ts : List Term) :
    evalB I (.app .and ts) = ts.all (evalB I) := by
  simp only [evalB, eval, applyOp, Val.toBool, evalList_eq_map, List.all_map]
  rfl

/-- the evaluator is compositional: if-then-else -/
theorem C03_eval_ite (I : Interp) (c a b : Term) :
    eval I (.app .ite [c, a, b]) = if evalB I c then eval I a else eval I b := by
  simp only [eval, evalList, applyOp, evalB]
  split <;> simp_all

/-! Non-vacuity: the model `x ↦ 3` satisfies `x ≤ 4` and falsifies `x ≤ 2`. -/
def mX : Term := .app (.var 0 .int) []
def mModel : Model := { abs := [], defs := [{ id := 0, srt := .int, params := [], body := .app (.num 3) [] }] }
example : mModel.satisfies [.app .leq [mX, .app (.num 4) []]] = true := by decide +kernel
example : mModel.satisfies [.app .leq [mX, .app (.num 2) []]] = false := by decide +kernel
example : mModel.constsWellSorted = true := by decide +kernel

end Osmt.Properties
