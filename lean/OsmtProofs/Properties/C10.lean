import OsmtProofs.ProofCheck
/-!
# C10 — printed resolution proofs are closed, valid refutations

`Proof.checkRefutation` is the executable statement "every referenced clause name is bound, every resolution
step has a pivot occurring with opposite signs, the final clause is empty"; `C10_checked_proof_refutes_leaves`:
such a proof shows that its leaves are jointly unsatisfiable.  That each leaf is an input clause of a currently
active level (with its guard), the activation of an active level, or a theory clause of the run is matched per
run against the hook trace, whose theory clauses the LA / EUF kernels certify and whose input clauses `inputOk`
relates to their root formulas.
-/
namespace Osmt.Properties
open Osmt

theorem C10_checked_proof_refutes_leaves (steps : List Proof.Step) (root : Nat)
    (h : Proof.checkRefutation steps root = true) :
    ¬ ∃ I : Interp, ∀ l ∈ Proof.leaves steps, Proof.clauseTrue I l = true := Proof.checkRefutation_sound steps root h

/-- a step whose pivot does not occur with opposite signs is rejected -/
example : Proof.resolve [(.app (.var 0 .bool) [], false)] [(.app (.var 0 .bool) [], false)] (.app (.var 0 .bool) []) = none := by decide

end Osmt.Properties
