import OsmtProofs.Mk
/-!
# C14 — term constructors return equivalent terms

Boolean constructors of `Logic` are mirrored in `Osmt/Mk.lean`; for every interpretation and all arguments:
`mkNot`, `mkAnd`, `mkOr` (duplicate / complementary / constant arguments), `mkXor`, `mkImpl`, `mkIte` (any sort),
`mkBinaryEq` (Boolean simplifications, constant equalities), `mkEq` (chains), `mkDistinct` on Booleans.
The mirror is tied structurally on propositional scripts (same constructed term up to the order of commutative
arguments); *all* constructors, including the arithmetic ones (sum, product, difference, negation, division,
div, mod, the four comparisons with their normal forms) are tied semantically: the term opensmt constructs for
each asserted input term is evaluated by the Lean evaluator under many interpretations and must agree with the
input term.  `_partial`: the arithmetic normal forms have no mirror-level theorem; select/store are not covered.
-/
namespace Osmt.Properties
open Osmt Osmt.Mk

theorem C14_mkNot_eval (I : Interp) (t : Term) : evalB I (mkNot t) = !evalB I t := mkNot_eval I t
theorem C14_mkAnd_eval (I : Interp) (args : List Term) : evalB I (mkAnd args) = args.all (evalB I) := mkAnd_eval I args
theorem C14_mkOr_eval (I : Interp) (args : List Term) : evalB I (mkOr args) = args.any (evalB I) := mkOr_eval I args
theorem C14_mkXor_eval (I : Interp) (a b : Term) : evalB I (mkXor a b) = (evalB I a != evalB I b) := mkXor_eval I a b
theorem C14_mkImpl_eval (I : Interp) (a b : Term) : evalB I (mkImpl a b) = (!evalB I a || evalB I b) := mkImpl_eval I a b
theorem C14_mkIte_eval (I : Interp) (c a b : Term) :
    eval I (mkIte c a b) = if evalB I c then eval I a else eval I b := mkIte_eval I c a b
theorem C14_mkEq_eval (I : Interp) (hI : I.WF) (args : List Term) :
    evalB I (mkEq args) = allEqAdj (evalList I args) := mkEq_eval I hI args
theorem C14_mkBinaryEq_eval (I : Interp) (hI : I.WF) (l r : Term) :
    evalB I (mkBinaryEq l r) = decide (eval I l = eval I r) := mkBinaryEq_eval I hI l r
theorem C14_mkDistinctB_eval (I : Interp) (hI : I.WF) (args : List Term) (hb : ∀ a ∈ args, a.isBool = true) :
    evalB I (mkDistinctB args) = pairwiseDistinct (evalList I args) := mkDistinctB_eval I hI args hb

def va : Term := .app (.var 0 .bool) []
def vb : Term := .app (.var 1 .bool) []
example : mkAnd [va, .app .not [va], vb] = fls := by decide
example : mkAnd [va, tru, va, vb] = .app .and [va, vb] := by decide
example : mkOr [vb, .app .not [vb]] = tru := by decide

end Osmt.Properties
