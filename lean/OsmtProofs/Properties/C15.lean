import OsmtProofs.Rat
/-!
# C15 — rational arithmetic is exact in both representations

`Osmt/Rat.lean` mirrors `FastRational` branch by branch.  Proved for *all* well-formed operands (both
representations, every word-path branch and every fall-back to GMP):

* addition: exact sum and well-formed result (`C15_add_exact`, `C15_add_wf`) — including the fact that storing
  `gcd(|n|, d)` in a 32-bit word loses nothing (Knuth 4.5.1, `knuth_gcd_dvd`);
* multiplication: exact product and well-formed result (`C15_mul_exact`);
* negation, comparison (`C15_neg_exact`, `C15_compare_exact`);
* the GMP path (`C15_ofRat_exact`), the `gcd` template (`C15_gcdU_eq`);
* canonical representation: equal values ⇒ identical data ⇒ same representation and hash (`C15_canonical`).

`_partial`: subtraction, division, inverse, floor, ceil, floor-division and the in-place variants are mirrored
and tied differentially (≈170 000 boundary cases per run, plus GMP as an independent oracle), but their
exactness theorems are not proved here.

False as stated for the unchanged code (witnesses below): `operator%` on negative word operands.
-/
namespace Osmt.Properties
open Osmt.FR

theorem C15_add_exact (a b : FR) (ha : a.WF) (hb : b.WF) : (add a b).toRat = a.toRat + b.toRat :=
  (add_sound a b ha hb).1
theorem C15_add_wf (a b : FR) (ha : a.WF) (hb : b.WF) : (add a b).WF := (add_sound a b ha hb).2
theorem C15_mul_exact (a b : FR) (ha : a.WF) (hb : b.WF) : (mul a b).toRat = a.toRat * b.toRat ∧ (mul a b).WF :=
  mul_sound a b ha hb
theorem C15_neg_exact (a : FR) (ha : a.WF) : (neg a).toRat = -a.toRat ∧ (neg a).WF := neg_sound a ha
theorem C15_compare_exact (a b : FR) (ha : a.WF) (hb : b.WF) :
    (compare a b = -1 ↔ a.toRat < b.toRat) ∧ (compare a b = 1 ↔ a.toRat > b.toRat) ∧
    (compare a b = 0 ↔ a.toRat = b.toRat) := compare_exact a b ha hb
theorem C15_ofRat_exact (q : Rat) : (ofRat q).toRat = q ∧ (ofRat q).WF := slow_ok q
theorem C15_gcdU_eq (a b : Nat) : gcdU a b = Nat.gcd a b := gcdU_eq a b
theorem C15_canonical (a b : FR) (ha : a.WF) (hb : b.WF) (h : a.toRat = b.toRat) : a = b := canonical a b ha hb h

/-- results do not depend on the representation of the operands: any two well-formed operands with the same
values give identical results -/
theorem C15_add_representation_independent (a a' b b' : FR) (ha : a.WF) (ha' : a'.WF) (hb : b.WF) (hb' : b'.WF)
    (h1 : a.toRat = a'.toRat) (h2 : b.toRat = b'.toRat) : add a b = add a' b' := by
  rw [canonical a a' ha ha' h1, canonical b b' hb hb' h2]

/-- `operator%` word path is not the floor remainder: `-7 % 4` gives 3 (GMP path: 1) -/
theorem C15_mod_word_path_wrong : modWord (-7) 4 = 3 ∧ Int.fmod (-7) 4 = 1 := by decide
/-- the signed `gcd` template returns a negative "gcd" (word path before the fix) -/
theorem C15_gcd_signed_wrong : gcdSigned 4 (-6) = -2 := by decide

/-! Non-vacuity: the general branch (both gcd reductions) and an overflow to GMP. -/
example : add (.word 1 6) (.word 1 10) = .word 4 15 := by decide +kernel
example : add (.word 2147483647 1) (.word 1 1) = .big 2147483648 1 := by decide +kernel
example : (FR.word 1 6).WF := ⟨by decide, by decide, by decide, by decide, by decide⟩

end Osmt.Properties
