import OsmtProofs.Conc
/-!
# C24 — solver instances in different threads do not interfere (partial)

The one piece of state that instances share by design is the pool of big rationals.  With its mutex every concurrent
execution is a sequence of `alloc` / `release` steps of the pool machine, for which: a cell handed out is never one that is
still in use (`C24_alloc_fresh`), and the invariant "every cell is free or in use, never both, never twice" is kept by both
operations (`C24_alloc_inv`, `C24_release_inv`).  That there is no *other* shared mutable state, no data race and no memory
error is not a theorem: it is searched for with ThreadSanitizer on concurrently solving instances whose coefficients force
the arbitrary-precision path, and every concurrent answer is compared with the answer of the same instance alone.
-/
namespace Osmt.Properties
open Osmt.Conc

theorem C24_alloc_fresh (p : Pool) (h : p.Inv) : (p.alloc).2 ∉ p.inUse := alloc_fresh p h
theorem C24_alloc_inv (p : Pool) (h : p.Inv) : (p.alloc).1.Inv := alloc_inv p h
theorem C24_release_inv (p : Pool) (c : Nat) (h : p.Inv) (hc : c ∈ p.inUse) : (p.release c).Inv := release_inv p c h hc
theorem C24_empty_inv : ({} : Pool).Inv := inv_empty

example : (({} : Pool).alloc.1.alloc.1.release 0).alloc.2 = 0 := by decide

end Osmt.Properties
