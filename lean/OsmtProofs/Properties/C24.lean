import OsmtProofs.Conc
/-!
# C24 — solver instances in different threads do not interfere (partial)

The one piece of state that instances share by design is the pool of big rationals.  With its mutex every concurrent
execution is a sequence of `alloc` / `release` steps of the pool machine, for which: a cell handed out is never one that is
still in use (`C24_alloc_fresh`), and the invariant "every cell is free or in use, never both, never twice" is kept by both
operations (`C24_alloc_inv`, `C24_release_inv`); lifted to every interleaving of any number of threads
(`C24_every_schedule_inv`), no cell is ever held by two threads at once (`C24_every_schedule_exclusive`).  That there is no *other* shared mutable state, no data race and no memory
error is not a theorem: it is searched for with ThreadSanitizer on concurrently solving instances whose coefficients force
the arbitrary-precision path, and every concurrent answer is compared with the answer of the same instance alone.
-/
namespace Osmt.Properties
open Osmt.Conc

theorem C24_alloc_fresh (p : Pool) (h : p.Inv) : (p.alloc).2 ∉ p.inUse := alloc_fresh p h
theorem C24_alloc_inv (p : Pool) (h : p.Inv) : (p.alloc).1.Inv := alloc_inv p h
theorem C24_release_inv (p : Pool) (c : Nat) (h : p.Inv) (hc : c ∈ p.inUse) : (p.release c).Inv := release_inv p c h hc
theorem C24_empty_inv : ({} : Pool).Inv := inv_empty

/-- every schedule: whatever the order in which any number of threads allocate and release (a thread releases only a cell it
    holds), the state reached from the empty pool keeps the invariant … -/
theorem C24_every_schedule_inv (ops : List POp) : (({} : Sys).run ops).Inv := sys_run_inv _ ops sys_inv_init
/-- … in it no cell is held by two threads at once … -/
theorem C24_every_schedule_exclusive (ops : List POp) (c t1 t2 : Nat)
    (h1 : (c, t1) ∈ (({} : Sys).run ops).owner) (h2 : (c, t2) ∈ (({} : Sys).run ops).owner) : t1 = t2 :=
  sys_exclusive _ (sys_run_inv _ ops sys_inv_init) c t1 t2 h1 h2
/-- … and the cell the next `alloc` hands out is held by no thread -/
theorem C24_every_schedule_alloc_unowned (ops : List POp) (t t' : Nat) :
    ((({} : Sys).run ops).pool.alloc.2, t') ∉ (({} : Sys).run ops).owner :=
  sys_alloc_unowned _ (sys_run_inv _ ops sys_inv_init) t'

example : (({} : Sys).run [.alloc 1, .alloc 2, .release 1 0, .alloc 2, .release 1 0]).owner = [(0, 2), (1, 2)] := by decide

example : (({} : Pool).alloc.1.alloc.1.release 0).alloc.2 = 0 := by decide

end Osmt.Properties
