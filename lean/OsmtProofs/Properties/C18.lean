import OsmtProofs.Status
import OsmtProofs.Pipe
/-!
# C18 — the executable signals every input problem (partial)

What a theorem can carry here is the reporting contract, not the absence of crashes:
* `C18_exit_zero_iff_no_error`: in the exit-status machine (every diagnostic goes through one function that clears the
  status flag, nothing sets it again) the exit status is 0 exactly when no error response was printed, for every run;
* `C18_frames_chunk_independent`: the command frames the pipe reader hands to the parser do not depend on how the input
  bytes arrive (C20's theorem, restated: malformed input is framed deterministically).
Crash freedom, sanitizer cleanliness and termination are searched for by mutation fuzzing on a sanitizer build and are
not proved; the property is claimed as partial.
-/
namespace Osmt.Properties

theorem C18_exit_zero_iff_no_error (evs : List Osmt.Status.Ev) :
    Osmt.Status.exitStatus (Osmt.Status.run evs) = 0 ↔ Osmt.Status.Ev.error ∉ evs := Osmt.Status.exit_zero_iff evs

theorem C18_frames_chunk_independent (s : Osmt.Pipe.St) (c1 c2 : List (List Char)) (h : c1.flatten = c2.flatten) :
    Osmt.Pipe.runChunks s c1 = Osmt.Pipe.runChunks s c2 := Osmt.Pipe.two_chunkings_agree s c1 c2 h

example : Osmt.Status.exitStatus (Osmt.Status.run [.response, .error, .response]) = 1 := by decide

end Osmt.Properties
