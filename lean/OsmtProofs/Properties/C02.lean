import OsmtProofs.Smt
import Osmt.Model
/-!
# C02 — a `sat` answer is never given for an unsatisfiable assertion set

Two executable acceptance conditions, each with its theorem:

* engine level (`C02_sat_roots`): the machine accepts `sat` only with a Boolean model under which every
  root formula evaluates to true *from the atom values alone* (three-valued evaluation; an unassigned atom
  that matters makes the answer rejected) and which satisfies every input clause;
* semantic level (`C02_validated_model`): a printed model under which every current assertion evaluates to
  true *is* a model: `Model.satisfies m ts = true → ∃ I, Sat I ts`, and its constants are well-sorted
  (integers for `Int`) when `constsWellSorted` holds.

Not proved (covered per run only): that the theory solvers' final check is complete — the per-run evidence
is the validated model.  Array logics print no models and are outside this check.
-/
namespace Osmt.Properties
open Osmt

theorem C02_sat_roots (s s' : Smt.State) (m : List Lit) (hans : Smt.step? s (.answer (.sat m)) = some s')
    (I : Interp) (hag : Smt.ModelAgrees s.vm m I) : ∀ r ∈ s.roots, evalB I r = true :=
  Smt.sat_sound s s' m hans I hag

theorem C02_validated_model (m : Model) (ts : List Term) (h : m.satisfies ts = true) : ∃ I, Sat I ts :=
  ⟨m.interp, by simpa [Model.satisfies, Sat, List.all_eq_true] using h⟩

/-- hence an assertion set with a validated model is not `Unsat` as soon as the model is well-formed -/
theorem C02_not_unsat (m : Model) (ts : List Term) (h : m.satisfies ts = true) (hwf : m.interp.WF) : ¬ Unsat ts :=
  fun hu => hu ⟨m.interp, hwf, by simpa [Model.satisfies, Sat, List.all_eq_true] using h⟩

/-! Non-vacuity: root `(or b c)`, model `b ↦ false, c ↦ true` is accepted; `b ↦ false` alone (c unassigned) is not. -/
def sB : Term := .app (.var 0 .bool) []
def sC : Term := .app (.var 1 .bool) []
def sVm : VarMap := fun v => if v = 0 then some sB else if v = 1 then some sC else none
def sState : Smt.State := { vm := sVm, roots := [.app .or [sB, sC]], core := { fuel := 3 } }
example : (Smt.step? sState (.answer (.sat [⟨0, true⟩, ⟨1, false⟩]))).isSome = true := by decide
example : (Smt.step? sState (.answer (.sat [⟨0, true⟩]))).isSome = false := by decide

end Osmt.Properties
