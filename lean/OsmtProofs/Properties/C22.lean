import OsmtProofs.LA
import OsmtProofs.EUF
/-!
# C22 — theory-solver verdicts depend only on the asserted literals

What is decided about a verdict is decided from the literals asserted at that moment alone, by the kernels:
* a reported inconsistency `C` is accepted when the clause of its negated literals passes `laClauseCheck` / `eufClauseCheck`,
  which makes the literals of `C` jointly unsatisfiable in every well-formed interpretation (`C22_conflict_certified`);
  that `C` is a subset of the currently asserted literals is checked on the operation sequence;
* a `consistent` verdict of a complete check is refuted when the clause of the negated asserted literals passes a kernel:
  then no interpretation satisfies the asserted literals (`C22_consistency_refuted`) and the verdict was wrong.
History enters nowhere: retracted literals are not in the clause.  Abstracted: completeness of the refutation search
(certificates come from untrusted producers; a missing certificate leaves a `consistent` verdict unconfirmed).
-/
namespace Osmt.Properties
open Osmt

/-- literals `(atom, sign)` as asserted: `sign = true` means the atom is asserted true -/
def assertedHold (I : Interp) (lits : List (Term × Bool)) : Prop := ∀ l ∈ lits, evalB I l.1 = l.2

/-- the clause of the negated literals of an asserted set `lits` is `lits` itself read as clause literals `(atom, negated?)` -/
theorem C22_conflict_certified (lits : List (Term × Bool)) (cert : LA.Cert)
    (h : LA.laClauseCheck lits cert = true) (I : Interp) (hI : I.WF) : ¬ assertedHold I lits := by
  intro hall
  obtain ⟨l, hl, hv⟩ := LA.laClauseCheck_sound lits cert h I hI
  have := hall l hl
  rw [this] at hv
  cases hb : l.2 <;> simp [hb] at hv

theorem C22_consistency_refuted (lits : List (Term × Bool)) (steps : List EUF.Step) (goal : Nat)
    (h : EUF.eufClauseCheck lits steps goal = true) (I : Interp) (hI : I.WF) : ¬ assertedHold I lits := by
  intro hall
  obtain ⟨l, hl, hv⟩ := EUF.eufClauseCheck_sound lits steps goal h I hI
  have := hall l hl
  rw [this] at hv
  cases hb : l.2 <;> simp [hb] at hv

end Osmt.Properties
