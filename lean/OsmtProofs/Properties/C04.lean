import OsmtProofs.Frames
import OsmtProofs.Properties.C01
import OsmtProofs.Properties.C02
/-!
# C04 — incremental answers equal fresh answers on the active assertions

Bookkeeping part, proved for all push/pop/assert histories of the mirror of `MainSolver`'s frame stack:
`enabled_exact` (the assumptions enable exactly the frames on the stack and disable every other frame ever
created), `active_*` (the formulas of enabled frames are exactly what a fresh solver would be given).
Engine part: by C01/C02 an accepted answer under those assumptions is correct for the roots of the enabled
frames.  Not modelled here (checked differentially on every run): per-frame substitutions and lazy
simplification counters of `Preprocessor`, unsat-frame memoisation, effects of queries between checks.
-/
namespace Osmt.Properties
open Osmt Osmt.Frames

theorem C04_enabled_exact {α} (ops : List (Frames.Op α)) :
    (∀ i, 0 < i → i < (run ops).frameId → ((i, true) ∈ assumptions (run ops) ↔ i ∈ enabledIds (run ops))) ∧
    (∀ i, 0 < i → i < (run ops).frameId → ((i, false) ∈ assumptions (run ops) ↔ i ∉ enabledIds (run ops))) ∧
    (∀ p ∈ assumptions (run ops), 0 < p.1 ∧ p.1 < (run ops).frameId) := enabled_exact ops

theorem C04_frames_inv {α} (ops : List (Frames.Op α)) : Inv (run ops) := run_inv ops

theorem C04_pop_removes_exactly_top {α} (s : St α) (fr : Frame α) (h : s.frames.getLast? = some fr)
    (hlen : 1 < s.frames.length) : active (step s .pop) ++ fr.formulas = active s := active_pop s fr h hlen

/-! Non-vacuity: push, assert, push, pop, push: ids 1 and 3 enabled, 2 disabled. -/
example : assumptions (run [Frames.Op.push, .assert 7, .push, .pop, .push] : St Nat) = [(1, true), (2, false), (3, true)] := by
  decide
example : active (run [Frames.Op.push, .assert 7, .push, .assert 8, .pop] : St Nat) = [7] := by decide

end Osmt.Properties
