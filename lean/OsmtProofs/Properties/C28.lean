import OsmtProofs.Store
/-!
# C28 — equal terms share one identity and subterms come first

For the hash-consed store (`Osmt.Store`): building the same node twice gives the same identity and leaves the store
unchanged; identities are stable; different identities hold different nodes; the arguments of every term are older than the
term; commutative symbols are insensitive to the order of their arguments.  All for every store reachable from the empty
store and every node.  The tie drives `Logic`'s constructors and the model with the same construction sequences and
compares which results coincide, which are new, and the order of identities.
-/
namespace Osmt.Properties
open Osmt.Store

theorem C28_same_node_same_identity (st : Store) (n : Node) :
    intern (intern st n).1 n = ((intern st n).1, (intern st n).2) := intern_again st n

theorem C28_identity_holds_node (st : Store) (n : Node) : (intern st n).1[(intern st n).2]? = some n := intern_get st n

theorem C28_identities_stable (st : Store) (n : Node) : ∃ r, (intern st n).1 = st ++ r := intern_prefix st n

theorem C28_distinct_identities_distinct_terms (st : Store) (hinv : Inv st) (i j : Nat) (a b : Node)
    (hi : st[i]? = some a) (hj : st[j]? = some b) (hne : i ≠ j) : a ≠ b := distinct_ids_distinct_nodes st hinv i j a b hi hj hne

theorem C28_invariant_kept (comm : Nat → Bool) (st : Store) (n : Node) (hinv : Inv st) (hargs : ∀ a ∈ n.args, a < st.length) :
    Inv (mk comm st n).1 := mk_inv comm st n hinv hargs

theorem C28_subterms_first (st : Store) (hinv : Inv st) (i : Nat) (n : Node) (h : st[i]? = some n) : ∀ a ∈ n.args, a < i :=
  hinv.2 i n h

theorem C28_commutative_order_insensitive (comm : Nat → Bool) (st : Store) (s : Nat) (xs ys : List Nat)
    (hc : comm s = true) (hp : xs.Perm ys) : mk comm st ⟨s, xs⟩ = mk comm st ⟨s, ys⟩ := mk_perm comm st s xs ys hc hp

/-- non-vacuity: (= a b) and (= b a) share an identity, f(a, b) and f(b, a) do not -/
example (comm : Nat → Bool) (h : comm 9 = true) (st : Store) : mk comm st ⟨9, [0, 1]⟩ = mk comm st ⟨9, [1, 0]⟩ :=
  C28_commutative_order_insensitive comm st 9 [0, 1] [1, 0] h (List.Perm.swap 1 0 [])
example :
    let st : Store := [⟨1, []⟩, ⟨2, []⟩]
    (intern st ⟨7, [0, 1]⟩).2 ≠ (intern (intern st ⟨7, [0, 1]⟩).1 ⟨7, [1, 0]⟩).2 ∧
    (intern st ⟨7, [0, 1]⟩).2 = (intern (intern st ⟨7, [0, 1]⟩).1 ⟨7, [0, 1]⟩).2 ∧ Inv st := by
  refine ⟨by decide, by decide, by decide, ?_⟩
  intro i n h a ha
  match i, h with
  | 0, h => simp at h; subst h; simp at ha
  | 1, h => simp at h; subst h; simp at ha
  | k + 2, h => simp at h

end Osmt.Properties
