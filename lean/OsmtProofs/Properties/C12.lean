import OsmtProofs.Smt
/-!
# C12 — every clause the SAT engine learns is implied by known clauses

For every event sequence accepted by the machine (each `learn` event passes `rupCheck` against the database
at that moment), every database clause is a propositional consequence of the axioms (input + theory
clauses) — and the acceptance test *is* reverse unit propagation, which is what the property asks for.
-/
namespace Osmt.Properties
open Osmt

/-- RUP soundness: a clause confirmed by reverse unit propagation from `db` holds in every model of `db`. -/
theorem C12_rup_sound (fuel : Nat) (db : List Clause) (c : Clause) (h : rupCheck fuel db c = true) :
    ∀ σ, satisfies σ db → Clause.eval σ c = true := rup_sound h

/-- Every reachable database is implied by the axioms, for all accepted event sequences. -/
theorem C12_learnt_implied (s0 : Smt.State) (evs : List Smt.Event) (s : Smt.State)
    (hrun : Smt.run s0 evs = some s) (h0 : Cdcl.Inv s0.core) :
    ∀ σ, satisfies σ s.core.axioms → satisfies σ s.core.db :=
  Smt.learnt_implied s0 evs s hrun h0

/-- a learnt clause is accepted only if it is RUP at that moment -/
theorem C12_learn_accepts_only_rup (s s' : Cdcl.State) (c : Clause) (h : Cdcl.step? s (.learn c) = some s') :
    rupCheck s.fuel s.db c = true := by
  simp only [Cdcl.step?] at h
  split at h
  · assumption
  · simp at h

/-! Non-vacuity: from `(a ∨ b)`, `(¬a ∨ b)` the unit `b` is accepted as learnt; `¬b` is not. -/
example : (Cdcl.run { fuel := 4 } [.axiom_ [⟨0, false⟩, ⟨1, false⟩], .axiom_ [⟨0, true⟩, ⟨1, false⟩],
    .learn [⟨1, false⟩]]).isSome = true := by decide
example : (Cdcl.run { fuel := 4 } [.axiom_ [⟨0, false⟩, ⟨1, false⟩], .axiom_ [⟨0, true⟩, ⟨1, false⟩],
    .learn [⟨1, true⟩]]).isSome = false := by decide

end Osmt.Properties
