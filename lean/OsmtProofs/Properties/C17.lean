import OsmtProofs.Quote
/-!
# C17 — printed SMT-LIB reads back to the same object (names)

The part of printing that a theorem carries is the treatment of symbol names (`Logic::protectName`, mirrored in
`Osmt/Quote.lean` and compared with the code on generated names every run): for every non-empty name without bars and
backslashes, what is printed is a symbol token that reads back as exactly that name (`C17_protect_roundtrip`,
`C17_protect_is_symbol`), and every name that is printed between bars would not read back as itself if printed bare
(`C17_quoted_needed`: characters outside the simple-symbol set, number-like names, lexer keywords).
That whole printed objects (models, values, cores, interpolants, dumped queries) read back to what they were is checked
per run by re-reading them with this project's reader and with opensmt itself.
-/
namespace Osmt.Properties
open Osmt.Quote

theorem C17_protect_roundtrip (s : List Char) (hne : s ≠ []) (hclean : s.all (fun c => c != '|' && c != '\\') = true) :
    readSymbol (protect s) = some s := protect_roundtrip s hne hclean

theorem C17_protect_is_symbol (s : List Char) (hne : s ≠ []) (hclean : s.all (fun c => c != '|' && c != '\\') = true) :
    (readSymbol (protect s)).isSome = true := protect_is_symbol s hne hclean

theorem C17_quoted_needed (s : List Char) (hclean : s.all (fun c => c != '|' && c != '\\') = true) (h : needsQuote s = true) :
    readSymbol s ≠ some s := quoted_needed s hclean h

example : protect "a b".toList = "|a b|".toList ∧ protect "-1".toList = "|-1|".toList ∧ protect "let".toList = "|let|".toList ∧
    protect "x!0".toList = "x!0".toList ∧ protect "!".toList = "|!|".toList := by decide

end Osmt.Properties
