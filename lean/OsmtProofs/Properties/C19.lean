import OsmtProofs.Front
/-!
# C19 — a rejected command leaves the solver state unchanged

The front-end machine (`Osmt.Front`): logic / incremental flags, assertion levels, scoped names (those introduced inside
terms included), declarations and the record of accepted assertions.  For every state and command, a command answered
`err` returns the state it was given (`C19_rejected_is_noop`); hence, for every script, every position and every command
that is rejected there, the script with the command inserted ends in the same state and answers every other command
alike (`C19_insert_rejected`), and a whole script is equivalent to the script of its accepted commands
(`C19_run_accepted`).  The tie compares the accept / reject pattern and the active assertions of the machine with the
executable on generated scripts, and the executable with itself on the script with and without the rejected commands.
Abstracted: what the solver computes from the state (answers, models, cores) — compared on the executable directly.
-/
namespace Osmt.Properties
open Osmt.Front

theorem C19_rejected_is_noop (s : St) (c : Cmd) (h : (step s c).2 = .err) : (step s c).1 = s := step_err_id s c h

theorem C19_insert_rejected (s : St) (p q : List Cmd) (c : Cmd) (h : (step (run s p).1 c).2 = .err) :
    (run s (p ++ c :: q)).1 = (run s (p ++ q)).1 ∧
    (run s (p ++ c :: q)).2 = (run s p).2 ++ .err :: (run (run s p).1 q).2 ∧
    (run s (p ++ q)).2 = (run s p).2 ++ (run (run s p).1 q).2 := run_insert_rejected s p q c h

theorem C19_run_accepted (s : St) (cs : List Cmd) : (run s cs).1 = (run s (accepted s cs)).1 := run_accepted s cs

/-- non-vacuity: a pop beyond the stack and an assertion with a taken name are rejected and change nothing; the inner
name of the rejected assertion is free afterwards -/
example :
    let s0 : St := (run {} [.setLogic, .push 1, .assert 0 true [7]]).1
    (step s0 (.pop 4)).2 = .err ∧ (step s0 (.pop 4)).1 = s0 ∧
    (step s0 (.assert 1 true [8, 7])).2 = .err ∧ (step s0 (.assert 1 true [8, 7])).1 = s0 ∧
    (step s0 (.assert 2 true [8])).2 = .ok := by decide

end Osmt.Properties
