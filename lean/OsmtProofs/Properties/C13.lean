import OsmtProofs.Rewrite
/-!
# C13 — preprocessing preserves satisfiability and models

The rewrites applied between assertion and search, as functions on terms, for every term and interpretation:
* substitution of keys by targets of the same value keeps the value of every term (`C13_subst_eval`);
* eliminating a variable by a definition it does not occur in is a conservative extension, in both directions
  (`C13_subst_equiv`): models of the rewritten formula extend to models of the original one that satisfy the
  equation, and models of the original formula and the equation are models of the rewritten one — this is also what
  makes model reconstruction (evaluate the definition) correct;
* `distinct` expansion and the split of numeric equalities keep the value (`C13_distinct_expand`, `C13_eq_split`);
* the definitions introduced for `div`/`mod` and for term-level `ite` hold exactly when the auxiliary symbols have
  the value of the term they stand for, so they constrain nothing but the fresh symbols
  (`C13_divmod_axioms`, `C13_ite_definition`);
* Boolean flattening of nested conjunctions / disjunctions keeps the value (`C13_flatten_and`, `C13_flatten_or`), and the
  transitivity fact learnt from a full diamond of equalities is valid (`C13_transitivity_fact_valid`).
What ties these to the code is the per-check comparison of asserted formulas and engine roots (tools/checks/c13.py).
-/
namespace Osmt.Properties
open Osmt Osmt.Rewrite

theorem C13_subst_eval (I : Interp) (σ : List (Term × Term)) (hσ : ∀ e ∈ σ, eval I e.1 = eval I e.2) (t : Term) :
    eval I (subst σ t) = eval I t := subst_eval I σ hσ t

theorem C13_subst_equiv (I : Interp) (id : Nat) (s : Srt) (tgt f : Term) (hocc : occurs id s tgt = false) :
    (evalB I (substVar id s tgt f) = true →
      evalB (setVar I id s (eval I tgt)) f = true ∧
      eval (setVar I id s (eval I tgt)) (.app (.var id s) []) = eval (setVar I id s (eval I tgt)) tgt) ∧
    (eval I (.app (.var id s) []) = eval I tgt → evalB I f = true → evalB I (substVar id s tgt f) = true) :=
  ⟨fun h => substVar_extends I id s tgt f hocc h, fun he h => substVar_restricts I id s tgt f he h⟩

theorem C13_extension_wf (I : Interp) (hI : I.WF) (id : Nat) (s : Srt) (v : Val) (hv : v.hasSort s = true) :
    (setVar I id s v).WF := setVar_WF I hI id s v hv

theorem C13_distinct_expand (I : Interp) (args : List Term) :
    eval I (expandDistinct args) = eval I (.app .distinct args) := expandDistinct_eval I args

theorem C13_eq_split (I : Interp) (a b : Term) (x y : Rat) (ha : eval I a = .n x) (hb : eval I b = .n y) :
    eval I (splitEq a b) = eval I (.app .eq [a, b]) := splitEq_eval I a b x y ha hb

theorem C13_divmod_axioms (I : Interp) (q r a : Term) (d qi ri ai : Int) (hd : d ≠ 0)
    (hq : eval I q = .n qi) (hr : eval I r = .n ri) (ha : eval I a = .n ai) :
    evalB I (divModDef q r a d) = true ↔ (qi = ai / d ∧ ri = ai % d) := divModDef_eval I q r a d qi ri ai hd hq hr ha

theorem C13_ite_definition (I : Interp) (v c a b : Term) (x : Bool) (hc : eval I c = .b x) :
    evalB I (iteDef v c a b) = true ↔ eval I v = eval I (.app .ite [c, a, b]) := iteDef_eval I v c a b x hc

theorem C13_flatten_and (I : Interp) (args : List Term) : eval I (flatten .and args) = eval I (.app .and args) :=
  flatten_and_eval I args
theorem C13_flatten_or (I : Interp) (args : List Term) : eval I (flatten .or args) = eval I (.app .or args) :=
  flatten_or_eval I args

/-- the fact learnt from a full diamond of equalities is valid in every interpretation -/
theorem C13_transitivity_fact_valid (I : Interp) (x y1 y2 z : Term) : evalB I (diamondFact x y1 y2 z) = true :=
  diamondFact_valid I x y1 y2 z

/-- non-vacuity: eliminating `x := y + 1` from `x ≤ 3` gives `y + 1 ≤ 3`, and `x` does not occur in `y + 1` -/
example :
    let x := Term.app (.var 0 .int) []
    let y := Term.app (.var 1 .int) []
    let tgt := Term.app .plus [y, .app (.num 1) []]
    substVar 0 .int tgt (.app .leq [x, .app (.num 3) []]) = .app .leq [tgt, .app (.num 3) []] ∧ occurs 0 .int tgt = false := by
  decide +kernel

end Osmt.Properties
