import OsmtProofs.Conc
/-!
# C25 — an asynchronous stop never produces a wrong answer (partial)

The restart loop looks at the stop flags before every round.  For every search behaviour, every moment at which the request
becomes visible and every bound on the rounds, the stopped run answers `unknown` or exactly what the run without the request
answers (`C25_stop_unknown_or_same`); a request visible before the first round gives `unknown` (`C25_stop_before_start`).
So a stop cannot create a definitive answer; whether definitive answers are right is C01/C02.  That the request is free of
data races and crashes is searched for with ThreadSanitizer, with requests issued at random moments of real runs; it is
not a theorem.
-/
namespace Osmt.Properties
open Osmt.Conc

theorem C25_stop_unknown_or_same (search : Nat → Option Ans) (j fuel k : Nat) :
    solveLoop search (some j) fuel k = .unknown ∨ solveLoop search (some j) fuel k = solveLoop search none fuel k :=
  stop_unknown_or_same search j fuel k

theorem C25_stop_before_start (search : Nat → Option Ans) (fuel : Nat) : solveLoop search (some 0) fuel 0 = .unknown :=
  stop_before_start search fuel

/-- a definitive answer of a stopped run is the answer of the undisturbed run -/
theorem C25_definitive_same (search : Nat → Option Ans) (j fuel k : Nat) (a : Ans) (ha : a ≠ .unknown)
    (h : solveLoop search (some j) fuel k = a) : solveLoop search none fuel k = a := stop_definitive_same search j fuel k a ha h
/-- a request seen from round `j` on gives `unknown` when no earlier round decides -/
theorem C25_undecided_unknown (search : Nat → Option Ans) (j fuel k : Nat)
    (hund : ∀ i, k ≤ i → i < j → search i = none) : solveLoop search (some j) fuel k = .unknown :=
  stop_undecided_unknown search j fuel k hund
/-- a later request disturbs no more than an earlier one -/
theorem C25_later_same (search : Nat → Option Ans) (j j' fuel k : Nat) (hjj : j ≤ j') (a : Ans) (ha : a ≠ .unknown)
    (h : solveLoop search (some j) fuel k = a) : solveLoop search (some j') fuel k = a :=
  stop_later_same search j j' fuel k hjj a ha h

/-- the two-level loop (`solve_` over `search`, the flags polled before every round and in every iteration after
    `propagate`): a request that becomes visible at any poll of any round gives unknown or the undisturbed answer -/
theorem C25_two_level_unknown_or_same (iter : Nat → Nat → Option Ans) (s : Nat × Nat) (budget : Nat → Nat) (F k : Nat) :
    solve2 iter (some s) budget F k = .unknown ∨ solve2 iter (some s) budget F k = solve2 iter none budget F k :=
  solve2_unknown_or_same iter s budget F k

/-- the theorem is not vacuous and not insensitive: a loop that, on seeing the request, goes on at level 0 and takes a
    pending conflict for a level-0 conflict (the seeded change `C25-stop-midloop-cancel`) answers unsat where the
    undisturbed loop answers sat -/
example : innerBroken (fun _ i => if i = 5 then some .sat else none) (fun _ _ => true) (some (0, 2)) 0 10 0 = some .unsat ∧
          inner (fun _ i => if i = 5 then some .sat else none) none 0 10 0 = some .sat := by decide

example : solve2 (fun _ i => if i = 5 then some .sat else none) (some (0, 2)) (fun _ => 10) 3 0 = .unknown ∧
          solve2 (fun _ i => if i = 5 then some .sat else none) (some (0, 7)) (fun _ => 10) 3 0 = .sat := by decide

example : solveLoop (fun k => if k = 3 then some .unsat else none) (some 5) 10 0 = .unsat ∧
          solveLoop (fun k => if k = 3 then some .unsat else none) (some 2) 10 0 = .unknown := by decide

end Osmt.Properties
