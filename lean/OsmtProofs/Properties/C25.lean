import OsmtProofs.Conc
/-!
# C25 — an asynchronous stop never produces a wrong answer (partial)

The restart loop looks at the stop flags before every round.  For every search behaviour, every moment at which the request
becomes visible and every bound on the rounds, the stopped run answers `unknown` or exactly what the run without the request
answers (`C25_stop_unknown_or_same`); a request visible before the first round gives `unknown` (`C25_stop_before_start`).
So a stop cannot create a definitive answer; whether definitive answers are right is C01/C02.  That the request is free of
data races and crashes is searched for with ThreadSanitizer, with requests issued at random moments of real runs; it is
not a theorem.
-/
namespace Osmt.Properties
open Osmt.Conc

theorem C25_stop_unknown_or_same (search : Nat → Option Ans) (j fuel k : Nat) :
    solveLoop search (some j) fuel k = .unknown ∨ solveLoop search (some j) fuel k = solveLoop search none fuel k :=
  stop_unknown_or_same search j fuel k

theorem C25_stop_before_start (search : Nat → Option Ans) (fuel : Nat) : solveLoop search (some 0) fuel 0 = .unknown :=
  stop_before_start search fuel

/-- a definitive answer of a stopped run is the answer of the undisturbed run -/
theorem C25_definitive_same (search : Nat → Option Ans) (j fuel k : Nat) (a : Ans) (ha : a ≠ .unknown)
    (h : solveLoop search (some j) fuel k = a) : solveLoop search none fuel k = a := stop_definitive_same search j fuel k a ha h
/-- a request seen from round `j` on gives `unknown` when no earlier round decides -/
theorem C25_undecided_unknown (search : Nat → Option Ans) (j fuel k : Nat)
    (hund : ∀ i, k ≤ i → i < j → search i = none) : solveLoop search (some j) fuel k = .unknown :=
  stop_undecided_unknown search j fuel k hund
/-- a later request disturbs no more than an earlier one -/
theorem C25_later_same (search : Nat → Option Ans) (j j' fuel k : Nat) (hjj : j ≤ j') (a : Ans) (ha : a ≠ .unknown)
    (h : solveLoop search (some j) fuel k = a) : solveLoop search (some j') fuel k = a :=
  stop_later_same search j j' fuel k hjj a ha h

example : solveLoop (fun k => if k = 3 then some .unsat else none) (some 5) 10 0 = .unsat ∧
          solveLoop (fun k => if k = 3 then some .unsat else none) (some 2) 10 0 = .unknown := by decide

end Osmt.Properties
