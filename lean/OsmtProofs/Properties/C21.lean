import OsmtProofs.Names
/-!
# C21 — names and definitions follow the assertion-stack scopes

Mirror of `TermNames` + `ScopedVector`.  For every operation sequence (inserts, pushes, pops, switches of the
global-declarations mode): names are pairwise distinct and the name map holds exactly the pairs of the scoped
vector (`C21_consistent`, `C21_lookup_iff_scoped`).  For every balanced sequence of scope operations between a
`pushScope` and its `popScope` (non-global mode) the vector and the limits are restored exactly
(`C21_pop_restores`): the names introduced inside are gone and can be introduced again.  In global mode a pop
keeps every name (`C21_global_pop_keeps`) and the stack of limits still follows the assertion stack
(`C21_limits_follow_stack`).  `define-fun` scoping (`Interpret::DefinedFunctions`) and the use of names by
unsat cores / assignments are checked end to end only.
-/
namespace Osmt.Properties
open Osmt.Names

theorem C21_consistent (ops : List Op) : Inv (run ops) := run_inv ops
theorem C21_lookup_iff_scoped (ops : List Op) (n t : Nat) :
    lookup (run ops) n = some t ↔ (n, t) ∈ (run ops).elems := lookup_iff_scoped ops n t
theorem C21_pop_restores (s : St) (ops : List Op) (hg : s.global = false) (hb : bal 0 ops = true) :
    (popScope (ops.foldl step (pushScope s))).elems = s.elems ∧
    (popScope (ops.foldl step (pushScope s))).limits = s.limits := pop_restores s ops hg hb
theorem C21_global_pop_keeps (s : St) (h : s.global = true) :
    (popScope s).elems = s.elems ∧ (popScope s).n2t = s.n2t ∧ (popScope s).limits = s.limits.dropLast :=
  global_pop_keeps s h
theorem C21_limits_follow_stack (s : St) (h : s.limits ≠ []) :
    (pushScope s).limits.length = s.limits.length + 1 ∧ (popScope s).limits.length = s.limits.length - 1 :=
  limits_length s h

example : lookup (run [.insert 1 10, .push, .insert 2 11, .pop]) 2 = none := by decide
example : lookup (run [.insert 1 10, .push, .insert 2 11, .pop, .insert 2 12]) 2 = some 12 := by decide
example : lookup (run [.setGlobal true, .push, .insert 2 11, .pop]) 2 = some 11 := by decide
example : (run [.setGlobal true, .push, .setGlobal false, .pop]).limits = [] := by decide

end Osmt.Properties
