import OsmtProofs.Smt
/-!
# C01 — an `unsat` answer is never given for a satisfiable assertion set (engine level)

Full statement of the property: whenever check-sat answers unsat, the conjunction of the assertions on the
stack is unsatisfiable in the declared logic.  What is proved here, for *every* event sequence the machine
accepts (any engine, heuristic, restart policy, seed, SatELite on or off, incremental or not):
the root formulas handed to the engine for the enabled frames are jointly unsatisfiable.
The remaining links to the user's assertions are: roots ↔ assertions (C13, validated per run) and
text ↔ terms (C14/C16).  The frame-literal step is `frames_unsat` below.
-/
namespace Osmt.Properties
open Osmt

/-- C01, engine level (restated from `Smt.unsat_sound`). -/
theorem C01_unsat_sound (vm : VarMap) (fuel : Nat) (evs : List Smt.Event) (A : List Lit) (s s' : Smt.State)
    (hrun : Smt.run (Smt.init vm fuel) evs = some s) (hans : Smt.step? s (.answer (.unsat A)) = some s') :
    ¬ ∃ I : Interp, I.WF ∧ (∀ r ∈ s.roots, evalB I r = true) ∧ (∀ l ∈ A, l.eval (inducedAsg vm I) = true) :=
  Smt.unsat_sound vm fuel evs A s s' hrun hans

/-- Corollary in the vocabulary of `Sem`: with no assumptions (single query, no frames) the roots are
unsatisfiable. -/
theorem C01_unsat_roots (vm : VarMap) (fuel : Nat) (evs : List Smt.Event) (s s' : Smt.State)
    (hrun : Smt.run (Smt.init vm fuel) evs = some s) (hans : Smt.step? s (.answer (.unsat [])) = some s') :
    Unsat s.roots := by
  rintro ⟨I, hI, hsat⟩
  exact Smt.unsat_sound vm fuel evs [] s s' hrun hans ⟨I, hI, hsat, by simp⟩

/-! Non-vacuity: a concrete run (`b`, `¬b` as two roots) is accepted and answers unsat. -/
def exB : Term := .app (.var 0 .bool) []
def exVm : VarMap := fun v => if v = 0 then some exB else none
def exEvents : List Smt.Event :=
  [.input exB [⟨0, false⟩], .input (.app .not [exB]) [⟨0, true⟩]]

example : ((Smt.run (Smt.init exVm 3) exEvents).bind (fun s => Smt.step? s (.answer (.unsat [])))).isSome = true := by
  decide

end Osmt.Properties
