import Osmt.Core
/-! Irreducibility of minimised unsat cores (C07), for every monotone unsatisfiability oracle. -/
namespace Osmt.Core

/-- unsatisfiability only depends on the set of formulas and is preserved by adding formulas -/
def Monotone' {α} (unsat : List α → Bool) : Prop :=
  ∀ S S' : List α, (∀ x ∈ S, x ∈ S') → unsat S = true → unsat S' = true

theorem aux_spec {α} [DecidableEq α] (unsat : List α → Bool) (mono : Monotone' unsat) (bg : List α) :
    ∀ (rest kept : List α), (kept ++ rest).Nodup → unsat (bg ++ kept ++ rest) = true →
      let ks := performNaiveAux unsat bg kept rest
      unsat (bg ++ ks) = true ∧ (∃ more, ks = kept ++ more ∧ more.Sublist rest) ∧
      (∀ k ∈ ks, k ∉ kept → unsat (bg ++ ks.erase k) = false)
  | [], kept, _, hu => by
    simp only [performNaiveAux]
    refine ⟨by simpa using hu, ⟨[], by simp, List.Sublist.refl _⟩, ?_⟩
    intro k hk hnk; exact absurd hk hnk
  | t :: rest, kept, hnd, hu => by
    simp only [performNaiveAux]
    split
    · rename_i hred
      have hnd' : (kept ++ rest).Nodup := by
        have := hnd
        rw [List.nodup_append] at this ⊢
        refine ⟨this.1, (List.nodup_cons.mp this.2.1).2, ?_⟩
        intro a ha b hb; exact this.2.2 a ha b (by simp [hb])
      obtain ⟨h1, ⟨more, h2, h3⟩, h4⟩ := aux_spec unsat mono bg rest kept hnd' hred
      exact ⟨h1, ⟨more, h2, List.Sublist.cons _ h3⟩, h4⟩
    · rename_i hnred
      have hnd' : ((kept ++ [t]) ++ rest).Nodup := by simpa [List.append_assoc] using hnd
      have hu' : unsat (bg ++ (kept ++ [t]) ++ rest) = true := by
        apply mono _ _ _ hu
        intro x hx; simp only [List.mem_append, List.mem_cons, List.mem_singleton, List.not_mem_nil, or_false] at hx ⊢
        rcases hx with (h | h) | h | h
        · left; left; exact h
        · left; right; left; exact h
        · left; right; right; exact h
        · right; exact h
      obtain ⟨h1, ⟨more, h2, h3⟩, h4⟩ := aux_spec unsat mono bg rest (kept ++ [t]) hnd' hu'
      refine ⟨h1, ⟨t :: more, by rw [h2]; simp, List.Sublist.cons₂ _ h3⟩, ?_⟩
      intro k hk hnk
      by_cases hkt : k = t
      · -- `t` was kept because the set without it was satisfiable; the final core without `t` is a subset of that set
        subst hkt
        cases hx : unsat (bg ++ (performNaiveAux unsat bg (kept ++ [k]) rest).erase k) with
        | false => rfl
        | true =>
          exfalso
          apply hnred
          apply mono _ _ _ hx
          intro x hxm
          rw [h2] at hxm
          simp only [List.mem_append] at hxm ⊢
          rcases hxm with hb | hc
          · left; left; exact hb
          · have hnd2 : (kept ++ [k] ++ more).Nodup := by
              have hsub : (kept ++ [k] ++ more).Sublist (kept ++ [k] ++ rest) :=
                List.Sublist.append (List.Sublist.refl _) h3
              exact List.Nodup.sublist hsub hnd'
            have hmem := (List.Nodup.mem_erase_iff hnd2).mp hc
            obtain ⟨hne, hin⟩ := hmem
            simp only [List.mem_append, List.mem_singleton] at hin
            rcases hin with (hk' | hk') | hm
            · left; right; exact hk'
            · exact absurd hk' hne
            · right; exact h3.subset hm
      · apply h4 k hk
        intro hmem
        simp only [List.mem_append, List.mem_singleton] at hmem
        rcases hmem with h | h
        · exact hnk h
        · exact hkt h

/-- **C07**: if the background together with the targets is unsatisfiable, the minimised core is still
unsatisfiable with the background, is a sub-list of the targets, and removing any single member makes it
satisfiable with the background. -/
theorem naive_irreducible {α} [DecidableEq α] (unsat : List α → Bool) (mono : Monotone' unsat) (bg ts : List α)
    (hnd : ts.Nodup) (h : unsat (bg ++ ts) = true) :
    let ks := performNaive unsat bg ts
    unsat (bg ++ ks) = true ∧ ks.Sublist ts ∧ ∀ k ∈ ks, unsat (bg ++ ks.erase k) = false := by
  have := aux_spec unsat mono bg ts [] (by simpa using hnd) (by simpa using h)
  obtain ⟨h1, ⟨more, h2, h3⟩, h4⟩ := this
  refine ⟨h1, ?_, fun k hk => h4 k hk (by simp)⟩
  simp only [performNaive]
  rw [h2]; simpa using h3

end Osmt.Core
