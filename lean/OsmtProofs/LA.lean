import Osmt.LA
import OsmtProofs.Skel
import Mathlib.Tactic.Ring
import Mathlib.Tactic.Linarith
import Mathlib.Algebra.Order.Field.Rat
/-! Soundness of the linear-arithmetic kernel. -/
namespace Osmt.LA
open Osmt

/-- the valuation of unknowns induced by an interpretation -/
def xI (I : Interp) : Term → Rat := fun t => (eval I t).toRat

theorem eval_add1 (x : Term → Rat) (v : Term) (c : Rat) (p : Poly) :
    (Poly.add1 v c p).eval x = c * x v + p.eval x := by
  induction p with
  | nil => simp [Poly.add1, Poly.eval]
  | cons wd p ih =>
    obtain ⟨w, d⟩ := wd
    unfold Poly.add1
    split
    · rename_i h; subst h; simp [Poly.eval]; ring
    · simp [Poly.eval, ih]; ring

theorem eval_addScaled (x : Term → Rat) (k : Rat) (p acc : Poly) :
    (Poly.addScaled k p acc).eval x = k * p.eval x + acc.eval x := by
  induction p generalizing acc with
  | nil => simp [Poly.addScaled, Poly.eval]
  | cons vc p ih =>
    obtain ⟨v, c⟩ := vc
    simp [Poly.addScaled, ih, eval_add1, Poly.eval]; ring

theorem eval_zero_of_all_zero (x : Term → Rat) (p : Poly) (h : p.all (fun vc => decide (vc.2 = 0)) = true) :
    p.eval x = 0 := by
  induction p with
  | nil => rfl
  | cons vc p ih =>
    obtain ⟨v, c⟩ := vc
    simp only [List.all_cons, Bool.and_eq_true, decide_eq_true_eq] at h
    simp [Poly.eval, h.1, ih h.2]

@[simp] theorem Lin.eval_add (x) (a b : Lin) : (Lin.add a b).eval x = a.eval x + b.eval x := by
  simp [Lin.add, Lin.eval, eval_addScaled]; ring
@[simp] theorem Lin.eval_scale (x) (k : Rat) (a : Lin) : (Lin.scale k a).eval x = k * a.eval x := by
  simp [Lin.scale, Lin.eval, eval_addScaled, Poly.eval]; ring
@[simp] theorem Lin.eval_sub (x) (a b : Lin) : (Lin.sub a b).eval x = a.eval x - b.eval x := by
  simp [Lin.sub, Lin.eval, eval_addScaled]; ring
theorem Lin.eval_const (x) (a : Lin) (h : a.isConst = true) : a.eval x = a.const := by
  simp [Lin.eval, eval_zero_of_all_zero x a.poly h]

mutual
  theorem linearize_sound (I : Interp) : ∀ t : Term, (linearize t).eval (xI I) = (eval I t).toRat
    | .app o as => by
      cases o
      case num q => simp [linearize, Lin.eval, Poly.eval, eval, applyOp, Val.toRat]
      case plus => simp only [linearize, eval, applyOp, Val.toRat]; exact linSum_sound I as
      case times => simp only [linearize, eval, applyOp, Val.toRat]; exact linProd_sound I as
      case minus =>
        cases as with
        | nil => simp [linearize, Lin.eval, Poly.eval, eval, evalList, applyOp, Val.toRat, minusVals]
        | cons a r =>
          cases r with
          | nil =>
            simp only [linearize, Lin.eval_scale, linearize_sound I a, eval, evalList, applyOp, Val.toRat, minusVals]
            ring
          | cons b r2 =>
            simp only [linearize, Lin.eval_sub, linearize_sound I a, linSum_sound I (b :: r2), eval, evalList,
              applyOp, Val.toRat, minusVals]
      all_goals (simp [linearize, Lin.eval, Poly.eval, xI])
  theorem linSum_sound (I : Interp) : ∀ ts : List Term, (linSum ts).eval (xI I) = sumVals (evalList I ts)
    | [] => by simp [linSum, Lin.eval, Poly.eval, evalList, sumVals]
    | t :: r => by
      simp only [linSum, Lin.eval_add, linearize_sound I t, linSum_sound I r, evalList, sumVals, List.foldr_cons]
  theorem linProd_sound (I : Interp) : ∀ ts : List Term, (linProd ts).eval (xI I) = prodVals (evalList I ts)
    | [] => by simp [linProd, Lin.eval, Poly.eval, evalList, prodVals]
    | t :: r => by
      have h1 := linearize_sound I t
      have h2 := linProd_sound I r
      simp only [linProd, evalList, prodVals, List.foldr_cons]
      split
      · rename_i hc
        rw [Lin.eval_scale, h2, ← Lin.eval_const (xI I) _ hc, h1]; rfl
      · split
        · rename_i hc
          rw [Lin.eval_scale, h1, ← Lin.eval_const (xI I) _ hc, h2]; simp [prodVals]; ring
        · simp [Lin.eval, Poly.eval, xI, eval, evalList, applyOp, Val.toRat, prodVals]
end

end Osmt.LA

namespace Osmt.LA
open Osmt

theorem isNum_eval (I : Interp) (hI : I.WF) : ∀ (t : Term), isNum t = true → ∃ q, eval I t = .n q
  | .app o as, h => by
    cases o
    case ite =>
      cases as with
      | nil => simp [isNum] at h
      | cons c r =>
        cases r with
        | nil => simp [isNum] at h
        | cons a r2 =>
          cases r2 with
          | nil => simp [isNum] at h
          | cons b r3 =>
            cases r3 with
            | nil =>
              simp [isNum] at h
              obtain ⟨xa, ha⟩ := isNum_eval I hI a h.1
              obtain ⟨xb, hb⟩ := isNum_eval I hI b h.2
              simp only [eval, evalList, applyOp]
              split
              · exact ⟨xa, ha⟩
              · exact ⟨xb, hb⟩
            | cons d r4 => simp [isNum] at h
    case var id s =>
      simp [isNum] at h
      have := hI.1 id s
      simp only [eval, applyOp]
      rcases h with h | h <;> subst h <;> cases hv : I.var id _ <;> simp [hv, Val.hasSort] at this ⊢
    case uf id s =>
      simp [isNum] at h
      have := hI.2 id s (evalList I as)
      simp only [eval, applyOp]
      rcases h with h | h <;> subst h <;> cases hv : I.uf id _ (evalList I as) <;> simp [hv, Val.hasSort] at this ⊢
    all_goals first
      | (simp only [eval]; exact ⟨_, rfl⟩)
      | (simp [isNum] at h; done)

theorem intUnknown_eval (I : Interp) (hI : I.WF) (t : Term) (h : isIntUnknown t = true) :
    ∃ z : Int, xI I t = (z : Rat) := by
  cases t with
  | app o as =>
    cases o
    case var id s =>
      simp [isIntUnknown] at h; subst h
      have := hI.1 id .int
      simp only [xI, eval, applyOp]
      cases hv : I.var id .int <;> simp [hv, Val.hasSort] at this
      rename_i q
      exact ⟨q.num, by simp [Val.toRat]; exact (Rat.den_eq_one_iff q).mp this |>.symm⟩
    case uf id s =>
      simp [isIntUnknown] at h; subst h
      have := hI.2 id .int (evalList I as)
      simp only [xI, eval, applyOp]
      cases hv : I.uf id .int (evalList I as) <;> simp [hv, Val.hasSort] at this
      rename_i q
      exact ⟨q.num, by simp [Val.toRat]; exact (Rat.den_eq_one_iff q).mp this |>.symm⟩
    all_goals (simp [isIntUnknown] at h)

theorem integral_eval (I : Interp) (hI : I.WF) : ∀ (p : Poly),
    p.all (fun vc => isIntUnknown vc.1 && decide (vc.2.den = 1)) = true → ∃ z : Int, p.eval (xI I) = (z : Rat)
  | [], _ => ⟨0, by simp [Poly.eval]⟩
  | (v, c) :: p, h => by
    simp only [List.all_cons, Bool.and_eq_true, decide_eq_true_eq] at h
    obtain ⟨z1, h1⟩ := intUnknown_eval I hI v h.1.1
    obtain ⟨z2, h2⟩ := integral_eval I hI p h.2
    have hc : c = (c.num : Rat) := ((Rat.den_eq_one_iff c).mp h.1.2).symm
    refine ⟨c.num * z1 + z2, ?_⟩
    simp only [Poly.eval, h1, h2]
    rw [hc]; push_cast; simp

theorem tighten_sound (I : Interp) (hI : I.WF) (i : Ineq) (h : i.holds (xI I)) : (i.tighten).holds (xI I) := by
  unfold Ineq.tighten
  split
  · rename_i hint
    obtain ⟨z, hz⟩ := integral_eval I hI i.lin.poly hint
    unfold Ineq.holds at h ⊢
    split
    · rename_i hs
      simp only [hs, if_true, Lin.eval, hz] at h
      simp only [Lin.eval, hz]
      -- 0 < z + k  →  0 ≤ z + ⌈k⌉ - 1
      have h1 : (-(z : Rat)) < i.lin.const := by linarith
      have h2 : -z < i.lin.const.ceil := by
        rw [Rat.ceil_eq_neg_floor_neg]
        have : (-i.lin.const).floor < z := by
          rw [Rat.floor_lt_iff]; linarith
        omega
      have h3 : (0 : Int) ≤ z + (i.lin.const.ceil - 1) := by omega
      have : ((0 : Int) : Rat) ≤ ((z + (i.lin.const.ceil - 1) : Int) : Rat) := by exact_mod_cast h3
      simpa using this
    · rename_i hs
      simp only [hs, Lin.eval, hz] at h
      simp only [Lin.eval, hz]
      simp at h
      have h1 : ((-z : Int) : Rat) ≤ i.lin.const := by push_cast; linarith
      have h2 : -z ≤ i.lin.const.floor := Rat.le_floor_iff.mpr h1
      have h3 : (0 : Int) ≤ z + i.lin.const.floor := by omega
      have : ((0 : Int) : Rat) ≤ ((z + i.lin.const.floor : Int) : Rat) := by exact_mod_cast h3
      simpa using this
  · exact h

end Osmt.LA

namespace Osmt.LA
open Osmt

def Item.holds (x : Term → Rat) : Item → Prop
  | .conj is => ∀ i ∈ is, i.holds x
  | .disj a b => a.holds x ∨ b.holds x
  | .skip => True

theorem evalB_leq (I : Interp) (a b : Term) : evalB I (.app .leq [a, b]) = decide (xI I a ≤ xI I b) := by
  simp [evalB, eval, evalList, applyOp, chainRel, Val.toBool, xI]
  try exact decide_eq_decide.mpr Iff.rfl
theorem evalB_lt (I : Interp) (a b : Term) : evalB I (.app .lt [a, b]) = decide (xI I a < xI I b) := by
  simp [evalB, eval, evalList, applyOp, chainRel, Val.toBool, xI]
  try exact decide_eq_decide.mpr Iff.rfl
theorem evalB_geq (I : Interp) (a b : Term) : evalB I (.app .geq [a, b]) = decide (xI I a ≥ xI I b) := by
  simp [evalB, eval, evalList, applyOp, chainRel, Val.toBool, xI]
  try exact decide_eq_decide.mpr Iff.rfl
theorem evalB_gt (I : Interp) (a b : Term) : evalB I (.app .gt [a, b]) = decide (xI I a > xI I b) := by
  simp [evalB, eval, evalList, applyOp, chainRel, Val.toBool, xI]
  try exact decide_eq_decide.mpr Iff.rfl
theorem evalB_eq (I : Interp) (a b : Term) : evalB I (.app .eq [a, b]) = decide (eval I a = eval I b) := by
  simp [evalB, eval, evalList, applyOp, allEqAdj, Val.toBool]

theorem holds_mk_strict (x) (l : Lin) : (Ineq.holds x ⟨l, true⟩) ↔ 0 < l.eval x := by simp [Ineq.holds]
theorem holds_mk_nonstrict (x) (l : Lin) : (Ineq.holds x ⟨l, false⟩) ↔ 0 ≤ l.eval x := by simp [Ineq.holds]

theorem itemOf_sound (I : Interp) (hI : I.WF) (atom : Term) (neg : Bool) (h : evalB I atom = !neg) :
    (itemOf atom neg).holds (xI I) := by
  unfold itemOf
  split
  · -- leq
    rename_i a b
    rw [evalB_leq] at h
    cases neg <;> simp at h <;> simp only [Bool.false_eq_true, if_false, if_true, Item.holds] <;> intro i hi <;>
      simp only [List.mem_singleton] at hi <;> subst hi <;> apply tighten_sound I hI
    · rw [holds_mk_nonstrict, Lin.eval_sub, linearize_sound, linearize_sound]; unfold xI at h; linarith
    · rw [holds_mk_strict, Lin.eval_sub, linearize_sound, linearize_sound]; unfold xI at h; linarith
  · rename_i a b
    rw [evalB_lt] at h
    cases neg <;> simp at h <;> simp only [Bool.false_eq_true, if_false, if_true, Item.holds] <;> intro i hi <;>
      simp only [List.mem_singleton] at hi <;> subst hi <;> apply tighten_sound I hI
    · rw [holds_mk_strict, Lin.eval_sub, linearize_sound, linearize_sound]; unfold xI at h; linarith
    · rw [holds_mk_nonstrict, Lin.eval_sub, linearize_sound, linearize_sound]; unfold xI at h; linarith
  · rename_i a b
    rw [evalB_geq] at h
    cases neg <;> simp at h <;> simp only [Bool.false_eq_true, if_false, if_true, Item.holds] <;> intro i hi <;>
      simp only [List.mem_singleton] at hi <;> subst hi <;> apply tighten_sound I hI
    · rw [holds_mk_nonstrict, Lin.eval_sub, linearize_sound, linearize_sound]; unfold xI at h; linarith
    · rw [holds_mk_strict, Lin.eval_sub, linearize_sound, linearize_sound]; unfold xI at h; linarith
  · rename_i a b
    rw [evalB_gt] at h
    cases neg <;> simp at h <;> simp only [Bool.false_eq_true, if_false, if_true, Item.holds] <;> intro i hi <;>
      simp only [List.mem_singleton] at hi <;> subst hi <;> apply tighten_sound I hI
    · rw [holds_mk_strict, Lin.eval_sub, linearize_sound, linearize_sound]; unfold xI at h; linarith
    · rw [holds_mk_nonstrict, Lin.eval_sub, linearize_sound, linearize_sound]; unfold xI at h; linarith
  · -- eq
    rename_i a b
    rw [evalB_eq] at h
    split
    · trivial
    · cases neg
      · simp at h
        simp only [Bool.false_eq_true, if_false, Item.holds]
        intro i hi
        simp only [List.mem_cons, List.mem_singleton, List.not_mem_nil, or_false] at hi
        rcases hi with rfl | rfl <;>
          rw [holds_mk_nonstrict, Lin.eval_sub, linearize_sound, linearize_sound, h] <;> simp
      · simp at h
        simp only [if_true]
        split
        · rename_i hnum
          simp only [Bool.and_eq_true] at hnum
          obtain ⟨qa, ha⟩ := isNum_eval I hI a hnum.1
          obtain ⟨qb, hb⟩ := isNum_eval I hI b hnum.2
          have hne : qa ≠ qb := by
            intro e; apply h; rw [ha, hb, e]
          simp only [Item.holds]
          rcases lt_or_gt_of_ne hne with hlt | hgt
          · right; apply tighten_sound I hI
            rw [holds_mk_strict, Lin.eval_sub, linearize_sound, linearize_sound, ha, hb]; simp [Val.toRat]; linarith
          · left; apply tighten_sound I hI
            rw [holds_mk_strict, Lin.eval_sub, linearize_sound, linearize_sound, ha, hb]; simp [Val.toRat]; linarith
        · trivial
  · trivial

/-- the combination evaluates to the weighted sum; it is ≥ 0, and > 0 if a strict one has positive weight -/
theorem combine_eval (x : Term → Rat) (cs : List (Ineq × Rat))
    (hpos : ∀ ik ∈ cs, 0 ≤ ik.2) (hh : ∀ ik ∈ cs, ik.1.holds x) :
    let r := combine cs
    0 ≤ r.1.eval x + r.2.1 ∧ (r.2.2 = true → 0 < r.1.eval x + r.2.1) := by
  induction cs with
  | nil => simp [combine, Poly.eval]
  | cons ik rest ih =>
    obtain ⟨i, k⟩ := ik
    have hk : 0 ≤ k := hpos (i, k) (by simp)
    have hi : i.holds x := hh (i, k) (by simp)
    have ih' := ih (fun a ha => hpos a (by simp [ha])) (fun a ha => hh a (by simp [ha]))
    simp only [combine]
    generalize combine rest = r at ih' ⊢
    obtain ⟨p, c, s⟩ := r
    simp only at ih' ⊢
    rw [eval_addScaled]
    unfold Ineq.holds Lin.eval at hi
    obtain ⟨h0, hs⟩ := ih'
    constructor
    · by_cases hst : i.strict = true
      · simp [hst] at hi; nlinarith
      · simp [hst] at hi; nlinarith
    · intro hor
      simp only [Bool.or_eq_true, Bool.and_eq_true, decide_eq_true_eq] at hor
      rcases hor with hs' | ⟨hst, hk'⟩
      · have := hs hs'
        by_cases hst : i.strict = true
        · simp [hst] at hi; nlinarith
        · simp [hst] at hi; nlinarith
      · simp [hst] at hi; nlinarith

theorem farkas_sound (cs : List (Ineq × Rat)) (h : farkasCheck cs = true) :
    ¬ ∃ x : Term → Rat, ∀ ik ∈ cs, ik.1.holds x := by
  rintro ⟨x, hx⟩
  unfold farkasCheck at h
  simp only [Bool.and_eq_true, List.all_eq_true, decide_eq_true_eq] at h
  obtain ⟨hpos, hrest⟩ := h
  have key := combine_eval x cs (fun ik hik => hpos ik hik) hx
  generalize combine cs = r at key hrest
  obtain ⟨p, c, s⟩ := r
  simp only at key hrest
  obtain ⟨hz, hc⟩ := hrest
  have hp : p.eval x = 0 := eval_zero_of_all_zero x p (by simpa [List.all_eq_true] using hz)
  rw [hp] at key
  cases s with
  | true => simp at hc; have := key.2 rfl; linarith
  | false => simp at hc; have := key.1; linarith

theorem refute_sound : ∀ (cert : Cert) (conj : List Ineq) (disjs : List (Ineq × Ineq)),
    refute conj disjs cert = true →
    ¬ ∃ x : Term → Rat, (∀ i ∈ conj, i.holds x) ∧ (∀ d ∈ disjs, d.1.holds x ∨ d.2.holds x)
  | .farkas ws, conj, disjs, h => by
    rintro ⟨x, hc, _⟩
    simp only [refute] at h
    exact farkas_sound _ h ⟨x, fun ik hik => hc ik.1 (List.of_mem_zip hik).1⟩
  | .split lo hi, conj, disjs, h => by
    rintro ⟨x, hc, hd⟩
    cases disjs with
    | nil => simp [refute] at h
    | cons d rest =>
      obtain ⟨a, b⟩ := d
      simp only [refute, Bool.and_eq_true] at h
      have hrest : ∀ d ∈ rest, d.1.holds x ∨ d.2.holds x := fun d hd' => hd d (by simp [hd'])
      rcases hd (a, b) (by simp) with ha | hb
      · exact refute_sound lo (a :: conj) rest h.1
          ⟨x, fun i hi => by rcases List.mem_cons.mp hi with rfl | hi; exact ha; exact hc i hi, hrest⟩
      · exact refute_sound hi (b :: conj) rest h.2
          ⟨x, fun i hi => by rcases List.mem_cons.mp hi with rfl | hi; exact hb; exact hc i hi, hrest⟩

theorem collect_holds (x : Term → Rat) : ∀ (items : List Item), (∀ it ∈ items, it.holds x) →
    (∀ i ∈ (collect items).1, i.holds x) ∧ (∀ d ∈ (collect items).2, d.1.holds x ∨ d.2.holds x)
  | [], _ => by simp [collect]
  | it :: r, h => by
    have ih := collect_holds x r (fun i hi => h i (by simp [hi]))
    have hit := h it (by simp)
    cases it with
    | conj is =>
      simp only [collect]
      refine ⟨fun i hi => ?_, ih.2⟩
      rcases List.mem_append.mp hi with h1 | h1
      · exact hit i h1
      · exact ih.1 i h1
    | disj a b =>
      simp only [collect]
      refine ⟨ih.1, fun d hd => ?_⟩
      rcases List.mem_cons.mp hd with rfl | h1
      · exact hit
      · exact ih.2 d h1
    | skip => simpa [collect] using ih

/-- **LA clause validity**: a clause accepted by `laClauseCheck` has a true literal in every well-formed
interpretation (integers for `Int` symbols, arbitrary values for foreign subterms). -/
theorem laClauseCheck_sound (lits : List (Term × Bool)) (cert : Cert) (h : laClauseCheck lits cert = true)
    (I : Interp) (hI : I.WF) : ∃ l ∈ lits, evalB I l.1 = !l.2 := by
  apply Classical.byContradiction
  intro hno
  have hall : ∀ l ∈ lits, evalB I l.1 = !(!l.2) := by
    intro l hl
    have : ¬ evalB I l.1 = !l.2 := fun e => hno ⟨l, hl, e⟩
    cases h1 : evalB I l.1 <;> cases h2 : l.2 <;> simp_all
  unfold laClauseCheck at h
  simp only at h
  have hitems : ∀ it ∈ lits.map (fun l => itemOf l.1 (!l.2)), it.holds (xI I) := by
    intro it hit
    obtain ⟨l, hl, rfl⟩ := List.mem_map.mp hit
    exact itemOf_sound I hI l.1 (!l.2) (hall l hl)
  have hc := collect_holds (xI I) _ hitems
  generalize collect (lits.map (fun l => itemOf l.1 (!l.2))) = cd at h hc
  obtain ⟨c, d⟩ := cd
  exact refute_sound cert c d h ⟨xI I, hc.1, hc.2⟩

end Osmt.LA

namespace Osmt.LA
open Osmt
/-- **C26**: bounds accepted by `conflictCheck` with their coefficients are jointly unsatisfiable (over ℚ, and
over ℤ for `Int` symbols): no well-formed interpretation makes all of them true. -/
theorem conflictCheck_sound (lits : List (Term × Bool)) (ws : List Rat) (h : conflictCheck lits ws = true) :
    ¬ ∃ I : Interp, I.WF ∧ ∀ l ∈ lits, evalB I l.1 = !l.2 := by
  rintro ⟨I, hI, hall⟩
  unfold conflictCheck at h
  have hitems : ∀ it ∈ lits.map (fun l => itemOf l.1 l.2), it.holds (xI I) := by
    intro it hit
    obtain ⟨l, hl, rfl⟩ := List.mem_map.mp hit
    exact itemOf_sound I hI l.1 l.2 (hall l hl)
  have hc := collect_holds (xI I) _ hitems
  generalize collect (lits.map (fun l => itemOf l.1 l.2)) = cd at h hc
  obtain ⟨c, d⟩ := cd
  simp only [Bool.and_eq_true] at h
  exact farkas_sound _ h.2 ⟨xI I, fun ik hik => hc.1 ik.1 (List.of_mem_zip hik).1⟩
/-- the inequality a combination stands for -/
def combHolds (x : Term → Rat) (r : Poly × Rat × Bool) : Prop :=
  if r.2.2 then 0 < r.1.eval x + r.2.1 else 0 ≤ r.1.eval x + r.2.1

/-- extending a combination by constraints that hold keeps it true: the step behind path interpolants of Farkas leaves -/
theorem combine_extend (x : Term → Rat) (mid rest : List (Ineq × Rat))
    (hpos : ∀ ik ∈ mid, 0 ≤ ik.2) (hh : ∀ ik ∈ mid, ik.1.holds x) (hr : combHolds x (combine rest)) :
    combHolds x (combine (mid ++ rest)) := by
  induction mid with
  | nil => simpa using hr
  | cons ik tl ih =>
    obtain ⟨i, k⟩ := ik
    have hk : 0 ≤ k := hpos (i, k) (by simp)
    have hi : i.holds x := hh (i, k) (by simp)
    have ih' := ih (fun a ha => hpos a (by simp [ha])) (fun a ha => hh a (by simp [ha]))
    simp only [List.cons_append, combine]
    generalize combine (tl ++ rest) = r at ih' ⊢
    obtain ⟨p, c, s⟩ := r
    unfold combHolds at ih' ⊢
    simp only at ih' ⊢
    rw [eval_addScaled]
    unfold Ineq.holds Lin.eval at hi
    cases s <;> by_cases hst : i.strict = true <;> by_cases hk' : 0 < k <;>
      simp [hst, hk'] at hi ih' ⊢ <;> nlinarith

end Osmt.LA
