import Osmt.Pipe
/-! Properties of the pipe-mode scanner for all byte strings and chunkings (C20). -/
namespace Osmt.Pipe

/-- **chunk independence**: however the input is split across reads, the scanner ends in the same state (same
emitted commands, same error flag, same pending bytes) -/
theorem chunk_independent (s : St) (chunks : List (List Char)) : runChunks s chunks = run s chunks.flatten := by
  induction chunks generalizing s with
  | nil => rfl
  | cons c cs ih =>
    simp only [runChunks, List.foldl_cons, List.flatten_cons] at *
    rw [ih (run s c)]
    simp [run, List.foldl_append]

theorem two_chunkings_agree (s : St) (c1 c2 : List (List Char)) (h : c1.flatten = c2.flatten) :
    runChunks s c1 = runChunks s c2 := by
  rw [chunk_independent, chunk_independent, h]

/-- emitted commands are never retracted or altered by later input -/
theorem feed_frames_prefix (s : St) (c : Char) : ∃ more, (feed s c).frames = s.frames ++ more := by
  unfold feed
  split
  · exact ⟨[], by simp⟩
  · simp only
    split
    · exact ⟨[], by simp⟩
    split
    · exact ⟨[], by simp⟩
    split
    · exact ⟨[], by simp⟩
    split
    · refine ⟨[], ?_⟩
      split
      · simp
      · split <;> simp
    split
    · exact ⟨[], by simp⟩
    split
    · exact ⟨[], by simp⟩
    split
    · split
      · exact ⟨[s.pending ++ [c]], rfl⟩
      · split
        · exact ⟨[], by simp⟩
        · exact ⟨[], by simp⟩
    · exact ⟨[], by simp⟩

theorem run_frames_prefix (bytes : List Char) : ∀ s : St, ∃ more, (run s bytes).frames = s.frames ++ more := by
  induction bytes with
  | nil => intro s; exact ⟨[], by simp [run]⟩
  | cons c r ih =>
    intro s
    obtain ⟨m1, h1⟩ := feed_frames_prefix s c
    obtain ⟨m2, h2⟩ := ih (feed s c)
    refine ⟨m1 ++ m2, ?_⟩
    simp only [run, List.foldl_cons] at h2 ⊢
    rw [h2, h1, List.append_assoc]

/-- the depth stays non-negative until an unbalanced parenthesis is reported -/
theorem feed_par_nonneg (s : St) (c : Char) (h : 0 ≤ s.par) :
    (feed s c).unbalanced = true ∨ 0 ≤ (feed s c).par := by
  unfold feed
  split
  · right; exact h
  · simp only
    split
    · right; exact h
    split
    · right; exact h
    split
    · right; exact h
    split
    · right
      split
      · exact h
      · split <;> exact h
    split
    · right; exact h
    split
    · right; show 0 ≤ s.par + 1; omega
    split
    · split
      · right; simp
      · split
        · left; rfl
        · rename_i hp
          right
          show 0 ≤ s.par - 1
          simp at hp; omega
    · right; exact h

theorem run_par_nonneg (bytes : List Char) : ∀ s : St, 0 ≤ s.par →
    (run s bytes).unbalanced = true ∨ 0 ≤ (run s bytes).par := by
  induction bytes with
  | nil => intro s h; right; exact h
  | cons c r ih =>
    intro s h
    simp only [run, List.foldl_cons]
    rcases feed_par_nonneg s c h with hu | hp
    · left
      have : ∀ (bs : List Char) (t : St), t.unbalanced = true → (bs.foldl feed t).unbalanced = true := by
        intro bs
        induction bs with
        | nil => intro t ht; exact ht
        | cons b bs ihb => intro t ht; simp only [List.foldl_cons]; apply ihb; simp [feed, ht]
      exact this r _ hu
    · exact ih _ hp

/-- splitting the input at a point where the scanner is idle: the commands of the whole are the commands of the
parts -/
theorem run_append (s : St) (a b : List Char) : run s (a ++ b) = run (run s a) b := by
  simp [run, List.foldl_append]

end Osmt.Pipe
