import Mathlib.Data.Int.GCD
import Mathlib.Data.Nat.GCD.Basic
import Mathlib.Tactic.Ring
import Mathlib.Tactic.Linarith
/-! Knuth 4.5.1: adding reduced fractions over the lcm of the denominators leaves at most `gcd b d` to cancel.
This is why storing `gcd(|n|, d)` in a 32-bit word in `FastRational::addition` loses nothing. -/
namespace Osmt.FR

theorem coprime_of_dvd_combo (s : ℕ) (x y : ℤ) (u v w : ℕ)
    (hs_u : s ∣ u) (hn : (s : ℤ) ∣ x * v + y * u) (huv : Nat.Coprime u v) (hxw : Int.gcd x w = 1) (huw : u ∣ w) :
    s = 1 := by
  -- s ∣ x * v
  have h1 : (s : ℤ) ∣ y * u := Dvd.dvd.mul_left (Int.natCast_dvd_natCast.mpr hs_u) y
  have h2 : (s : ℤ) ∣ x * v := (Int.dvd_add_left h1).mp hn
  have h3 : s ∣ x.natAbs * v := by
    have := Int.natCast_dvd.mp h2
    rwa [Int.natAbs_mul, Int.natAbs_natCast] at this
  have hsv : Nat.Coprime s v := Nat.Coprime.coprime_dvd_left hs_u huv
  have h4 : s ∣ x.natAbs := Nat.Coprime.dvd_of_dvd_mul_right hsv h3
  have h5 : s ∣ w := dvd_trans hs_u huw
  have h6 : s ∣ Nat.gcd x.natAbs w := Nat.dvd_gcd h4 h5
  have h7 : Nat.gcd x.natAbs w = 1 := by simpa [Int.gcd] using hxw
  rw [h7] at h6
  exact Nat.dvd_one.mp h6

theorem knuth_gcd_dvd (a c : ℤ) (b d : ℕ) (hb : 0 < b) (hd : 0 < d)
    (hab : Int.gcd a b = 1) (hcd : Int.gcd c d = 1) :
    Nat.gcd (a * ((d / Nat.gcd b d : ℕ) : ℤ) + c * ((b / Nat.gcd b d : ℕ) : ℤ)).natAbs (b * (d / Nat.gcd b d))
      ∣ Nat.gcd b d := by
  have hgpos : 0 < Nat.gcd b d := Nat.gcd_pos_of_pos_left d hb
  obtain ⟨b', hb'⟩ : Nat.gcd b d ∣ b := Nat.gcd_dvd_left b d
  obtain ⟨d', hd'⟩ : Nat.gcd b d ∣ d := Nat.gcd_dvd_right b d
  have hbg : b / Nat.gcd b d = b' := Nat.div_eq_of_eq_mul_right hgpos hb'
  have hdg : d / Nat.gcd b d = d' := Nat.div_eq_of_eq_mul_right hgpos hd'
  have hcop : Nat.Coprime b' d' := by
    have := Nat.coprime_div_gcd_div_gcd (m := b) (n := d) hgpos
    rwa [hbg, hdg] at this
  rw [hbg, hdg]
  generalize hg : Nat.gcd b d = g at *
  set n : ℤ := a * (d' : ℤ) + c * (b' : ℤ) with hn
  set t := Nat.gcd n.natAbs (b * d') with ht
  have htn : (t : ℤ) ∣ n := Int.natCast_dvd.mpr (Nat.gcd_dvd_left _ _)
  have htD : t ∣ b * d' := Nat.gcd_dvd_right _ _
  -- t is coprime to b'
  have h1 : Nat.Coprime t b' := by
    have hs : Nat.gcd t b' = 1 := by
      apply coprime_of_dvd_combo (Nat.gcd t b') a c b' d' b (Nat.gcd_dvd_right _ _)
      · exact dvd_trans (Int.natCast_dvd_natCast.mpr (Nat.gcd_dvd_left _ _)) htn
      · exact hcop
      · exact hab
      · exact ⟨g, by rw [hb']; ring⟩
    exact hs
  -- t is coprime to d'
  have h2 : Nat.Coprime t d' := by
    have hs : Nat.gcd t d' = 1 := by
      apply coprime_of_dvd_combo (Nat.gcd t d') c a d' b' d (Nat.gcd_dvd_right _ _)
      · have := dvd_trans (Int.natCast_dvd_natCast.mpr (Nat.gcd_dvd_left t d')) htn
        rw [hn] at this
        rwa [add_comm] at this
      · exact hcop.symm
      · exact hcd
      · exact ⟨g, by rw [hd']; ring⟩
    exact hs
  have h3 : t ∣ (g * b') * d' := by rw [← hb']; exact htD
  have h4 : t ∣ g * b' := Nat.Coprime.dvd_of_dvd_mul_right h2 h3
  exact Nat.Coprime.dvd_of_dvd_mul_right h1 h4

end Osmt.FR
