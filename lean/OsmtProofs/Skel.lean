import Osmt.Skel
/-! Soundness of three-valued evaluation and of input-clause acceptance. -/
namespace Osmt

def PAssign.Agrees (I : Interp) (p : PAssign) : Prop := ∀ e ∈ p, eval I e.1 = .b e.2

inductive All2 {α β : Type} (R : α → β → Prop) : List α → List β → Prop
  | nil : All2 R [] []
  | cons {a b as bs} : R a b → All2 R as bs → All2 R (a :: as) (b :: bs)

/-- pointwise: a known three-valued result is the actual value -/
def Rel3 (ob : Option Bool) (v : Val) : Prop := ∀ b, ob = some b → v = .b b

theorem get_sound {I : Interp} {p : PAssign} {t : Term} {b : Bool} (hp : p.Agrees I)
    (h : p.get t = some b) : eval I t = .b b := by
  unfold PAssign.get at h
  split at h
  · rename_i e he
    have hmem := List.mem_of_find?_eq_some he
    have heq := List.find?_some he
    simp only [decide_eq_true_eq] at heq
    simp only [Option.some.injEq] at h
    rw [← heq, ← h]; exact hp e hmem
  · simp at h

theorem and3_sound : ∀ (obs : List (Option Bool)) (vs : List Val), All2 Rel3 obs vs →
    ∀ b, and3 obs = some b → vs.all Val.toBool = b
  | [], [], _, b, h => by simp [and3] at h; simp [h]
  | x :: r, v :: vs, hf, b, h => by
    cases hf with
    | cons hx hr =>
      have ih := and3_sound r vs hr
      simp only [and3] at h
      simp only [List.all_cons]
      cases x with
      | none =>
        cases hr3 : and3 r with
        | none => simp [hr3] at h
        | some rb =>
          cases rb with
          | false => simp [hr3] at h; subst h; simp [ih false hr3]
          | true => simp [hr3] at h
      | some xb =>
        have hv := hx xb rfl
        cases xb with
        | false => simp at h; subst h; simp [hv, Val.toBool]
        | true =>
          cases hr3 : and3 r with
          | none => simp [hr3] at h
          | some rb =>
            cases rb with
            | false => simp [hr3] at h; subst h; simp [ih false hr3]
            | true => simp [hr3] at h; subst h; simp [hv, Val.toBool, ih true hr3]

theorem or3_sound : ∀ (obs : List (Option Bool)) (vs : List Val), All2 Rel3 obs vs →
    ∀ b, or3 obs = some b → vs.any Val.toBool = b
  | [], [], _, b, h => by simp [or3] at h; simp [h]
  | x :: r, v :: vs, hf, b, h => by
    cases hf with
    | cons hx hr =>
      have ih := or3_sound r vs hr
      simp only [or3] at h
      simp only [List.any_cons]
      cases x with
      | none =>
        cases hr3 : or3 r with
        | none => simp [hr3] at h
        | some rb =>
          cases rb with
          | true => simp [hr3] at h; subst h; simp [ih true hr3]
          | false => simp [hr3] at h
      | some xb =>
        have hv := hx xb rfl
        cases xb with
        | true => simp at h; subst h; simp [hv, Val.toBool]
        | false =>
          cases hr3 : or3 r with
          | none => simp [hr3] at h
          | some rb =>
            cases rb with
            | true => simp [hr3] at h; subst h; simp [ih true hr3]
            | false => simp [hr3] at h; subst h; simp [hv, Val.toBool, ih false hr3]

theorem conn3_sound (I : Interp) (o : Op) (obs : List (Option Bool)) (vs : List Val)
    (hf : All2 Rel3 obs vs) (b : Bool) (h : conn3 o obs = some b) :
    applyOp I o vs = .b b := by
  unfold conn3 at h
  split at h
  all_goals try (simp at h; done)
  · cases hf; simp at h; subst h; rfl
  · cases hf; simp at h; subst h; rfl
  · -- not
    cases hf with | cons hx hr => cases hr; simp at h; subst h; simp [applyOp, hx _ rfl, Val.toBool]
  · simp [applyOp, and3_sound _ _ hf b h]
  · simp [applyOp, or3_sound _ _ hf b h]
  · -- xor
    cases hf with | cons hx hr => cases hr with | cons hy hr2 =>
      cases hr2; simp at h; subst h; simp [applyOp, hx _ rfl, hy _ rfl, Val.toBool]
  · -- imp false _
    cases hf with | cons hx hr => cases hr with | cons hy hr2 =>
      cases hr2; simp at h; subst h; simp [applyOp, hx _ rfl, Val.toBool]
  · -- imp _ true
    cases hf with | cons hx hr => cases hr with | cons hy hr2 =>
      cases hr2; simp at h; subst h; simp [applyOp, hy _ rfl, Val.toBool]
  · -- imp true false
    cases hf with | cons hx hr => cases hr with | cons hy hr2 =>
      cases hr2; simp at h; subst h; simp [applyOp, hx _ rfl, hy _ rfl, Val.toBool]
  · -- eq
    cases hf with | cons hx hr => cases hr with | cons hy hr2 =>
      cases hr2; simp at h; subst h
      rename_i x y _ _
      cases x <;> cases y <;> simp [applyOp, hx _ rfl, hy _ rfl, allEqAdj]
  · -- ite true
    cases hf with | cons hx hr => cases hr with | cons hy hr2 => cases hr2 with | cons hz hr3 =>
      cases hr3; simp at h; subst h; simp [applyOp, hx _ rfl, hy _ rfl, Val.toBool]
  · -- ite false
    cases hf with | cons hx hr => cases hr with | cons hy hr2 => cases hr2 with | cons hz hr3 =>
      cases hr3; simp at h; subst h; simp [applyOp, hx _ rfl, hz _ rfl, Val.toBool]
  · -- ite none a a
    cases hf with | cons hx hr => cases hr with | cons hy hr2 => cases hr2 with | cons hz hr3 =>
      cases hr3
      split at h
      · rename_i hab; simp at h; subst h; subst hab
        simp only [applyOp, hy _ rfl, hz _ rfl]; split <;> rfl
      · simp at h

mutual
  theorem eval3_sound (I : Interp) (p : PAssign) (hp : p.Agrees I) :
      ∀ (t : Term) (b : Bool), eval3 p t = some b → eval I t = .b b
    | .app o as, b, h => by
      simp only [eval3] at h
      split at h
      · rename_i b' hg; simp at h; subst h; exact get_sound hp hg
      · simp only [eval]
        exact conn3_sound I o _ _ (eval3List_sound I p hp as) b h
  theorem eval3List_sound (I : Interp) (p : PAssign) (hp : p.Agrees I) :
      ∀ (ts : List Term), All2 Rel3 (eval3List p ts) (evalList I ts)
    | [] => by simp only [eval3List, evalList]; exact All2.nil
    | t :: r => by
      simp only [eval3List, evalList]
      exact All2.cons (fun b hb => eval3_sound I p hp t b hb) (eval3List_sound I p hp r)
end

theorem struct3_sound (I : Interp) (p : PAssign) (hp : p.Agrees I) (t : Term) (b : Bool)
    (h : struct3 p t = some b) : eval I t = .b b := by
  cases t with
  | app o as =>
    simp only [struct3] at h
    simp only [eval]
    exact conn3_sound I o _ _ (eval3List_sound I p hp as) b h

/-- Boolean terms evaluate to Boolean values in well-formed interpretations. -/
theorem isBool_eval (I : Interp) (hI : I.WF) : ∀ (t : Term), t.isBool = true → ∃ x, eval I t = .b x
  | .app o as, h => by
    cases o
    case ite =>
      cases as with
      | nil => exact ⟨false, by simp [eval, evalList, applyOp]⟩
      | cons c r =>
        cases r with
        | nil => exact ⟨false, by simp [eval, evalList, applyOp]⟩
        | cons a r2 =>
          cases r2 with
          | nil => exact ⟨false, by simp [eval, evalList, applyOp]⟩
          | cons b r3 =>
            cases r3 with
            | nil =>
              simp [Term.isBool] at h
              obtain ⟨xa, ha⟩ := isBool_eval I hI a h.1
              obtain ⟨xb, hb⟩ := isBool_eval I hI b h.2
              simp only [eval, evalList, applyOp]
              split
              · exact ⟨xa, ha⟩
              · exact ⟨xb, hb⟩
            | cons d r4 => exact ⟨false, by simp [eval, evalList, applyOp]⟩
    case var id s =>
      simp [Term.isBool] at h; subst h
      have := hI.1 id .bool
      simp only [eval, applyOp]
      cases hv : I.var id .bool <;> simp [hv, Val.hasSort] at this ⊢
    case uf id s =>
      simp [Term.isBool] at h; subst h
      have := hI.2 id .bool (evalList I as)
      simp only [eval, applyOp]
      cases hv : I.uf id .bool (evalList I as) <;> simp [hv, Val.hasSort] at this ⊢
    all_goals first
      | (simp only [eval]; exact ⟨_, rfl⟩)
      | (simp [Term.isBool] at h; done)

/-- falsifying a clause that is false under the induced assignment gives an agreeing term assignment -/
theorem falsify_agrees (vm : VarMap) (I : Interp) (hI : I.WF) : ∀ (c : Clause) (p : PAssign),
    falsify vm c = some p → Clause.eval (inducedAsg vm I) c = false → p.Agrees I
  | [], p, h, _ => by simp [falsify] at h; subst h; intro e he; simp at he
  | l :: r, p, h, hc => by
    simp only [falsify] at h
    split at h
    · rename_i t p' ht hp'
      split at h
      · rename_i hb
        simp only [Option.some.injEq] at h; subst h
        simp only [Clause.eval, List.any_cons, Bool.or_eq_false_iff] at hc
        have ih := falsify_agrees vm I hI r p' hp' (by simpa [Clause.eval] using hc.2)
        intro e he
        rcases List.mem_cons.mp he with rfl | he
        · obtain ⟨x, hx⟩ := isBool_eval I hI t hb
          have h1 := hc.1
          simp only [Lit.eval, inducedAsg, ht, evalB, hx, Val.toBool] at h1
          simp only [hx]
          cases hn : l.neg <;> simp [hn] at h1 ⊢ <;> exact h1
        · exact ih e he
      · simp at h
    · simp at h

/-- **Input-clause acceptance is sound**: if `inputOk` accepts `c` for `root`, then every well-formed
interpretation that makes `root` true makes `c` true under the induced propositional assignment. -/
theorem inputOk_sound (vm : VarMap) (root : Term) (c : Clause) (h : inputOk vm root c = true)
    (I : Interp) (hI : I.WF) (hr : evalB I root = true) : Clause.eval (inducedAsg vm I) c = true := by
  cases hc : Clause.eval (inducedAsg vm I) c with
  | true => rfl
  | false =>
    exfalso
    unfold inputOk at h
    split at h
    · simp at h
    · rename_i p hp
      have hag := falsify_agrees vm I hI c p hp hc
      simp only [Bool.or_eq_true, beq_iff_eq, List.any_eq_true] at h
      rcases h with (h | ⟨e, he, h⟩) | ⟨e, he, h⟩
      · have := eval3_sound I p hag root false h
        simp [evalB, this, Val.toBool] at hr
      · have h1 := struct3_sound I p hag e.1 (!e.2) h
        have h2 := hag e he
        rw [h1] at h2
        cases hh : e.2 <;> simp [hh] at h2
      · have h1 := get_sound hag h
        have h2 := hag e he
        rw [h1] at h2
        cases hh : e.2 <;> simp [hh] at h2

end Osmt
