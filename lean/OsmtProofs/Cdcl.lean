import Osmt.Cdcl
import OsmtProofs.Prop
/-! Invariant and answer soundness of the clause-learning machine, for all event sequences. -/
namespace Osmt.Cdcl
open Osmt

/-- every clause of the database is a consequence of the axioms -/
def Inv (s : State) : Prop := ∀ σ, satisfies σ s.axioms → satisfies σ s.db

theorem inv_init (fuel : Nat) : Inv { fuel := fuel } := by
  intro σ _ c hc; simp at hc

theorem step_inv {s s' : State} {e : Event} (h : step? s e = some s') (hi : Inv s) : Inv s' := by
  cases e with
  | axiom_ c =>
    simp only [step?, Option.some.injEq] at h; subst h
    intro σ hax d hd
    have hax' : satisfies σ s.axioms := fun x hx => hax x (by simp [hx])
    rcases List.mem_cons.mp hd with rfl | hd
    · exact hax _ (by simp)
    · exact hi σ hax' d hd
  | learn c =>
    simp only [step?] at h
    split at h
    · rename_i hr
      simp only [Option.some.injEq] at h; subst h
      intro σ hax d hd
      rcases List.mem_cons.mp hd with rfl | hd
      · exact rup_sound hr σ (hi σ hax)
      · exact hi σ hax d hd
    · simp at h
  | answer a =>
    cases a with
    | sat m => simp only [step?] at h; split at h <;> simp at h; subst h; exact hi
    | unsat as => simp only [step?] at h; split at h <;> simp at h; subst h; exact hi
    | unknown => simp only [step?, Option.some.injEq] at h; subst h; exact hi

theorem step_fuel {s s' : State} {e : Event} (h : step? s e = some s') : s'.fuel = s.fuel := by
  cases e with
  | axiom_ c => simp only [step?, Option.some.injEq] at h; subst h; rfl
  | learn c => simp only [step?] at h; split at h <;> simp at h; subst h; rfl
  | answer a =>
    cases a with
    | sat m => simp only [step?] at h; split at h <;> simp at h; subst h; rfl
    | unsat as => simp only [step?] at h; split at h <;> simp at h; subst h; rfl
    | unknown => simp only [step?, Option.some.injEq] at h; subst h; rfl

/-- **C12 / C01 core**: in every reachable state of every accepted event sequence each database clause is
implied by the axioms. -/
theorem run_inv : ∀ (evs : List Event) (s s' : State), run s evs = some s' → Inv s → Inv s'
  | [], s, s', h, hi => by simp only [run, Option.some.injEq] at h; subst h; exact hi
  | e :: es, s, s', h, hi => by
    simp only [run] at h
    split at h
    · simp at h
    · rename_i s1 hs; exact run_inv es s1 s' h (step_inv hs hi)

/-- an accepted `unsat` answer: no assignment satisfies the axioms together with the assumptions -/
theorem step_unsat_sound {s s' : State} {as : List Lit} (hi : Inv s)
    (h : step? s (.answer (.unsat as)) = some s') :
    ¬ ∃ σ, satisfies σ s.axioms ∧ ∀ l ∈ as, l.eval σ = true := by
  rintro ⟨σ, hax, hl⟩
  simp only [step?] at h
  split at h
  · rename_i hr
    have := rup_sound hr σ (hi σ hax)
    simp only [Clause.eval, List.any_eq_true, List.mem_map] at this
    obtain ⟨l, ⟨l0, hl0, rfl⟩, hlt⟩ := this
    have := hl l0 hl0
    simp [this] at hlt
  · simp at h

/-- an accepted `sat` answer exhibits an assignment satisfying every axiom -/
theorem step_sat_sound {s s' : State} {m : List Lit}
    (h : step? s (.answer (.sat m)) = some s') :
    ∃ σ, satisfies σ s.axioms ∧ agrees σ m := by
  simp only [step?] at h
  split at h
  · rename_i hc
    simp only [Bool.and_eq_true, List.all_eq_true] at hc
    obtain ⟨hall, hcons⟩ := hc
    let σ : Asg := fun v => m.contains ⟨v, false⟩
    have hag : agrees σ m := by
      intro l hl
      cases l with | mk v n =>
      cases n with
      | false => simp [Lit.eval, σ, hl]
      | true =>
        have := hcons _ hl
        simp [Lit.not] at this
        simp [Lit.eval, σ, this]
    exact ⟨σ, fun c hc => modelSat_sound (hall c hc) σ hag, hag⟩
  · simp at h

/-- last answer of a run, with the state in which it was given -/
theorem run_unsat_sound : ∀ (evs : List Event) (s s' : State) (as : List Lit),
    Inv s → run s (evs ++ [.answer (.unsat as)]) = some s' →
    ∃ s1, run s evs = some s1 ∧ ¬ ∃ σ, satisfies σ s1.axioms ∧ ∀ l ∈ as, l.eval σ = true
  | [], s, s', as, hi, h => by
    simp only [List.nil_append, run] at h
    split at h
    · simp at h
    · rename_i s1 hs; exact ⟨s, rfl, step_unsat_sound hi hs⟩
  | e :: es, s, s', as, hi, h => by
    simp only [List.cons_append, run] at h
    split at h
    · simp at h
    · rename_i s1 hs
      obtain ⟨s2, h2, h3⟩ := run_unsat_sound es s1 s' as (step_inv hs hi) h
      exact ⟨s2, by simp [run, hs, h2], h3⟩

end Osmt.Cdcl
