import Osmt.Store
/-! Hash-consing: same node, same identity; different identities, different nodes; arguments come first. -/
namespace Osmt.Store

theorem findIdx_some_get (st : Store) (n : Node) (i : Nat) (h : st.findIdx? (· == n) = some i) : st[i]? = some n := by
  rw [List.findIdx?_eq_some_iff_getElem] at h
  obtain ⟨hi, hp, _⟩ := h
  simp only [beq_iff_eq] at hp
  rw [List.getElem?_eq_getElem hi, hp]

theorem findIdx_none_not_mem (st : Store) (n : Node) (h : st.findIdx? (· == n) = none) : n ∉ st := by
  rw [List.findIdx?_eq_none_iff] at h
  intro hm
  have := h n hm
  simp at this

/-- the returned identity holds the node -/
theorem intern_get (st : Store) (n : Node) : (intern st n).1[(intern st n).2]? = some n := by
  unfold intern
  split
  · rename_i i h; exact findIdx_some_get st n i h
  · simp

/-- identities already given keep their nodes -/
theorem intern_prefix (st : Store) (n : Node) : ∃ r, (intern st n).1 = st ++ r := by
  unfold intern
  split
  · exact ⟨[], by simp⟩
  · exact ⟨[n], rfl⟩

/-- building the same node again gives the same identity and leaves the store as it is -/
theorem intern_again (st : Store) (n : Node) :
    intern (intern st n).1 n = ((intern st n).1, (intern st n).2) := by
  cases h : st.findIdx? (· == n) with
  | some i => simp [intern, h]
  | none =>
    have this : (st ++ [n]).findIdx? (· == n) = some st.length := by
      rw [List.findIdx?_append, h]
      simp
    simp [intern, h, this]

theorem intern_inv (st : Store) (n : Node) (hinv : Inv st) (hargs : ∀ a ∈ n.args, a < st.length) :
    Inv (intern st n).1 := by
  unfold intern
  split
  · exact hinv
  · rename_i h
    have hn := findIdx_none_not_mem st n h
    refine ⟨?_, ?_⟩
    · rw [List.nodup_append]
      refine ⟨hinv.1, by simp, ?_⟩
      intro a ha b hb
      simp only [List.mem_singleton] at hb
      subst hb
      intro e; exact hn (e ▸ ha)
    · intro i m hi a ha
      by_cases hlt : i < st.length
      · rw [List.getElem?_append_left hlt] at hi
        exact hinv.2 i m hi a ha
      · have hlen : i = st.length := by
          have : i < (st ++ [n]).length := by
            rcases Nat.lt_or_ge i (st ++ [n]).length with h' | h'
            · exact h'
            · rw [List.getElem?_eq_none h'] at hi; simp at hi
          simp at this; omega
        subst hlen
        simp at hi
        subst hi
        exact hargs a ha

/-- different identities denote different nodes -/
theorem distinct_ids_distinct_nodes (st : Store) (hinv : Inv st) (i j : Nat) (a b : Node)
    (hi : st[i]? = some a) (hj : st[j]? = some b) (hne : i ≠ j) : a ≠ b := by
  intro e
  subst e
  have hil : i < st.length := by
    rcases Nat.lt_or_ge i st.length with h' | h'
    · exact h'
    · rw [List.getElem?_eq_none h'] at hi; simp at hi
  exact hne ((List.getElem?_inj hil hinv.1).mp (hi.trans hj.symm))

/-- a commutative symbol is insensitive to the order of its arguments -/
theorem normal_perm (comm : Nat → Bool) (s : Nat) (xs ys : List Nat) (hc : comm s = true) (hp : xs.Perm ys) :
    normal comm ⟨s, xs⟩ = normal comm ⟨s, ys⟩ := by
  simp only [normal, hc, if_true, Node.mk.injEq, true_and]
  have h1 : (xs.mergeSort (· ≤ ·)).Pairwise (· ≤ ·) := by
    have := List.pairwise_mergeSort (le := fun a b : Nat => decide (a ≤ b)) (by intro a b c; simp; omega) (by intro a b; simp; omega) xs
    simpa using this
  have h2 : (ys.mergeSort (· ≤ ·)).Pairwise (· ≤ ·) := by
    have := List.pairwise_mergeSort (le := fun a b : Nat => decide (a ≤ b)) (by intro a b c; simp; omega) (by intro a b; simp; omega) ys
    simpa using this
  have hperm : (xs.mergeSort (· ≤ ·)).Perm (ys.mergeSort (· ≤ ·)) :=
    (List.mergeSort_perm xs _).trans (hp.trans (List.mergeSort_perm ys _).symm)
  exact hperm.eq_of_pairwise (fun a b _ _ hab hba => Nat.le_antisymm hab hba) h1 h2

theorem mk_perm (comm : Nat → Bool) (st : Store) (s : Nat) (xs ys : List Nat) (hc : comm s = true) (hp : xs.Perm ys) :
    mk comm st ⟨s, xs⟩ = mk comm st ⟨s, ys⟩ := by
  simp only [mk, normal_perm comm s xs ys hc hp]

theorem normal_args_perm (comm : Nat → Bool) (n : Node) : (normal comm n).args.Perm n.args := by
  unfold normal
  split
  · exact List.mergeSort_perm _ _
  · exact List.Perm.refl _

/-- every reachable store satisfies the invariant: construct from the empty store with arguments that exist -/
theorem mk_inv (comm : Nat → Bool) (st : Store) (n : Node) (hinv : Inv st) (hargs : ∀ a ∈ n.args, a < st.length) :
    Inv (mk comm st n).1 := by
  apply intern_inv st _ hinv
  intro a ha
  exact hargs a ((normal_args_perm comm n).mem_iff.mp ha)

theorem inv_nil : Inv ([] : Store) := ⟨List.nodup_nil, by intro i n h; simp at h⟩

end Osmt.Store
