import Osmt.Prop
/-! Soundness of the RUP kernel. -/
namespace Osmt

@[simp] theorem Lit.eval_not (σ : Asg) (l : Lit) : (l.not).eval σ = !(l.eval σ) := by
  cases l with | mk v n => cases n <;> simp [Lit.not, Lit.eval]

theorem isFalse_of_agrees {σ p l} (h : agrees σ p) (hf : PA.isFalse p l = true) : l.eval σ = false := by
  have : l.not ∈ p := by simpa [PA.isFalse] using hf
  have := h _ this
  simpa using this

theorem examine_sound {σ p c} (hσ : agrees σ p) (hc : Clause.eval σ c = true) :
    match examine p c with
    | .conflict => False
    | .unit l => l.eval σ = true
    | .none => True := by
  obtain ⟨l, hl, hlt⟩ : ∃ l ∈ c, l.eval σ = true := by simpa [Clause.eval] using hc
  have hnf : PA.isFalse p l = false := by
    cases h : PA.isFalse p l with
    | false => rfl
    | true => have := isFalse_of_agrees hσ h; simp [this] at hlt
  have hmem : l ∈ c.filter (fun l => !p.isFalse l) := by simp [List.mem_filter, hl, hnf]
  unfold examine
  by_cases hany : c.any p.isTrue = true
  · simp [hany]
  · simp only [hany]
    cases hf : c.filter (fun l => !p.isFalse l) with
    | nil => simp [hf] at hmem
    | cons a t =>
      cases t with
      | nil => simp [hf] at hmem; subst hmem; simpa using hlt
      | cons b t' => simp

theorem pass_sound {σ db} (hdb : satisfies σ db) : ∀ (sub : List Clause) (p : PA) (ch : Bool), agrees σ p →
    (∀ c ∈ sub, c ∈ db) →
    match sub.foldl passStep (some (p, ch)) with
    | none => False
    | some (p', _) => agrees σ p' := by
  intro sub
  induction sub with
  | nil => intro p ch hp _; simpa using hp
  | cons c cs ih =>
    intro p ch hp hsub
    have hc : Clause.eval σ c = true := hdb c (hsub c (by simp))
    have hex := examine_sound hp hc
    simp only [List.foldl_cons, passStep]
    cases hx : examine p c with
    | conflict => simp [hx] at hex
    | unit l =>
      simp [hx] at hex
      have : agrees σ (l :: p) := by
        intro l' hl'
        cases List.mem_cons.mp hl' with
        | inl h => subst h; exact hex
        | inr h => exact hp _ h
      exact ih (l :: p) true this (fun c hc => hsub c (by simp [hc]))
    | none => exact ih p ch hp (fun c hc => hsub c (by simp [hc]))

theorem propagate_sound {σ db} (hdb : satisfies σ db) : ∀ fuel p, agrees σ p → propagate fuel db p = false := by
  intro fuel
  induction fuel with
  | zero => intro p _; rfl
  | succ n ih =>
    intro p hp
    unfold propagate
    have := pass_sound hdb db p false hp (fun c hc => hc)
    unfold pass
    split
    · rename_i h; simp [h] at this
    · rename_i p' h; simp [h] at this; exact ih p' this
    · rfl

/-- RUP soundness: if the check succeeds, every model of `db` satisfies `c`. -/
theorem rup_sound {fuel db c} (h : rupCheck fuel db c = true) : ∀ σ, satisfies σ db → Clause.eval σ c = true := by
  intro σ hdb
  by_cases hc : Clause.eval σ c = true
  · exact hc
  · exfalso
    have hag : agrees σ (c.map Lit.not) := by
      intro l hl
      obtain ⟨l0, hl0, rfl⟩ := List.mem_map.mp hl
      have : l0.eval σ = false := by
        cases h0 : l0.eval σ with
        | false => rfl
        | true => exact absurd (by simp [Clause.eval]; exact ⟨l0, hl0, h0⟩) hc
      simp [this]
    have := propagate_sound hdb fuel _ hag
    simp only [rupCheck, this, Bool.or_false, List.any_eq_true, List.contains_eq_mem, decide_eq_true_eq] at h
    obtain ⟨l, hl, hln⟩ := h
    have h1 : l.eval σ = false := by
      cases h0 : l.eval σ with
      | false => rfl
      | true => exact absurd (by simp [Clause.eval]; exact ⟨l, hl, h0⟩) hc
    have h2 : l.not.eval σ = false := by
      cases h0 : l.not.eval σ with
      | false => rfl
      | true => exact absurd (by simp only [Clause.eval, List.any_eq_true]; exact ⟨l.not, hln, h0⟩) hc
    simp [h1] at h2

/-- a list-of-true-literals model that passes `modelSat` yields a satisfying assignment -/
theorem modelSat_sound {m : List Lit} {c : Clause} (h : modelSat m c = true) (σ : Asg) (hm : agrees σ m) :
    Clause.eval σ c = true := by
  simp only [modelSat, List.any_eq_true, List.contains_eq_mem, decide_eq_true_eq] at h
  obtain ⟨l, hl, hlm⟩ := h
  simp only [Clause.eval, List.any_eq_true]
  exact ⟨l, hl, hm l hlm⟩

end Osmt
