import Osmt.Quote
namespace Osmt.Quote

theorem reverse_snoc_bar (s : List Char) : (s ++ ['|']).reverse = '|' :: s.reverse := by simp

/-- what is printed reads back as the name, for every name without bars and backslashes -/
theorem protect_roundtrip (s : List Char) (hne : s ≠ []) (hclean : s.all (fun c => c != '|' && c != '\\') = true) :
    readSymbol (protect s) = some s := by
  unfold protect
  split
  · simp only [readSymbol, reverse_snoc_bar, List.reverse_reverse]
    have : s.any (fun c => c == '|' || c == '\\') = false := by
      rw [List.any_eq_false]
      intro c hc
      have := List.all_eq_true.mp hclean c hc
      simp only [Bool.and_eq_true, bne_iff_ne, ne_eq] at this
      simp [this.1, this.2]
    simp [this]
  · rename_i hq
    simp only [needsQuote, Bool.or_eq_true, not_or, Bool.not_eq_true] at hq
    obtain ⟨⟨hq1, hq2⟩, hq3⟩ := hq
    cases s with
    | nil => exact absurd rfl hne
    | cons c r =>
      have hc : c ≠ '|' := by
        have := List.all_eq_true.mp hclean c (by simp)
        simp only [Bool.and_eq_true, bne_iff_ne, ne_eq] at this
        exact this.1
      have hnotq : alreadyQuoted (c :: r) = false := by simp [alreadyQuoted, hc]
      have hany : (c :: r).any (fun c => !isSimpleChar c) = false := by
        simpa [hasQuotableChars, hnotq] using hq1
      unfold readSymbol
      split
      · rename_i r' heq; injection heq with h1 _; exact absurd h1 hc
      · simp [hany, hq2, hq3]

/-- the printed form is always a symbol token for the reader -/
theorem protect_is_symbol (s : List Char) (hne : s ≠ []) (hclean : s.all (fun c => c != '|' && c != '\\') = true) :
    (readSymbol (protect s)).isSome = true := by
  rw [protect_roundtrip s hne hclean]; rfl

/-- quoting is needed: a name that `protect` quotes would not read back as itself if it were printed bare -/
theorem quoted_needed (s : List Char) (hclean : s.all (fun c => c != '|' && c != '\\') = true) (h : needsQuote s = true) :
    readSymbol s ≠ some s := by
  cases s with
  | nil => simp [readSymbol]
  | cons c r =>
    have hc : c ≠ '|' := by
      have := List.all_eq_true.mp hclean c (by simp)
      simp only [Bool.and_eq_true, bne_iff_ne, ne_eq] at this
      exact this.1
    have hnotq : alreadyQuoted (c :: r) = false := by simp [alreadyQuoted, hc]
    simp only [needsQuote, hasQuotableChars, hnotq, Bool.not_false, Bool.true_and, Bool.or_eq_true] at h
    unfold readSymbol
    split
    · rename_i r' heq; injection heq with h1 _; exact absurd h1 hc
    · rcases h with (h | h) | h <;> simp [h]

end Osmt.Quote
