import Osmt.Itp
/-! Soundness of labelled interpolation systems: the root partial interpolant is implied by A and inconsistent with B. -/
namespace Osmt.Itp

/-- well-formedness: every literal of a leaf has a non-absent label; A-leaves follow from A, B-leaves from B;
    at a resolution node the pivot occurs only positively in n1 and only negatively in n2. -/
def Node.WF (A B : Asg → Prop) : Node → Prop
  | .leafA c lab => (∀ σ, A σ → cEval σ c = true) ∧ (∀ l ∈ c, (lab l.var).a || (lab l.var).b)
  | .leafB c lab => (∀ σ, B σ → cEval σ c = true) ∧ (∀ l ∈ c, (lab l.var).a || (lab l.var).b)
  | .leafT c lab i => ((∀ σ, A σ → cEval σ (restrA c lab) = false → i.eval σ = true) ∧
                       (∀ σ, B σ → cEval σ (restrB c lab) = false → i.eval σ = false)) ∧ (∀ l ∈ c, (lab l.var).a || (lab l.var).b)
  | .res n1 n2 p => n1.WF A B ∧ n2.WF A B ∧
      (∀ l ∈ n1.clause, l.var = p → l.neg = false) ∧ (∀ l ∈ n2.clause, l.var = p → l.neg = true) ∧
      (∃ l ∈ n1.clause, l.var = p) ∧ (∃ l ∈ n2.clause, l.var = p)

/-- every literal in a node's clause carries a label in that node -/
theorem labelled (A B) : ∀ n : Node, n.WF A B → ∀ l ∈ n.clause, ((n.lab l.var).a || (n.lab l.var).b) = true
  | .leafA c lab, h, l, hl => h.2 l hl
  | .leafB c lab, h, l, hl => h.2 l hl
  | .leafT c lab i, h, l, hl => h.2 l hl
  | .res n1 n2 p, h, l, hl => by
    simp only [Node.clause, List.mem_append, List.mem_filter] at hl
    simp only [Node.lab, Lbl.join]
    rcases hl with ⟨h1, _⟩ | ⟨h2, _⟩
    · have := labelled A B n1 h.1 l h1; revert this; cases (n1.lab l.var).a <;> cases (n1.lab l.var).b <;> simp
    · have := labelled A B n2 h.2.1 l h2; revert this; cases (n2.lab l.var).a <;> cases (n2.lab l.var).b <;> simp

def Inv (A B : Asg → Prop) (n : Node) : Prop :=
  (∀ σ, A σ → cEval σ (restrA n.clause n.lab) = false → n.itp.eval σ = true) ∧
  (∀ σ, B σ → cEval σ (restrB n.clause n.lab) = false → n.itp.eval σ = false)

theorem cEval_false_iff (σ) (c : Clause) : cEval σ c = false ↔ ∀ l ∈ c, l.eval σ = false := by
  simp [cEval]

theorem leafA_inv (A B c lab) (h : (Node.leafA c lab).WF A B) : Inv A B (.leafA c lab) := by
  constructor
  · intro σ hA hr
    simp only [Node.itp, bigOr_eval]
    have hc := h.1 σ hA
    simp only [cEval, List.any_eq_true] at hc
    obtain ⟨l, hl, hlt⟩ := hc
    have hlab := h.2 l hl
    rw [cEval_false_iff] at hr
    simp only [cEval, List.any_eq_true]
    refine ⟨l, ?_, hlt⟩
    simp only [onlyB, List.mem_filter, hl, true_and]
    by_cases ha : (lab l.var).a = true
    · have := hr l (by simp [restrA, Node.clause, Node.lab, hl, ha]); simp [this] at hlt
    · revert hlab; simp at ha; simp [ha]
  · intro σ _ hr
    simp only [Node.itp, bigOr_eval]
    rw [cEval_false_iff] at hr ⊢
    intro l hl
    simp only [onlyB, List.mem_filter] at hl
    exact hr l (by simp [restrB, Node.clause, Node.lab, hl.1]; revert hl; simp; intro _ hb _; exact hb)

theorem leafB_inv (A B c lab) (h : (Node.leafB c lab).WF A B) : Inv A B (.leafB c lab) := by
  constructor
  · intro σ _ hr
    simp only [Node.itp, bigAndNeg_eval, Bool.not_eq_true']
    rw [cEval_false_iff] at hr ⊢
    intro l hl
    simp only [onlyA, List.mem_filter] at hl
    exact hr l (by simp [restrA, Node.clause, Node.lab, hl.1]; revert hl; simp; intro _ ha _; exact ha)
  · intro σ hB hr
    simp only [Node.itp, bigAndNeg_eval, Bool.not_eq_false']
    have hc := h.1 σ hB
    simp only [cEval, List.any_eq_true] at hc
    obtain ⟨l, hl, hlt⟩ := hc
    have hlab := h.2 l hl
    rw [cEval_false_iff] at hr
    simp only [cEval, List.any_eq_true]
    refine ⟨l, ?_, hlt⟩
    simp only [onlyA, List.mem_filter, hl, true_and]
    by_cases hb : (lab l.var).b = true
    · have := hr l (by simp [restrB, Node.clause, Node.lab, hl, hb]); simp [this] at hlt
    · revert hlab; simp at hb; simp [hb]


/-- literals of the parent clause (other than the pivot) that are false in the resolvent's restriction -/
theorem restrA_res_left (σ) (n1 n2 : Node) (p : Var)
    (hr : cEval σ (restrA (Node.res n1 n2 p).clause (Node.res n1 n2 p).lab) = false) :
    ∀ l ∈ n1.clause, l.var ≠ p → (n1.lab l.var).a = true → l.eval σ = false := by
  intro l hl hv ha
  rw [cEval_false_iff] at hr
  apply hr l
  simp [restrA, Node.clause, Node.lab, Lbl.join, hl, hv, ha]

theorem restrA_res_right (σ) (n1 n2 : Node) (p : Var)
    (hr : cEval σ (restrA (Node.res n1 n2 p).clause (Node.res n1 n2 p).lab) = false) :
    ∀ l ∈ n2.clause, l.var ≠ p → (n2.lab l.var).a = true → l.eval σ = false := by
  intro l hl hv ha
  rw [cEval_false_iff] at hr
  apply hr l
  simp [restrA, Node.clause, Node.lab, Lbl.join, hl, hv, ha]

theorem restrB_res_left (σ) (n1 n2 : Node) (p : Var)
    (hr : cEval σ (restrB (Node.res n1 n2 p).clause (Node.res n1 n2 p).lab) = false) :
    ∀ l ∈ n1.clause, l.var ≠ p → (n1.lab l.var).b = true → l.eval σ = false := by
  intro l hl hv hb
  rw [cEval_false_iff] at hr
  apply hr l
  simp [restrB, Node.clause, Node.lab, Lbl.join, hl, hv, hb]

theorem restrB_res_right (σ) (n1 n2 : Node) (p : Var)
    (hr : cEval σ (restrB (Node.res n1 n2 p).clause (Node.res n1 n2 p).lab) = false) :
    ∀ l ∈ n2.clause, l.var ≠ p → (n2.lab l.var).b = true → l.eval σ = false := by
  intro l hl hv hb
  rw [cEval_false_iff] at hr
  apply hr l
  simp [restrB, Node.clause, Node.lab, Lbl.join, hl, hv, hb]

/-- n1's a-restriction is false when the resolvent's is and the pivot literal is false or not a-coloured -/
theorem n1_restrA_false (σ) (n1 n2 : Node) (p : Var)
    (hpos : ∀ l ∈ n1.clause, l.var = p → l.neg = false)
    (hr : cEval σ (restrA (Node.res n1 n2 p).clause (Node.res n1 n2 p).lab) = false)
    (hp : σ p = false ∨ (n1.lab p).a = false) :
    cEval σ (restrA n1.clause n1.lab) = false := by
  rw [cEval_false_iff]
  intro l hl
  simp only [restrA, List.mem_filter] at hl
  by_cases hv : l.var = p
  · rcases hp with hp | hp
    · have := hpos l hl.1 hv; simp [Lit.eval, this, hv, hp]
    · rw [hv, hp] at hl; simp at hl
  · exact restrA_res_left σ n1 n2 p hr l hl.1 hv hl.2

theorem n2_restrA_false (σ) (n1 n2 : Node) (p : Var)
    (hneg : ∀ l ∈ n2.clause, l.var = p → l.neg = true)
    (hr : cEval σ (restrA (Node.res n1 n2 p).clause (Node.res n1 n2 p).lab) = false)
    (hp : σ p = true ∨ (n2.lab p).a = false) :
    cEval σ (restrA n2.clause n2.lab) = false := by
  rw [cEval_false_iff]
  intro l hl
  simp only [restrA, List.mem_filter] at hl
  by_cases hv : l.var = p
  · rcases hp with hp | hp
    · have := hneg l hl.1 hv; simp [Lit.eval, this, hv, hp]
    · rw [hv, hp] at hl; simp at hl
  · exact restrA_res_right σ n1 n2 p hr l hl.1 hv hl.2

theorem n1_restrB_false (σ) (n1 n2 : Node) (p : Var)
    (hpos : ∀ l ∈ n1.clause, l.var = p → l.neg = false)
    (hr : cEval σ (restrB (Node.res n1 n2 p).clause (Node.res n1 n2 p).lab) = false)
    (hp : σ p = false ∨ (n1.lab p).b = false) :
    cEval σ (restrB n1.clause n1.lab) = false := by
  rw [cEval_false_iff]
  intro l hl
  simp only [restrB, List.mem_filter] at hl
  by_cases hv : l.var = p
  · rcases hp with hp | hp
    · have := hpos l hl.1 hv; simp [Lit.eval, this, hv, hp]
    · rw [hv, hp] at hl; simp at hl
  · exact restrB_res_left σ n1 n2 p hr l hl.1 hv hl.2

theorem n2_restrB_false (σ) (n1 n2 : Node) (p : Var)
    (hneg : ∀ l ∈ n2.clause, l.var = p → l.neg = true)
    (hr : cEval σ (restrB (Node.res n1 n2 p).clause (Node.res n1 n2 p).lab) = false)
    (hp : σ p = true ∨ (n2.lab p).b = false) :
    cEval σ (restrB n2.clause n2.lab) = false := by
  rw [cEval_false_iff]
  intro l hl
  simp only [restrB, List.mem_filter] at hl
  by_cases hv : l.var = p
  · rcases hp with hp | hp
    · have := hneg l hl.1 hv; simp [Lit.eval, this, hv, hp]
    · rw [hv, hp] at hl; simp at hl
  · exact restrB_res_right σ n1 n2 p hr l hl.1 hv hl.2

theorem res_inv (A B) (n1 n2 : Node) (p : Var) (h : (Node.res n1 n2 p).WF A B)
    (hp1 : ((n1.lab p).a || (n1.lab p).b) = true) (hp2 : ((n2.lab p).a || (n2.lab p).b) = true)
    (i1 : Inv A B n1) (i2 : Inv A B n2) : Inv A B (.res n1 n2 p) := by
  obtain ⟨_, _, hpos, hneg, _, _⟩ := h
  constructor
  · intro σ hA hr
    have hI1 : (σ p = false ∨ (n1.lab p).a = false) → n1.itp.eval σ = true :=
      fun hp => i1.1 σ hA (n1_restrA_false σ n1 n2 p hpos hr hp)
    have hI2 : (σ p = true ∨ (n2.lab p).a = false) → n2.itp.eval σ = true :=
      fun hp => i2.1 σ hA (n2_restrA_false σ n1 n2 p hneg hr hp)
    simp only [Node.itp, Lbl.join]
    generalize (n1.lab p).a = a1 at hI1 hI2 hp1 hp2 ⊢
    generalize (n1.lab p).b = b1 at hI1 hI2 hp1 hp2 ⊢
    generalize (n2.lab p).a = a2 at hI1 hI2 hp1 hp2 ⊢
    generalize (n2.lab p).b = b2 at hI1 hI2 hp1 hp2 ⊢
    generalize hsp : σ p = sp at hI1 hI2 ⊢
    cases a1 <;> cases b1 <;> cases a2 <;> cases b2 <;> cases sp <;>
      simp_all [F.eval, Lit.eval]
  · intro σ hB hr
    have hI1 : (σ p = false ∨ (n1.lab p).b = false) → n1.itp.eval σ = false :=
      fun hp => i1.2 σ hB (n1_restrB_false σ n1 n2 p hpos hr hp)
    have hI2 : (σ p = true ∨ (n2.lab p).b = false) → n2.itp.eval σ = false :=
      fun hp => i2.2 σ hB (n2_restrB_false σ n1 n2 p hneg hr hp)
    simp only [Node.itp, Lbl.join]
    generalize (n1.lab p).a = a1 at hI1 hI2 hp1 hp2 ⊢
    generalize (n1.lab p).b = b1 at hI1 hI2 hp1 hp2 ⊢
    generalize (n2.lab p).a = a2 at hI1 hI2 hp1 hp2 ⊢
    generalize (n2.lab p).b = b2 at hI1 hI2 hp1 hp2 ⊢
    generalize hsp : σ p = sp at hI1 hI2 ⊢
    cases a1 <;> cases b1 <;> cases a2 <;> cases b2 <;> cases sp <;>
      simp_all [F.eval, Lit.eval]

theorem inv_all (A B) : ∀ n : Node, n.WF A B → Inv A B n
  | .leafA c lab, h => leafA_inv A B c lab h
  | .leafB c lab, h => leafB_inv A B c lab h
  | .leafT c lab i, h => h.1
  | .res n1 n2 p, h => by
    obtain ⟨l1, hl1, hv1⟩ := h.2.2.2.2.1
    obtain ⟨l2, hl2, hv2⟩ := h.2.2.2.2.2
    have e1 := labelled A B n1 h.1 l1 hl1
    have e2 := labelled A B n2 h.2.1 l2 hl2
    rw [hv1] at e1; rw [hv2] at e2
    exact res_inv A B n1 n2 p h e1 e2 (inv_all A B n1 h.1) (inv_all A B n2 h.2.1)

/-- Root theorem: a refutation yields a Craig interpolant (semantic part). -/
theorem root_interpolant (A B) (n : Node) (h : n.WF A B) (hempty : n.clause = []) :
    (∀ σ, A σ → n.itp.eval σ = true) ∧ (∀ σ, B σ → n.itp.eval σ = false) := by
  have := inv_all A B n h
  constructor
  · intro σ hA; exact this.1 σ hA (by simp [restrA, hempty, cEval])
  · intro σ hB; exact this.2 σ hB (by simp [restrB, hempty, cEval])

end Osmt.Itp

namespace Osmt.Itp
/-! ### the symbol condition -/
def F.vars : F → List Var
  | .tt => [] | .ff => []
  | .lit l => [l.var]
  | .and x y => x.vars ++ y.vars
  | .or x y => x.vars ++ y.vars

/-- labels are faithful to the split: an `a` bit only on variables of A, a `b` bit only on variables of B, and leaf clauses
are over the variables of their side -/
def Node.Faithful (inA inB : Var → Bool) : Node → Prop
  | .leafA c lab => (∀ l ∈ c, inA l.var = true) ∧ (∀ v, (lab v).a = true → inA v = true) ∧ (∀ v, (lab v).b = true → inB v = true)
  | .leafB c lab => (∀ l ∈ c, inB l.var = true) ∧ (∀ v, (lab v).a = true → inA v = true) ∧ (∀ v, (lab v).b = true → inB v = true)
  | .leafT _ lab i => (∀ v ∈ i.vars, inA v = true ∧ inB v = true) ∧ (∀ v, (lab v).a = true → inA v = true) ∧ (∀ v, (lab v).b = true → inB v = true)
  | .res n1 n2 _ => n1.Faithful inA inB ∧ n2.Faithful inA inB

theorem lab_faithful (inA inB) : ∀ n : Node, n.Faithful inA inB →
    ∀ v, ((n.lab v).a = true → inA v = true) ∧ ((n.lab v).b = true → inB v = true)
  | .leafA _ _, h, v => ⟨h.2.1 v, h.2.2 v⟩
  | .leafB _ _, h, v => ⟨h.2.1 v, h.2.2 v⟩
  | .leafT _ _ _, h, v => ⟨h.2.1 v, h.2.2 v⟩
  | .res n1 n2 _, h, v => by
    have h1 := lab_faithful inA inB n1 h.1 v
    have h2 := lab_faithful inA inB n2 h.2 v
    simp only [Node.lab, Lbl.join, Bool.or_eq_true]
    exact ⟨fun h => h.elim h1.1 h2.1, fun h => h.elim h1.2 h2.2⟩

theorem bigOr_vars (c : List Lit) : ∀ v ∈ (bigOr c).vars, ∃ l ∈ c, l.var = v := by
  induction c with
  | nil => intro v hv; simp [bigOr, F.vars] at hv
  | cons l ls ih =>
    intro v hv
    simp only [bigOr, F.vars, List.cons_append, List.nil_append, List.mem_cons] at hv
    rcases hv with rfl | hv
    · exact ⟨l, by simp, rfl⟩
    · obtain ⟨l', hl', e⟩ := ih v hv; exact ⟨l', by simp [hl'], e⟩

theorem bigAndNeg_vars (c : List Lit) : ∀ v ∈ (bigAndNeg c).vars, ∃ l ∈ c, l.var = v := by
  induction c with
  | nil => intro v hv; simp [bigAndNeg, F.vars] at hv
  | cons l ls ih =>
    intro v hv
    simp only [bigAndNeg, F.vars, List.cons_append, List.nil_append, List.mem_cons, Lit.not] at hv
    rcases hv with rfl | hv
    · exact ⟨l, by simp, rfl⟩
    · obtain ⟨l', hl', e⟩ := ih v hv; exact ⟨l', by simp [hl'], e⟩

/-- **Symbol condition**: every variable of a partial interpolant of a faithfully labelled, well-formed proof occurs in A and in B. -/
theorem itp_vars_shared (A B) (inA inB : Var → Bool) : ∀ n : Node, n.WF A B → n.Faithful inA inB →
    ∀ v ∈ n.itp.vars, inA v = true ∧ inB v = true
  | .leafA c lab, _, hf, v, hv => by
    obtain ⟨l, hl, rfl⟩ := bigOr_vars _ v hv
    simp only [onlyB, List.mem_filter, Bool.and_eq_true] at hl
    exact ⟨hf.1 l hl.1, hf.2.2 l.var hl.2.1⟩
  | .leafB c lab, _, hf, v, hv => by
    obtain ⟨l, hl, rfl⟩ := bigAndNeg_vars _ v hv
    simp only [onlyA, List.mem_filter, Bool.and_eq_true] at hl
    exact ⟨hf.2.1 l.var hl.2.1, hf.1 l hl.1⟩
  | .leafT c lab i, _, hf, v, hv => hf.1 v hv
  | .res n1 n2 p, hw, hf, v, hv => by
    have i1 := itp_vars_shared A B inA inB n1 hw.1 hf.1
    have i2 := itp_vars_shared A B inA inB n2 hw.2.1 hf.2
    have l1 := lab_faithful inA inB n1 hf.1 p
    have l2 := lab_faithful inA inB n2 hf.2 p
    obtain ⟨k1, hk1, hv1⟩ := hw.2.2.2.2.1
    have e1 := labelled A B n1 hw.1 k1 hk1
    rw [hv1] at e1
    simp only [Node.itp] at hv
    split at hv
    · simp only [F.vars, List.mem_append] at hv
      exact hv.elim (i1 v) (i2 v)
    · simp only [F.vars, List.mem_append] at hv
      exact hv.elim (i1 v) (i2 v)
    · rename_i hn1 hn2
      simp only [F.vars, List.mem_append, List.mem_cons, List.not_mem_nil, or_false] at hv
      have hp : inA p = true ∧ inB p = true := by
        simp only [Lbl.join] at hn1 hn2
        revert hn1 hn2 e1 l1 l2
        generalize (n1.lab p).a = a1; generalize (n1.lab p).b = b1
        generalize (n2.lab p).a = a2; generalize (n2.lab p).b = b2
        cases a1 <;> cases b1 <;> cases a2 <;> cases b2 <;> simp_all
      rcases hv with (hv | hv) | (hv | hv)
      · exact i1 v hv
      · rw [hv]; exact hp
      · exact i2 v hv
      · rw [hv]; exact hp
end Osmt.Itp

namespace Osmt.Itp
theorem wf_of_structOk (A B : Asg → Prop) : ∀ n : Node, n.structOk = true → n.leavesOk A B → n.WF A B
  | .leafA c lab, hs, hl => by
    simp only [Node.structOk, List.all_eq_true] at hs
    exact ⟨hl, hs⟩
  | .leafB c lab, hs, hl => by
    simp only [Node.structOk, List.all_eq_true] at hs
    exact ⟨hl, hs⟩
  | .leafT c lab i, hs, hl => by
    simp only [Node.structOk, List.all_eq_true] at hs
    exact ⟨hl, hs⟩
  | .res n1 n2 p, hs, hl => by
    simp only [Node.structOk, Bool.and_eq_true, List.all_eq_true, List.any_eq_true, Bool.or_eq_true, bne_iff_ne, ne_eq,
      Bool.not_eq_true', beq_iff_eq] at hs
    obtain ⟨⟨⟨⟨⟨h1, h2⟩, hp1⟩, hp2⟩, he1⟩, he2⟩ := hs
    refine ⟨wf_of_structOk A B n1 h1 hl.1, wf_of_structOk A B n2 h2 hl.2, ?_, ?_, ?_, ?_⟩
    · intro l hl' hv
      rcases hp1 l hl' with h | h
      · exact absurd hv h
      · exact h
    · intro l hl' hv
      rcases hp2 l hl' with h | h
      · exact absurd hv h
      · exact h
    · obtain ⟨l, hl', hv⟩ := he1; exact ⟨l, hl', hv⟩
    · obtain ⟨l, hl', hv⟩ := he2; exact ⟨l, hl', hv⟩

/-- what the executable check of a labelled refutation establishes -/
theorem checked_refutation_interpolant (A B : Asg → Prop) (n : Node) (hs : n.structOk = true) (hl : n.leavesOk A B)
    (hempty : n.clause = []) :
    (∀ σ, A σ → n.itp.eval σ = true) ∧ (∀ σ, B σ → n.itp.eval σ = false) :=
  root_interpolant A B n (wf_of_structOk A B n hs hl) hempty
end Osmt.Itp
