import Osmt.Names
/-! `TermNames`: consistency of the containers in every reachable state and scope discipline (C21). -/
namespace Osmt.Names

/-- names in the scoped vector are pairwise distinct; the name map holds exactly the pairs of the vector -/
def Inv (s : St) : Prop :=
  (s.elems.map (·.1)).Nodup ∧ (s.n2t.map (·.1)).Nodup ∧ (∀ p, p ∈ s.n2t ↔ p ∈ s.elems)

theorem inv_init : Inv {} := by simp [Inv]

theorem lookup_none_iff (s : St) (n : Nat) : lookup s n = none ↔ n ∉ s.n2t.map (·.1) := by
  simp only [lookup, Option.map_eq_none_iff, List.find?_eq_none, List.mem_map, not_exists, not_and]
  constructor
  · intro h p hp e; exact h p hp (by simpa using e)
  · intro h p hp; simpa using h p hp

theorem lookup_some_iff (s : St) (hn : (s.n2t.map (·.1)).Nodup) (n t : Nat) :
    lookup s n = some t ↔ (n, t) ∈ s.n2t := by
  induction hl : s.n2t generalizing s with
  | nil => simp [lookup, hl]
  | cons p r ih =>
    simp only [lookup, hl, List.find?_cons]
    rw [hl] at hn
    simp only [List.map_cons, List.nodup_cons] at hn
    by_cases hp : p.1 = n
    · simp only [hp, decide_true, Option.map_some, Option.some.injEq, List.mem_cons]
      constructor
      · intro e; left; rw [← e, ← hp]
      · rintro (e | e)
        · rw [← e]
        · exfalso; apply hn.1; rw [hp]; exact List.mem_map.mpr ⟨(n, t), e, rfl⟩
    · have := ih { s with n2t := r } hn.2 rfl
      simp only [lookup] at this
      simp only [hp, decide_false, List.mem_cons]
      rw [this]
      constructor
      · intro e; right; exact e
      · rintro (e | e)
        · exfalso; apply hp; rw [← e]
        · exact e

theorem tryInsert_inv (s : St) (n t : Nat) (h : Inv s) : Inv (tryInsert s n t).1 := by
  obtain ⟨h1, h2, h3⟩ := h
  unfold tryInsert
  split
  · exact ⟨h1, h2, h3⟩
  · rename_i hl
    have hnone : lookup s n = none := by
      cases hx : lookup s n with
      | none => rfl
      | some v => simp [hx] at hl
    have hn2 : n ∉ s.n2t.map (·.1) := (lookup_none_iff s n).mp hnone
    have hne : n ∉ s.elems.map (·.1) := by
      intro hm
      obtain ⟨p, hp, e⟩ := List.mem_map.mp hm
      exact hn2 (List.mem_map.mpr ⟨p, (h3 p).mpr hp, e⟩)
    refine ⟨?_, ?_, ?_⟩
    · simp only [List.map_append, List.map_cons, List.map_nil]
      rw [List.nodup_append]
      refine ⟨h1, by simp, ?_⟩
      intro a ha b hb
      simp at hb; subst hb
      intro e; subst e; exact hne ha
    · simp only [List.map_cons, List.nodup_cons]
      exact ⟨hn2, h2⟩
    · intro p
      simp only [List.mem_cons, List.mem_append, List.not_mem_nil, or_false]
      rw [h3 p]
      constructor
      · rintro (e | e)
        · right; exact e
        · left; exact e
      · rintro (e | e)
        · right; exact e
        · left; exact e

theorem eraseName_n2t (s : St) (n : Nat) : (eraseName s n).n2t = s.n2t.filter (·.1 ≠ n) := by
  unfold eraseName
  split
  · rename_i h
    have := (lookup_none_iff s n).mp h
    symm
    rw [List.filter_eq_self]
    intro p hp
    simp only [ne_eq, decide_eq_true_eq]
    intro e
    exact this (List.mem_map.mpr ⟨p, hp, e⟩)
  · simp

theorem eraseName_other (s : St) (n : Nat) :
    (eraseName s n).elems = s.elems ∧ (eraseName s n).limits = s.limits ∧ (eraseName s n).global = s.global := by
  unfold eraseName; split <;> simp

theorem eraseAll_n2t : ∀ (ps : List (Nat × Nat)) (s : St),
    (eraseAll s ps).n2t = s.n2t.filter (fun p => p.1 ∉ ps.map (·.1)) ∧
    (eraseAll s ps).elems = s.elems ∧ (eraseAll s ps).limits = s.limits ∧ (eraseAll s ps).global = s.global
  | [], s => by
    simp only [eraseAll, List.map_nil, List.not_mem_nil, not_false_eq_true, decide_true, and_self, and_true]
    exact (List.filter_eq_self.mpr (by simp)).symm
  | p :: r, s => by
    obtain ⟨i1, i2, i3, i4⟩ := eraseAll_n2t r (eraseName s p.1)
    obtain ⟨e2, e3, e4⟩ := eraseName_other s p.1
    simp only [eraseAll]
    refine ⟨?_, i2.trans e2, i3.trans e3, i4.trans e4⟩
    rw [i1, eraseName_n2t, List.filter_filter]
    congr 1
    funext q
    simp only [List.map_cons, List.mem_cons, not_or, ne_eq]
    by_cases h1 : q.1 = p.1 <;> by_cases h2 : q.1 ∈ r.map (·.1) <;> simp [h1, h2]

/-- in a list with distinct names, the pairs of a prefix are those whose name does not occur in the rest -/
theorem mem_take_iff_of_nodup : ∀ (l : List (Nat × Nat)) (k : Nat), (l.map (·.1)).Nodup →
    ∀ p, p ∈ l.take k ↔ (p ∈ l ∧ p.1 ∉ (l.drop k).map (·.1))
  | l, 0, _, p => by
    simp only [List.take_zero, List.not_mem_nil, List.drop_zero, false_iff, not_and]
    intro hp hn; exact hn (List.mem_map.mpr ⟨p, hp, rfl⟩)
  | [], k+1, _, p => by simp
  | q :: r, k+1, hn, p => by
    simp only [List.map_cons, List.nodup_cons] at hn
    have ih := mem_take_iff_of_nodup r k hn.2 p
    simp only [List.take_succ_cons, List.mem_cons, List.drop_succ_cons]
    constructor
    · rintro (e | e)
      · subst e
        refine ⟨Or.inl rfl, ?_⟩
        intro hm
        obtain ⟨x, hx, ex⟩ := List.mem_map.mp hm
        exact hn.1 (List.mem_map.mpr ⟨x, List.mem_of_mem_drop hx, ex⟩)
      · exact ⟨Or.inr (ih.mp e).1, (ih.mp e).2⟩
    · rintro ⟨e | e, h2⟩
      · left; exact e
      · right; exact ih.mpr ⟨e, h2⟩

theorem popScope_inv (s : St) (h : Inv s) : Inv (popScope s) := by
  obtain ⟨h1, h2, h3⟩ := h
  unfold popScope
  split
  · exact ⟨h1, h2, h3⟩
  · split
    · exact ⟨h1, h2, h3⟩
    · rename_i lim _
      obtain ⟨i1, i2, i3, i4⟩ := eraseAll_n2t (s.elems.drop lim).reverse s
      refine ⟨?_, ?_, ?_⟩
      · simp only
        exact List.Nodup.sublist (List.Sublist.map _ (List.take_sublist _ _)) h1
      · simp only
        rw [i1]
        exact List.Nodup.sublist (List.Sublist.map _ (List.filter_sublist)) h2
      · intro p
        simp only
        rw [i1, List.mem_filter, h3 p, mem_take_iff_of_nodup s.elems lim h1 p]
        simp only [List.map_reverse, List.mem_reverse, decide_eq_true_eq]

theorem step_inv (s : St) (op : Op) (h : Inv s) : Inv (step s op) := by
  cases op with
  | insert n t => exact tryInsert_inv s n t h
  | push => exact h
  | pop => exact popScope_inv s h
  | setGlobal b => exact h

/-- **container consistency in every reachable state**: distinct names, and the name map is exactly the
scoped vector, for all operation sequences (including switches of the global-declarations mode) -/
theorem run_inv (ops : List Op) : Inv (run ops) := by
  unfold run
  suffices ∀ s, Inv s → Inv (ops.foldl step s) from this {} inv_init
  induction ops with
  | nil => intro s h; exact h
  | cons op ops ih => intro s h; exact ih _ (step_inv s op h)

/-- a name is found iff it is in the scoped vector (no stale and no lost names) -/
theorem lookup_iff_scoped (ops : List Op) (n t : Nat) :
    lookup (run ops) n = some t ↔ (n, t) ∈ (run ops).elems := by
  obtain ⟨_, h2, h3⟩ := run_inv ops
  rw [lookup_some_iff _ h2, h3]

end Osmt.Names

namespace Osmt.Names

/-- balanced sequences of scope operations (relative depth `d`): never pop below the starting depth, end at it;
no switch of the global-declarations mode inside -/
def bal : Nat → List Op → Bool
  | d, [] => d == 0
  | d, .push :: r => bal (d + 1) r
  | d, .pop :: r => d > 0 && bal (d - 1) r
  | d, .insert _ _ :: r => bal d r
  | _, .setGlobal _ :: _ => false

theorem tryInsert_elems (s : St) (n t : Nat) :
    ∃ X, (tryInsert s n t).1.elems = s.elems ++ X ∧ (tryInsert s n t).1.limits = s.limits ∧
      (tryInsert s n t).1.global = s.global := by
  unfold tryInsert
  split
  · exact ⟨[], by simp, rfl, rfl⟩
  · exact ⟨[(n, t)], rfl, rfl, rfl⟩

theorem getLast?_append_ne_nil {α} (a : List α) (b : List α) (h : b ≠ []) : (a ++ b).getLast? = b.getLast? := by
  induction a with
  | nil => rfl
  | cons x r ih =>
    cases hr : r ++ b with
    | nil => simp at hr; exact absurd hr.2 h
    | cons y z => rw [List.cons_append, hr, List.getLast?_cons_cons, ← hr, ih]

theorem dropLast_append_ne_nil {α} (a b : List α) (h : b ≠ []) : (a ++ b).dropLast = a ++ b.dropLast := by
  induction a with
  | nil => rfl
  | cons x r ih =>
    cases hr : r ++ b with
    | nil => simp at hr; exact absurd hr.2 h
    | cons y z => rw [List.cons_append, hr, List.dropLast_cons_cons, ← hr, ih, List.cons_append]

/-- scope discipline: while the scopes opened after a `pushScope` are balanced, the elements below the pushed
limit and the outer limits are untouched -/
theorem balanced_preserves_base (E0 : List (Nat × Nat)) (L0 : List Nat) :
    ∀ (ops : List Op) (s : St) (X : List (Nat × Nat)) (K : List Nat),
      s.global = false → s.elems = E0 ++ X → s.limits = L0 ++ [E0.length] ++ K → (∀ k ∈ K, E0.length ≤ k) →
      bal K.length ops = true →
      ∃ X', (ops.foldl step s).elems = E0 ++ X' ∧ (ops.foldl step s).limits = L0 ++ [E0.length] ∧
        (ops.foldl step s).global = false
  | [], s, X, K, hg, he, hl, _, hb => by
    simp only [bal, beq_iff_eq, List.length_eq_zero_iff] at hb
    subst hb
    exact ⟨X, he, by simpa using hl, hg⟩
  | .insert n t :: r, s, X, K, hg, he, hl, hk, hb => by
    obtain ⟨Y, h1, h2, h3⟩ := tryInsert_elems s n t
    simp only [List.foldl_cons, step]
    exact balanced_preserves_base E0 L0 r _ (X ++ Y) K (h3.trans hg) (by rw [h1, he, List.append_assoc])
      (h2.trans hl) hk hb
  | .push :: r, s, X, K, hg, he, hl, hk, hb => by
    have hps : pushScope s = { s with limits := s.limits ++ [s.elems.length] } := rfl
    simp only [List.foldl_cons, step, hps]
    refine balanced_preserves_base E0 L0 r _ X (K ++ [s.elems.length]) hg he ?_ ?_ ?_
    · show s.limits ++ [s.elems.length] = L0 ++ [E0.length] ++ (K ++ [s.elems.length])
      rw [hl, List.append_assoc]
    · intro k hk'
      rcases List.mem_append.mp hk' with h | h
      · exact hk k h
      · simp at h; subst h; rw [he]; simp
    · simp only [bal] at hb
      simpa using hb
  | .pop :: r, s, X, K, hg, he, hl, hk, hb => by
    simp only [bal, Bool.and_eq_true, decide_eq_true_eq] at hb
    obtain ⟨hpos, hb⟩ := hb
    have hKne : K ≠ [] := by intro e; rw [e] at hpos; simp at hpos
    obtain ⟨k, hkl⟩ : ∃ k, K.getLast? = some k := by
      cases hx : K.getLast? with
      | none => exact absurd (List.getLast?_eq_none_iff.mp hx) hKne
      | some k => exact ⟨k, rfl⟩
    have hkge : E0.length ≤ k := hk k (List.mem_of_getLast? hkl)
    have hlast : s.limits.getLast? = some k := by rw [hl, getLast?_append_ne_nil _ K hKne, hkl]
    simp only [List.foldl_cons, step, popScope, hg, hlast]
    obtain ⟨_, i2, _, i4⟩ := eraseAll_n2t (s.elems.drop k).reverse s
    refine balanced_preserves_base E0 L0 r _ (X.take (k - E0.length)) K.dropLast (by simpa using i4.trans hg) ?_ ?_ ?_ ?_
    · simp only [Bool.false_eq_true, if_false]
      rw [he, List.take_append]
      have : List.take k E0 = E0 := List.take_of_length_le hkge
      rw [this]
    · simp only [Bool.false_eq_true, if_false]
      rw [hl, dropLast_append_ne_nil _ K hKne]
    · intro k' hk'; exact hk k' ((List.dropLast_sublist K).subset hk')
    · simpa using hb
  | .setGlobal b :: r, s, X, K, _, _, _, _, hb => by simp [bal] at hb

/-- **popping restores the scope**: after `pushScope`, any balanced sequence of inserts and nested scopes, and the
matching `popScope`, the scoped vector and the limits are exactly what they were — hence (by `Inv`) exactly the
names introduced inside are gone and can be introduced again -/
theorem pop_restores (s : St) (ops : List Op) (hg : s.global = false) (hb : bal 0 ops = true) :
    (popScope (ops.foldl step (pushScope s))).elems = s.elems ∧
    (popScope (ops.foldl step (pushScope s))).limits = s.limits := by
  have hp : pushScope s = { s with limits := s.limits ++ [s.elems.length] } := rfl
  obtain ⟨X', h1, h2, h3⟩ := balanced_preserves_base s.elems s.limits ops (pushScope s) [] []
    (by rw [hp]; exact hg) (by rw [hp]; simp) (by rw [hp]; simp) (by simp) hb
  have hlast : (ops.foldl step (pushScope s)).limits.getLast? = some s.elems.length := by rw [h2]; simp
  simp only [popScope, h3, hlast, Bool.false_eq_true, if_false]
  constructor
  · rw [h1]; simp
  · rw [h2]; simp

/-- in global mode a pop keeps every name -/
theorem global_pop_keeps (s : St) (h : s.global = true) :
    (popScope s).elems = s.elems ∧ (popScope s).n2t = s.n2t ∧ (popScope s).limits = s.limits.dropLast := by
  simp [popScope, h]

/-- the stack of limits follows the assertion stack in every mode: one more after push, one less after pop -/
theorem limits_length (s : St) (h : s.limits ≠ []) :
    (pushScope s).limits.length = s.limits.length + 1 ∧ (popScope s).limits.length = s.limits.length - 1 := by
  refine ⟨by simp [pushScope], ?_⟩
  unfold popScope
  split
  · simp
  · cases hl : s.limits.getLast? with
    | none => exact absurd (List.getLast?_eq_none_iff.mp hl) h
    | some k => simp

end Osmt.Names
