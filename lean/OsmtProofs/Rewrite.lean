import Osmt.Rewrite
import OsmtProofs.IntRound
/-! Soundness of the preprocessing rewrites. -/
namespace Osmt.Rewrite
open Osmt

theorem lookup_mem {σ : List (Term × Term)} {t s : Term} (h : lookup σ t = some s) : (t, s) ∈ σ := by
  unfold lookup at h
  cases hf : σ.find? (fun e => e.1 == t) with
  | none => simp [hf] at h
  | some e =>
    simp [hf] at h
    have hm := List.mem_of_find?_eq_some hf
    have hp := List.find?_some hf
    simp at hp
    cases e with | mk a b => simp at hp h; subst hp; subst h; exact hm

mutual
  /-- a substitution whose keys have the value of their targets keeps the value of every term -/
  theorem subst_eval (I : Interp) (σ : List (Term × Term)) (hσ : ∀ e ∈ σ, eval I e.1 = eval I e.2) :
      ∀ t, eval I (subst σ t) = eval I t
    | .app o as => by
      simp only [subst]
      split
      · rename_i s hs
        exact (hσ _ (lookup_mem hs)).symm
      · simp only [eval, substList_eval I σ hσ as]
  theorem substList_eval (I : Interp) (σ : List (Term × Term)) (hσ : ∀ e ∈ σ, eval I e.1 = eval I e.2) :
      ∀ ts, evalList I (substList σ ts) = evalList I ts
    | [] => rfl
    | t :: r => by simp only [substList, evalList, subst_eval I σ hσ t, substList_eval I σ hσ r]
end

mutual
  theorem eval_setVar (I : Interp) (id : Nat) (s : Srt) (v : Val) :
      ∀ t, occurs id s t = false → eval (setVar I id s v) t = eval I t
    | .app o as, h => by
      simp only [occurs, Bool.or_eq_false_iff, beq_eq_false_iff_ne] at h
      simp only [eval, evalList_setVar I id s v as h.2]
      cases o
      case var i s' =>
        have : ¬ (i = id ∧ s' = s) := fun ⟨a, b⟩ => h.1 (by rw [a, b])
        simp [applyOp, setVar, this]
      all_goals rfl
  theorem evalList_setVar (I : Interp) (id : Nat) (s : Srt) (v : Val) :
      ∀ ts, occursList id s ts = false → evalList (setVar I id s v) ts = evalList I ts
    | [], _ => rfl
    | t :: r, h => by
      simp only [occursList, Bool.or_eq_false_iff] at h
      simp only [evalList, eval_setVar I id s v t h.1, evalList_setVar I id s v r h.2]
end

theorem applyOp_setVar (I : Interp) (id : Nat) (s : Srt) (v : Val) (o : Op) (h : o ≠ .var id s) (vs : List Val) :
    applyOp (setVar I id s v) o vs = applyOp I o vs := by
  cases o
  case var i s' =>
    have : ¬ (i = id ∧ s' = s) := fun ⟨a, b⟩ => h (by rw [a, b])
    simp [applyOp, setVar, this]
  all_goals rfl

mutual
  /-- eliminating a variable by its definition is evaluating in the interpretation extended with the definition's value -/
  theorem substVar_eval (I : Interp) (id : Nat) (s : Srt) (tgt : Term) :
      ∀ t, eval (setVar I id s (eval I tgt)) t = eval I (substVar id s tgt t)
    | .app o as => by
      simp only [substVar]
      split
      · rename_i ho; subst ho; simp [eval, applyOp, setVar]
      · rename_i ho
        simp only [eval, substVarList_eval I id s tgt as]
        exact applyOp_setVar I id s _ o ho _
  theorem substVarList_eval (I : Interp) (id : Nat) (s : Srt) (tgt : Term) :
      ∀ ts, evalList (setVar I id s (eval I tgt)) ts = evalList I (substVarList id s tgt ts)
    | [] => rfl
    | t :: r => by simp only [substVarList, evalList, substVar_eval I id s tgt t, substVarList_eval I id s tgt r]
end

/-- **Equality elimination is a conservative extension.**  If the eliminated variable does not occur in its definition:
(→) a model of the substituted formula extends (by the definition's value) to a model of the original formula and of the
equation; (←) a model of the original formula and of the equation is a model of the substituted formula. -/
theorem substVar_extends (I : Interp) (id : Nat) (s : Srt) (tgt f : Term) (hocc : occurs id s tgt = false)
    (h : evalB I (substVar id s tgt f) = true) :
    let I' := setVar I id s (eval I tgt)
    evalB I' f = true ∧ eval I' (.app (.var id s) []) = eval I' tgt := by
  refine ⟨?_, ?_⟩
  · simp only [evalB, substVar_eval]; exact h
  · rw [eval_setVar I id s _ tgt hocc]; simp [eval, applyOp, setVar, evalList]

theorem substVar_restricts (I : Interp) (id : Nat) (s : Srt) (tgt f : Term)
    (heq : eval I (.app (.var id s) []) = eval I tgt) (h : evalB I f = true) :
    evalB I (substVar id s tgt f) = true := by
  have hI : setVar I id s (eval I tgt) = I := by
    cases I with | mk var uf =>
    simp only [setVar, Interp.mk.injEq, and_true]
    funext i s'
    split
    · rename_i hc; rw [hc.1, hc.2, ← heq]; simp [eval, applyOp, evalList]
    · rfl
  have := substVar_eval I id s tgt f
  rw [hI] at this
  simp only [evalB, ← this]; exact h

theorem setVar_WF (I : Interp) (hI : I.WF) (id : Nat) (s : Srt) (v : Val) (hv : v.hasSort s = true) : (setVar I id s v).WF := by
  refine ⟨fun i s' => ?_, hI.2⟩
  simp only [setVar]
  split
  · rename_i hc; rw [hc.2]; exact hv
  · exact hI.1 i s'

/-! ### distinct -/
theorem all_append_map_ne (a : Val) (vs : List Val) :
    (vs.map (fun x => Val.b (!decide (a = x)))).all Val.toBool = vs.all (fun x => decide (x ≠ a)) := by
  induction vs with
  | nil => rfl
  | cons v r ih =>
    simp only [List.map_cons, List.all_cons, ih, Val.toBool]
    congr 1
    by_cases h : a = v <;> simp [h, eq_comm]

theorem pairsNe_eval (I : Interp) : ∀ args : List Term,
    ((pairsNe args).map (eval I)).all Val.toBool = pairwiseDistinct (args.map (eval I))
  | [] => rfl
  | a :: r => by
    simp only [pairsNe, List.map_cons, pairwiseDistinct]
    rw [List.map_append, List.all_append, pairsNe_eval I r]
    congr 1
    rw [List.map_map]
    have : (eval I ∘ fun b => Term.app Op.not [Term.app Op.eq [a, b]]) = (fun x => Val.b (!decide (eval I a = x))) ∘ eval I := by
      funext b; simp [eval, evalList, applyOp, allEqAdj, Val.toBool]
    rw [this, ← List.map_map, all_append_map_ne]

/-- `distinct` is the conjunction of all pairwise disequalities -/
theorem expandDistinct_eval (I : Interp) (args : List Term) :
    eval I (expandDistinct args) = eval I (.app .distinct args) := by
  simp only [expandDistinct, eval, applyOp, evalList_eq_map, pairsNe_eval]

/-- an equation between numeric terms is the conjunction of the two inequalities -/
theorem splitEq_eval (I : Interp) (a b : Term) (x y : Rat) (ha : eval I a = .n x) (hb : eval I b = .n y) :
    eval I (splitEq a b) = eval I (.app .eq [a, b]) := by
  simp only [splitEq, eval, evalList, applyOp, ha, hb, chainRel, allEqAdj, Val.toRat, List.all_cons, List.all_nil, Val.toBool,
    Bool.and_true, Val.n.injEq]
  congr 1
  by_cases h : x = y
  · subst h; simp
  · simp only [h, decide_false]
    rcases lt_or_gt_of_ne h with hl | hl
    · have : ¬ y ≤ x := not_le.mpr hl; simp [this]
    · have : ¬ x ≤ y := not_le.mpr hl; simp [this]

/-- the definition of an ite auxiliary holds exactly when the auxiliary has the value of the ite -/
theorem iteDef_eval (I : Interp) (v c a b : Term) (x : Bool) (hc : eval I c = .b x) :
    evalB I (iteDef v c a b) = true ↔ eval I v = eval I (.app .ite [c, a, b]) := by
  simp only [iteDef, evalB, eval, evalList, applyOp, hc, Val.toBool, allEqAdj, List.all_cons, List.all_nil, List.any_cons, List.any_nil]
  cases x <;> simp

end Osmt.Rewrite

namespace Osmt.Rewrite
open Osmt
/-- the definition of the `div`/`mod` auxiliaries holds exactly when they are the Euclidean quotient and remainder -/
theorem divModDef_eval (I : Interp) (q r a : Term) (d qi ri ai : Int) (hd : d ≠ 0)
    (hq : eval I q = .n qi) (hr : eval I r = .n ri) (ha : eval I a = .n ai) :
    evalB I (divModDef q r a d) = true ↔ (qi = ai / d ∧ ri = ai % d) := by
  rw [← Osmt.IntRound.divmod_def ai d qi ri hd]
  simp only [divModDef, evalB, eval, evalList, applyOp, hq, hr, ha, Val.toBool, allEqAdj, chainRel,
    List.all_cons, List.all_nil, Bool.and_true, Bool.and_eq_true, decide_eq_true_eq, Val.n.injEq]
  simp only [Val.toRat, sumVals, prodVals, List.foldr]
  have habs : ((d.natAbs : Int) : Int) = |d| := Int.natCast_natAbs d
  have e1 : ((ai : Rat) = (d : Rat) * (qi : Rat) + ((ri : Rat) + 0)) ↔ ai = d * qi + ri := by
    rw [add_zero]; constructor
    · intro h; have : (ai : Rat) = ((d * qi + ri : Int) : Rat) := by rw [h]; push_cast; ring
      exact_mod_cast this
    · intro h; rw [h]; push_cast; ring
  have e2 : ((0 : Rat) ≤ (ri : Rat)) ↔ 0 ≤ ri := by exact_mod_cast Iff.rfl
  have e3 : ((ri : Rat) ≤ (((d.natAbs : Int) - 1 : Int) : Rat)) ↔ ri ≤ |d| - 1 := by rw [← habs]; exact_mod_cast Iff.rfl
  simp only [mul_one]
  rw [e1, e2, e3]
end Osmt.Rewrite

namespace Osmt.Rewrite
open Osmt

theorem flattenArgs_all (I : Interp) : ∀ args : List Term,
    (evalList I (flattenArgs .and args)).all Val.toBool = (evalList I args).all Val.toBool
  | [] => rfl
  | (.app o' as) :: r => by
    simp only [flattenArgs]
    split
    · rename_i h; subst h
      rw [evalList_eq_map, List.map_append, List.all_append, ← evalList_eq_map, ← evalList_eq_map, flattenArgs_all I r]
      simp only [evalList, List.all_cons, eval, applyOp, Val.toBool]
    · simp only [evalList, List.all_cons, flattenArgs_all I r]

theorem flattenArgs_any (I : Interp) : ∀ args : List Term,
    (evalList I (flattenArgs .or args)).any Val.toBool = (evalList I args).any Val.toBool
  | [] => rfl
  | (.app o' as) :: r => by
    simp only [flattenArgs]
    split
    · rename_i h; subst h
      rw [evalList_eq_map, List.map_append, List.any_append, ← evalList_eq_map, ← evalList_eq_map, flattenArgs_any I r]
      simp only [evalList, List.any_cons, eval, applyOp, Val.toBool]
    · simp only [evalList, List.any_cons, flattenArgs_any I r]

/-- flattening nested conjunctions / disjunctions keeps the value -/
theorem flatten_and_eval (I : Interp) (args : List Term) : eval I (flatten .and args) = eval I (.app .and args) := by
  simp only [flatten, eval, applyOp, flattenArgs_all]

theorem flatten_or_eval (I : Interp) (args : List Term) : eval I (flatten .or args) = eval I (.app .or args) := by
  simp only [flatten, eval, applyOp, flattenArgs_any]

/-- the transitivity fact of a full diamond is valid: conjoining it changes no model -/
theorem diamondFact_valid (I : Interp) (x y1 y2 z : Term) : evalB I (diamondFact x y1 y2 z) = true := by
  simp only [diamondFact, evalB, eval, evalList, applyOp, allEqAdj, Val.toBool, List.any_cons, List.any_nil, List.all_cons, List.all_nil,
    Bool.and_true, Bool.or_false]
  by_cases h1 : eval I x = eval I y1 <;> by_cases h2 : eval I y1 = eval I z <;> by_cases h3 : eval I x = eval I y2 <;>
    by_cases h4 : eval I y2 = eval I z <;> by_cases h5 : eval I x = eval I z <;> simp_all

end Osmt.Rewrite
