import Osmt.Conc
namespace Osmt.Conc

theorem alloc_fresh (p : Pool) (h : p.Inv) : (p.alloc).2 ∉ p.inUse := by
  unfold Pool.alloc
  cases hf : p.free with
  | nil =>
    simp only
    intro hm
    have := h.2 p.created (by simp [hf, hm])
    omega
  | cons c r =>
    simp only
    intro hm
    have hnd := h.1
    rw [hf] at hnd
    simp only [List.cons_append, List.nodup_cons, List.mem_append] at hnd
    exact hnd.1 (Or.inr hm)

theorem alloc_inv (p : Pool) (h : p.Inv) : (p.alloc).1.Inv := by
  unfold Pool.alloc
  cases hf : p.free with
  | nil =>
    simp only
    have hnd := h.1
    rw [hf] at hnd
    refine ⟨?_, ?_⟩
    · simp only [List.nil_append, List.nodup_cons]
      refine ⟨?_, by simpa using hnd⟩
      intro hm
      have := h.2 p.created (by simp [hf, hm])
      omega
    · intro c hc
      simp only [List.nil_append, List.mem_cons] at hc
      show c < p.created + 1
      rcases hc with rfl | hc
      · omega
      · have := h.2 c (by simp [hf, hc]); omega
  | cons c r =>
    simp only
    have hnd := h.1
    rw [hf] at hnd
    refine ⟨?_, ?_⟩
    · simp only [List.cons_append, List.nodup_cons, List.mem_append, List.nodup_append] at hnd ⊢
      obtain ⟨hc, hr, hu, hdis⟩ := hnd
      refine ⟨hr, ?_, ?_⟩
      · exact ⟨fun h => hc (Or.inr h), hu⟩
      · intro a ha b hb
        simp only [List.mem_cons] at hb
        rcases hb with rfl | hb
        · intro e; exact hc (Or.inl (e ▸ ha))
        · exact hdis a ha b hb
    · intro x hx
      apply h.2 x
      simp only [List.mem_append, List.mem_cons] at hx
      rw [hf]
      simp only [List.mem_append, List.mem_cons]
      rcases hx with hx | hx | hx
      · exact Or.inl (Or.inr hx)
      · exact Or.inl (Or.inl hx)
      · exact Or.inr hx

theorem release_inv (p : Pool) (c : Nat) (h : p.Inv) (hc : c ∈ p.inUse) : (p.release c).Inv := by
  unfold Pool.release
  have hnd := h.1
  simp only [List.nodup_append] at hnd
  obtain ⟨hf, hu, hdis⟩ := hnd
  refine ⟨?_, ?_⟩
  · simp only [List.cons_append, List.nodup_cons, List.mem_append, List.nodup_append]
    refine ⟨?_, hf, hu.erase c, ?_⟩
    · rintro (h1 | h1)
      · exact hdis c h1 c hc rfl
      · exact (List.Nodup.mem_erase_iff hu).mp h1 |>.1 rfl
    · intro a ha b hb
      exact hdis a ha b (List.mem_of_mem_erase hb)
  · intro x hx
    simp only [List.cons_append, List.mem_cons, List.mem_append] at hx
    rcases hx with rfl | hx | hx
    · exact h.2 _ (by simp [hc])
    · exact h.2 x (by simp [hx])
    · exact h.2 x (by simp [List.mem_of_mem_erase hx])

theorem inv_empty : ({} : Pool).Inv := ⟨by simp, by intro c hc; simp at hc⟩

/-- a stop request never creates an answer: the stopped run answers unknown or what the run without the request answers -/
theorem stop_unknown_or_same (search : Nat → Option Ans) (j : Nat) (fuel k : Nat) :
    solveLoop search (some j) fuel k = .unknown ∨ solveLoop search (some j) fuel k = solveLoop search none fuel k := by
  induction fuel generalizing k with
  | zero => left; rfl
  | succ n ih =>
    simp only [solveLoop]
    by_cases hjk : j ≤ k
    · simp [hjk]
    · simp only [hjk, decide_false, Bool.false_eq_true, if_false]
      cases hs : search k with
      | some a => right; rfl
      | none => exact ih (k + 1)

/-- a request that arrives before the first look at the flags gives unknown -/
theorem stop_before_start (search : Nat → Option Ans) (fuel : Nat) : solveLoop search (some 0) fuel 0 = .unknown := by
  cases fuel <;> simp [solveLoop]

end Osmt.Conc
