import Osmt.Conc
namespace Osmt.Conc

theorem alloc_fresh (p : Pool) (h : p.Inv) : (p.alloc).2 ∉ p.inUse := by
  unfold Pool.alloc
  cases hf : p.free with
  | nil =>
    simp only
    intro hm
    have := h.2 p.created (by simp [hf, hm])
    omega
  | cons c r =>
    simp only
    intro hm
    have hnd := h.1
    rw [hf] at hnd
    simp only [List.cons_append, List.nodup_cons, List.mem_append] at hnd
    exact hnd.1 (Or.inr hm)

theorem alloc_inv (p : Pool) (h : p.Inv) : (p.alloc).1.Inv := by
  unfold Pool.alloc
  cases hf : p.free with
  | nil =>
    simp only
    have hnd := h.1
    rw [hf] at hnd
    refine ⟨?_, ?_⟩
    · simp only [List.nil_append, List.nodup_cons]
      refine ⟨?_, by simpa using hnd⟩
      intro hm
      have := h.2 p.created (by simp [hf, hm])
      omega
    · intro c hc
      simp only [List.nil_append, List.mem_cons] at hc
      show c < p.created + 1
      rcases hc with rfl | hc
      · omega
      · have := h.2 c (by simp [hf, hc]); omega
  | cons c r =>
    simp only
    have hnd := h.1
    rw [hf] at hnd
    refine ⟨?_, ?_⟩
    · simp only [List.cons_append, List.nodup_cons, List.mem_append, List.nodup_append] at hnd ⊢
      obtain ⟨hc, hr, hu, hdis⟩ := hnd
      refine ⟨hr, ?_, ?_⟩
      · exact ⟨fun h => hc (Or.inr h), hu⟩
      · intro a ha b hb
        simp only [List.mem_cons] at hb
        rcases hb with rfl | hb
        · intro e; exact hc (Or.inl (e ▸ ha))
        · exact hdis a ha b hb
    · intro x hx
      apply h.2 x
      simp only [List.mem_append, List.mem_cons] at hx
      rw [hf]
      simp only [List.mem_append, List.mem_cons]
      rcases hx with hx | hx | hx
      · exact Or.inl (Or.inr hx)
      · exact Or.inl (Or.inl hx)
      · exact Or.inr hx

theorem release_inv (p : Pool) (c : Nat) (h : p.Inv) (hc : c ∈ p.inUse) : (p.release c).Inv := by
  unfold Pool.release
  have hnd := h.1
  simp only [List.nodup_append] at hnd
  obtain ⟨hf, hu, hdis⟩ := hnd
  refine ⟨?_, ?_⟩
  · simp only [List.cons_append, List.nodup_cons, List.mem_append, List.nodup_append]
    refine ⟨?_, hf, hu.erase c, ?_⟩
    · rintro (h1 | h1)
      · exact hdis c h1 c hc rfl
      · exact (List.Nodup.mem_erase_iff hu).mp h1 |>.1 rfl
    · intro a ha b hb
      exact hdis a ha b (List.mem_of_mem_erase hb)
  · intro x hx
    simp only [List.cons_append, List.mem_cons, List.mem_append] at hx
    rcases hx with rfl | hx | hx
    · exact h.2 _ (by simp [hc])
    · exact h.2 x (by simp [hx])
    · exact h.2 x (by simp [List.mem_of_mem_erase hx])

theorem inv_empty : ({} : Pool).Inv := ⟨by simp, by intro c hc; simp at hc⟩

/-- a stop request never creates an answer: the stopped run answers unknown or what the run without the request answers -/
theorem stop_unknown_or_same (search : Nat → Option Ans) (j : Nat) (fuel k : Nat) :
    solveLoop search (some j) fuel k = .unknown ∨ solveLoop search (some j) fuel k = solveLoop search none fuel k := by
  induction fuel generalizing k with
  | zero => left; rfl
  | succ n ih =>
    simp only [solveLoop]
    by_cases hjk : j ≤ k
    · simp [hjk]
    · simp only [hjk, decide_false, Bool.false_eq_true, if_false]
      cases hs : search k with
      | some a => right; rfl
      | none => exact ih (k + 1)

/-- a request that arrives before the first look at the flags gives unknown -/
theorem stop_before_start (search : Nat → Option Ans) (fuel : Nat) : solveLoop search (some 0) fuel 0 = .unknown := by
  cases fuel <;> simp [solveLoop]

def Sys.Inv (s : Sys) : Prop := s.pool.Inv ∧ s.owner.map Prod.fst = s.pool.inUse

theorem alloc_inUse (p : Pool) : p.alloc.1.inUse = p.alloc.2 :: p.inUse := by
  unfold Pool.alloc; cases p.free <;> rfl

theorem map_fst_erase (l : List (Nat × Nat)) (c t : Nat) (hn : (l.map Prod.fst).Nodup) (hm : (c, t) ∈ l) :
    (l.erase (c, t)).map Prod.fst = (l.map Prod.fst).erase c := by
  induction l with
  | nil => simp at hm
  | cons x r ih =>
    obtain ⟨a, b⟩ := x
    simp only [List.map_cons, List.nodup_cons] at hn
    by_cases he : (a, b) = (c, t)
    · obtain ⟨rfl, rfl⟩ := Prod.mk.inj he
      simp
    · have hr : (c, t) ∈ r := by
        rcases List.mem_cons.mp hm with h | h
        · exact absurd h.symm he
        · exact h
      have hac : a ≠ c := by
        intro e; subst e
        exact hn.1 (List.mem_map.mpr ⟨(a, t), hr, rfl⟩)
      rw [List.erase_cons_tail (by simpa using he)]
      simp only [List.map_cons]
      rw [List.erase_cons_tail (by simpa using hac)]
      rw [ih hn.2 hr]

theorem sys_step_inv (s : Sys) (op : POp) (h : s.Inv) : (s.step op).Inv := by
  cases op with
  | alloc t =>
    refine ⟨alloc_inv _ h.1, ?_⟩
    simp only [Sys.step, List.map_cons, alloc_inUse, h.2]
  | release t c =>
    simp only [Sys.step]
    split
    · rename_i hm
      have hc : c ∈ s.pool.inUse := by rw [← h.2]; exact List.mem_map.mpr ⟨(c, t), hm, rfl⟩
      refine ⟨release_inv _ _ h.1 hc, ?_⟩
      have hn : (s.owner.map Prod.fst).Nodup := by
        rw [h.2]; exact (List.nodup_append.mp h.1.1).2.1
      simp only [Pool.release]
      rw [map_fst_erase _ _ _ hn hm, h.2]
    · exact h

theorem sys_inv_init : ({} : Sys).Inv := ⟨inv_empty, rfl⟩

/-- every state reached by any interleaving of the threads' operations keeps the invariant -/
theorem sys_run_inv (s : Sys) (ops : List POp) (h : s.Inv) : (s.run ops).Inv := by
  induction ops generalizing s with
  | nil => exact h
  | cons op r ih => exact ih _ (sys_step_inv s op h)

theorem snd_eq_of_nodup_fst (l : List (Nat × Nat)) (hn : (l.map Prod.fst).Nodup) (c t1 t2 : Nat)
    (h1 : (c, t1) ∈ l) (h2 : (c, t2) ∈ l) : t1 = t2 := by
  induction l with
  | nil => simp at h1
  | cons x r ih =>
    simp only [List.map_cons, List.nodup_cons] at hn
    rcases List.mem_cons.mp h1 with e1 | m1 <;> rcases List.mem_cons.mp h2 with e2 | m2
    · rw [← e2] at e1; exact (Prod.mk.inj e1).2
    · exact absurd (List.mem_map.mpr ⟨(c, t2), m2, by rw [← e1]⟩) hn.1
    · exact absurd (List.mem_map.mpr ⟨(c, t1), m1, by rw [← e2]⟩) hn.1
    · exact ih hn.2 m1 m2

/-- in every reachable state a cell is held by at most one thread -/
theorem sys_exclusive (s : Sys) (h : s.Inv) (c t1 t2 : Nat) (h1 : (c, t1) ∈ s.owner) (h2 : (c, t2) ∈ s.owner) : t1 = t2 := by
  have hn : (s.owner.map Prod.fst).Nodup := by
    rw [h.2]; exact (List.nodup_append.mp h.1.1).2.1
  exact snd_eq_of_nodup_fst _ hn c t1 t2 h1 h2

/-- the cell an `alloc` hands to a thread is held by no thread at that moment -/
theorem sys_alloc_unowned (s : Sys) (h : s.Inv) (t : Nat) : (s.pool.alloc.2, t) ∉ s.owner := by
  intro hm
  have : s.pool.alloc.2 ∈ s.pool.inUse := by rw [← h.2]; exact List.mem_map.mpr ⟨_, hm, rfl⟩
  exact alloc_fresh _ h.1 this

/-! ## more about the stop loop -/

/-- a definitive answer of the stopped run is the answer of the undisturbed run -/
theorem stop_definitive_same (search : Nat → Option Ans) (j fuel k : Nat) (a : Ans) (ha : a ≠ .unknown)
    (h : solveLoop search (some j) fuel k = a) : solveLoop search none fuel k = a := by
  rcases stop_unknown_or_same search j fuel k with hu | hs
  · rw [hu] at h; exact absurd h.symm ha
  · rw [← hs]; exact h

/-- a request seen from round `j` on gives `unknown` when no round before `j` decides -/
theorem stop_undecided_unknown (search : Nat → Option Ans) (j fuel k : Nat)
    (hund : ∀ i, k ≤ i → i < j → search i = none) : solveLoop search (some j) fuel k = .unknown := by
  induction fuel generalizing k with
  | zero => rfl
  | succ n ih =>
    simp only [solveLoop]
    by_cases hjk : j ≤ k
    · simp [hjk]
    · simp only [hjk, decide_false, Bool.false_eq_true, if_false]
      rw [hund k (Nat.le_refl k) (by omega)]
      exact ih (k + 1) (fun i hi hij => hund i (by omega) hij)

/-- a later request disturbs no more than an earlier one: once the run with a request at `j` is definitive, so is the
    run with a request at any `j' ≥ j`, with the same answer -/
theorem stop_later_same (search : Nat → Option Ans) (j j' fuel k : Nat) (hjj : j ≤ j') (a : Ans) (ha : a ≠ .unknown)
    (h : solveLoop search (some j) fuel k = a) : solveLoop search (some j') fuel k = a := by
  induction fuel generalizing k with
  | zero => simp [solveLoop] at h; exact absurd h.symm ha
  | succ n ih =>
    simp only [solveLoop] at h ⊢
    by_cases hjk : j ≤ k
    · simp [hjk] at h; exact absurd h.symm ha
    · have hjk' : ¬ j' ≤ k := by omega
      simp only [hjk, hjk', decide_false, Bool.false_eq_true, if_false] at h ⊢
      cases hs : search k with
      | some b => rw [hs] at h; exact h
      | none => rw [hs] at h; exact ih (k + 1) h

@[simp] theorem visible_none (k i : Nat) : visible none k i = false := rfl

theorem visible_next (s : Nat × Nat) (k i : Nat) (h : visible (some s) k i = true) : visible (some s) (k + 1) 0 = true := by
  obtain ⟨k0, i0⟩ := s
  simp only [visible, Bool.or_eq_true, Bool.and_eq_true, decide_eq_true_eq] at h ⊢
  left; omega

theorem inner_stop (iter : Nat → Nat → Option Ans) (s : Nat × Nat) (k f i : Nat) :
    inner iter (some s) k f i = inner iter none k f i ∨
    (inner iter (some s) k f i = none ∧ visible (some s) (k + 1) 0 = true) := by
  induction f generalizing i with
  | zero => left; rfl
  | succ n ih =>
    simp only [inner]
    cases hv : visible (some s) k i with
    | true => right; exact ⟨by simp, visible_next s k i hv⟩
    | false =>
      simp only [visible, Bool.false_eq_true, if_false]
      cases hs : iter k i with
      | some a => left; rfl
      | none => exact ih (i + 1)

theorem solve2_stopped_unknown (iter : Nat → Nat → Option Ans) (s : Nat × Nat) (budget : Nat → Nat) (F k : Nat)
    (h : visible (some s) k 0 = true) : solve2 iter (some s) budget F k = .unknown := by
  cases F with
  | zero => rfl
  | succ n => simp [solve2, h]

/-- a request at any poll of any round: the answer is unknown or the answer of the run without the request -/
theorem solve2_unknown_or_same (iter : Nat → Nat → Option Ans) (s : Nat × Nat) (budget : Nat → Nat) (F k : Nat) :
    solve2 iter (some s) budget F k = .unknown ∨ solve2 iter (some s) budget F k = solve2 iter none budget F k := by
  induction F generalizing k with
  | zero => left; rfl
  | succ n ih =>
    cases hv : visible (some s) k 0 with
    | true => left; exact solve2_stopped_unknown iter s budget (n + 1) k hv
    | false =>
      simp only [solve2, hv, visible_none, Bool.false_eq_true, if_false]
      rcases inner_stop iter s k (budget k) 0 with he | ⟨hn, hv'⟩
      · rw [he]
        cases hi : inner iter none k (budget k) 0 with
        | some a => right; rfl
        | none => exact ih (k + 1)
      · rw [hn]; left
        exact solve2_stopped_unknown iter s budget n (k + 1) hv'

end Osmt.Conc
