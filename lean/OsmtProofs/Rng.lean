import Osmt.Rng
import Mathlib.Data.Nat.GCD.Basic
namespace Osmt.Rng

theorem coprime_a_m : Nat.Coprime a m := by decide +kernel

/-- the state never leaves [1, m-1]: it is never 0 (which would freeze the generator) -/
theorem next_range (s : Nat) (h0 : 0 < s) (hm : s < m) : 0 < next s ∧ next s < m := by
  refine ⟨?_, Nat.mod_lt _ (by decide)⟩
  unfold next
  rcases Nat.eq_zero_or_pos ((s * a) % m) with h | h
  · exfalso
    have hd : m ∣ s * a := Nat.dvd_of_mod_eq_zero h
    have hd' : m ∣ s := (Nat.Coprime.dvd_of_dvd_mul_right coprime_a_m.symm hd)
    exact absurd (Nat.le_of_dvd h0 hd') (by omega)
  · exact h

/-- `irand` stays below the size it was given -/
theorem irand_lt (s size : Nat) (hs : 0 < size) : irand s size < size := by
  unfold irand
  have h : next s < m := Nat.mod_lt _ (by decide)
  rw [Nat.div_lt_iff_lt_mul (by decide : 0 < m)]
  calc next s * size < m * size := Nat.mul_lt_mul_of_pos_right h hs
    _ = size * m := Nat.mul_comm _ _

/-- the whole stream is a function of the seed alone, and stays in range -/
theorem states_range (n s : Nat) (h0 : 0 < s) (hm : s < m) : ∀ x ∈ states s n, 0 < x ∧ x < m := by
  induction n generalizing s with
  | zero => intro x hx; simp [states] at hx
  | succ k ih =>
    intro x hx
    simp only [states, List.mem_cons] at hx
    have hr := next_range s h0 hm
    rcases hx with rfl | hx
    · exact hr
    · exact ih (next s) hr.1 hr.2 x hx

theorem states_length (n s : Nat) : (states s n).length = n := by
  induction n generalizing s with
  | zero => rfl
  | succ k ih => simp [states, ih]

end Osmt.Rng
