import Osmt.Front
/-! A rejected command is a no-op of the front-end machine; scripts with rejected commands behave as the scripts without them. -/
namespace Osmt.Front

/-- a rejected command returns the state unchanged -/
theorem step_err_id (s : St) (c : Cmd) (h : (step s c).2 = .err) : (step s c).1 = s := by
  cases c <;> simp only [step] at h ⊢ <;> (try split at h) <;> (try split) <;> simp_all

theorem run_append (s : St) (p q : List Cmd) :
    run s (p ++ q) = ((run (run s p).1 q).1, (run s p).2 ++ (run (run s p).1 q).2) := by
  induction p generalizing s with
  | nil => simp [run]
  | cons c r ih => simp [run, ih]

/-- inserting a command that is rejected where it stands changes nothing but its own error response -/
theorem run_insert_rejected (s : St) (p q : List Cmd) (c : Cmd) (h : (step (run s p).1 c).2 = .err) :
    (run s (p ++ c :: q)).1 = (run s (p ++ q)).1 ∧
    (run s (p ++ c :: q)).2 = (run s p).2 ++ .err :: (run (run s p).1 q).2 ∧
    (run s (p ++ q)).2 = (run s p).2 ++ (run (run s p).1 q).2 := by
  have hid := step_err_id _ c h
  rw [run_append, run_append]
  simp only [run]
  rw [hid, h]
  refine ⟨?_, ?_, ?_⟩ <;> first | rfl | trivial

/-- the final state of a script is the final state of its accepted commands -/
theorem run_accepted (s : St) (cs : List Cmd) : (run s cs).1 = (run s (accepted s cs)).1 := by
  induction cs generalizing s with
  | nil => rfl
  | cons c r ih =>
    simp only [run, accepted]
    by_cases h : (step s c).2 = .err
    · rw [if_pos h]
      have := step_err_id s c h
      rw [this]; exact ih s
    · rw [if_neg h]; simp only [run]; exact ih _

/-- ... and every accepted command is answered `ok` there -/
theorem accepted_all_ok (s : St) (cs : List Cmd) : ∀ o ∈ (run s (accepted s cs)).2, o = .ok := by
  induction cs generalizing s with
  | nil => intro o ho; simp [accepted, run] at ho
  | cons c r ih =>
    simp only [accepted]
    by_cases h : (step s c).2 = .err
    · rw [if_pos h]; exact ih s
    · rw [if_neg h]
      intro o ho
      simp only [run, List.mem_cons] at ho
      rcases ho with rfl | ho
      · cases hr : (step s c).2 with
        | ok => rfl
        | err => exact absurd hr h
      · exact ih _ o ho

/-- names of popped levels are forgotten, names of surviving levels are kept -/
theorem pop_names (s : St) (n : Nat) (h : (step s (.pop n)).2 = .ok) :
    (step s (.pop n)).1.names = s.names.take (s.names.length - n) := by
  simp only [step] at h ⊢
  split at h
  · simp at h
  · rename_i hc
    simp only [Bool.or_eq_true, Bool.not_eq_eq_eq_not, Bool.not_true, decide_eq_true_eq, not_or] at hc
    have : ¬ s.levels.length ≤ n := hc.2
    simp [hc.1.1, hc.1.2, this]

end Osmt.Front
