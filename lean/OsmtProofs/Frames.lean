import Osmt.Frames
/-! Invariants of the frame bookkeeping for all push/pop/assert histories. -/
namespace Osmt.Frames

theorem dropLast_append_last {β : Type} : ∀ (l : List β) (a : β), l.getLast? = some a → l.dropLast ++ [a] = l
  | [], a, h => by simp at h
  | [x], a, h => by simp at h; simp [h]
  | x :: y :: r, a, h => by
    have : (y :: r).getLast? = some a := by simpa [List.getLast?_cons_cons] using h
    simp [List.dropLast, dropLast_append_last (y :: r) a this]

/-- frame terms and ids are in step; the base frame 0 is at the bottom; ids on the stack are strictly
increasing and below the next id -/
def Inv {α} (s : St α) : Prop :=
  s.frameTerms = s.frameId ∧ (enabledIds s).head? = some 0 ∧
  (enabledIds s).Pairwise (· < ·) ∧ ∀ i ∈ enabledIds s, i < s.frameId

theorem inv_init {α} : Inv (init : St α) := by
  refine ⟨rfl, rfl, ?_, ?_⟩ <;> simp [init, enabledIds]

theorem pairwise_append_lt {l : List Nat} {n : Nat} (h : l.Pairwise (· < ·)) (hb : ∀ i ∈ l, i < n) :
    (l ++ [n]).Pairwise (· < ·) := by
  rw [List.pairwise_append]
  exact ⟨h, by simp, fun a ha b hb' => by simp at hb'; subst hb'; exact hb a ha⟩

theorem step_inv {α} (s : St α) (op : Op α) (h : Inv s) : Inv (step s op) := by
  obtain ⟨h1, h2, h3, h4⟩ := h
  cases op with
  | push =>
    refine ⟨by simp [step, h1], ?_, ?_, ?_⟩
    · simp only [step, enabledIds, List.map_append, List.head?_append]
      simp only [enabledIds] at h2
      simp [h2]
    · simp only [step, enabledIds, List.map_append, List.map_cons, List.map_nil]
      exact pairwise_append_lt h3 h4
    · intro i hi
      simp only [step, enabledIds, List.map_append, List.map_cons, List.map_nil, List.mem_append,
        List.mem_singleton] at hi
      rcases hi with hi | hi
      · have := h4 i hi; simp [step]; omega
      · simp [step, hi]
  | pop =>
    simp only [step]
    split
    · exact ⟨h1, h2, h3, h4⟩
    · rename_i hlen
      have hsub : (enabledIds ({ s with frames := s.frames.dropLast } : St α)).Sublist (enabledIds s) := by
        simp only [enabledIds, List.map_dropLast]
        exact List.dropLast_sublist _
      refine ⟨h1, ?_, List.Pairwise.sublist hsub h3, fun i hi => h4 i (hsub.subset hi)⟩
      simp only [enabledIds, List.map_dropLast, List.head?_dropLast, List.length_map]
      simp only [enabledIds] at h2
      have : 1 < s.frames.length := by omega
      simp [this, h2]
  | assert f =>
    simp only [step]
    split
    · rename_i fr hfr
      have hids : enabledIds ({ s with frames := s.frames.dropLast ++ [{ fr with formulas := fr.formulas ++ [f] }] } : St α)
          = enabledIds s := by
        simp only [enabledIds, List.map_append, List.map_cons, List.map_nil]
        have e := dropLast_append_last s.frames fr hfr
        conv => rhs; rw [← e]
        simp
      exact ⟨h1, by rw [hids]; exact h2, by rw [hids]; exact h3, by rw [hids]; exact h4⟩
    · exact ⟨h1, h2, h3, h4⟩

theorem run_inv {α} (ops : List (Op α)) : Inv (run ops) := by
  unfold run
  suffices ∀ s : St α, Inv s → Inv (ops.foldl step s) from this init inv_init
  induction ops with
  | nil => intro s h; exact h
  | cons op ops ih => intro s h; exact ih _ (step_inv s op h)

theorem mem_range_tail (n i : Nat) : i ∈ (List.range n).tail ↔ 0 < i ∧ i < n := by
  cases n with
  | zero => simp
  | succ n =>
    rw [List.range_succ_eq_map]
    simp only [List.tail_cons, List.mem_map, List.mem_range]
    constructor
    · rintro ⟨a, ha, rfl⟩; omega
    · rintro ⟨h1, h2⟩; exact ⟨i - 1, by omega, by omega⟩

theorem enabled_exact_of_inv {α} (s : St α) (hinv : Inv s) :
    (∀ i, 0 < i → i < s.frameId → ((i, true) ∈ assumptions s ↔ i ∈ enabledIds s)) ∧
    (∀ i, 0 < i → i < s.frameId → ((i, false) ∈ assumptions s ↔ i ∉ enabledIds s)) ∧
    (∀ p ∈ assumptions s, 0 < p.1 ∧ p.1 < s.frameId) := by
  obtain ⟨h1, _, _, _⟩ := hinv
  have hmem : ∀ i b, (i, b) ∈ assumptions s ↔ (0 < i ∧ i < s.frameTerms ∧ b = decide (i ∈ enabledIds s)) := by
    intro i b
    simp only [assumptions, List.mem_map, Prod.mk.injEq, mem_range_tail]
    constructor
    · rintro ⟨j, ⟨hp, hl⟩, rfl, rfl⟩; exact ⟨hp, hl, rfl⟩
    · rintro ⟨hp, hl, rfl⟩; exact ⟨i, ⟨hp, hl⟩, rfl, rfl⟩
  refine ⟨?_, ?_, ?_⟩
  · intro i hp hl; rw [hmem]; simp [hp, h1, hl]
  · intro i hp hl; rw [hmem]; simp [hp, h1, hl]
  · intro p hp
    have := (hmem p.1 p.2).mp hp
    exact ⟨this.1, h1 ▸ this.2.1⟩

/-- **enabled_exact**: in every reachable state the assumption vector built by `solve_` has one entry for every
frame id ever created except the base, and enables exactly the ids of the frames on the stack. -/
theorem enabled_exact {α} (ops : List (Op α)) :
    (∀ i, 0 < i → i < (run ops).frameId → ((i, true) ∈ assumptions (run ops) ↔ i ∈ enabledIds (run ops))) ∧
    (∀ i, 0 < i → i < (run ops).frameId → ((i, false) ∈ assumptions (run ops) ↔ i ∉ enabledIds (run ops))) ∧
    (∀ p ∈ assumptions (run ops), 0 < p.1 ∧ p.1 < (run ops).frameId) :=
  enabled_exact_of_inv (run ops) (run_inv ops)

/-- what a fresh solver is given is exactly the formulas of the frames on the stack, oldest first -/
theorem active_push {α} (s : St α) : active (step s .push) = active s := by
  simp [step, active]

theorem active_assert {α} (s : St α) (f : α) (h : s.frames ≠ []) : active (step s (.assert f)) = active s ++ [f] := by
  simp only [step]
  cases hl : s.frames.getLast? with
  | none => simp [List.getLast?_eq_none_iff] at hl; exact absurd hl h
  | some fr =>
    simp only [active, List.flatMap_append, List.flatMap_cons, List.flatMap_nil, List.append_nil]
    have e := dropLast_append_last s.frames fr hl
    conv => rhs; rw [← e]
    simp

/-- popping removes exactly the formulas of the top frame -/
theorem active_pop {α} (s : St α) (fr : Frame α) (h : s.frames.getLast? = some fr) (hlen : 1 < s.frames.length) :
    active (step s .pop) ++ fr.formulas = active s := by
  simp only [step]
  have : ¬ s.frames.length ≤ 1 := by omega
  simp only [this, if_false, active]
  have e := dropLast_append_last s.frames fr h
  conv => rhs; rw [← e]
  simp

end Osmt.Frames
