import Osmt.Mk
import OsmtProofs.Skel
/-! Semantic correctness of the mirrored Boolean constructors: each returns a term equivalent to the operator
applied to its arguments, in every interpretation. -/
namespace Osmt.Mk
open Osmt

@[simp] theorem evalB_tru (I : Interp) : evalB I tru = true := by simp [tru, evalB, eval, evalList, applyOp, Val.toBool]
@[simp] theorem evalB_fls (I : Interp) : evalB I fls = false := by simp [fls, evalB, eval, evalList, applyOp, Val.toBool]
theorem evalB_not (I : Interp) (t : Term) : evalB I (.app .not [t]) = !evalB I t := by
  simp [evalB, eval, evalList, applyOp, Val.toBool]
theorem evalB_and (I : Interp) (ts : List Term) : evalB I (.app .and ts) = ts.all (evalB I) := by
  simp only [evalB, eval, applyOp, Val.toBool, evalList_eq_map, List.all_map]; rfl
theorem evalB_or (I : Interp) (ts : List Term) : evalB I (.app .or ts) = ts.any (evalB I) := by
  simp only [evalB, eval, applyOp, Val.toBool, evalList_eq_map, List.any_map]; rfl

theorem mkNot_eval (I : Interp) (t : Term) : evalB I (mkNot t) = !evalB I t := by
  unfold mkNot
  split
  · rename_i x; simp [evalB_not]
  · split
    · rename_i h; simp [isTrue] at h; subst h; simp
    · split
      · rename_i h; simp [isFalse] at h; subst h; simp
      · exact evalB_not I t

def litEval (I : Interp) (l : Term × Bool) : Bool := if l.2 then evalB I l.1 else !evalB I l.1

theorem toLit_eval (I : Interp) (t : Term) : litEval I (toLit t) = evalB I t := by
  unfold toLit
  split
  · rename_i x; simp [litEval, evalB_not]
  · simp [litEval]

theorem ofLit_eval (I : Interp) (l : Term × Bool) : evalB I (ofLit l) = litEval I l := by
  unfold ofLit litEval
  split
  · rfl
  · exact mkNot_eval I l.1

theorem litEval_compl (I : Interp) (t : Term) (s : Bool) : litEval I (t, !s) = !litEval I (t, s) := by
  cases s <;> simp [litEval]

def accAnd (I : Interp) : Option (List (Term × Bool)) → Bool
  | none => false
  | some ls => ls.all (litEval I)

theorem andStep_eval (I : Interp) (acc : Option (List (Term × Bool))) (l : Term × Bool) :
    accAnd I (andStep acc l) = (accAnd I acc && litEval I l) := by
  cases acc with
  | none => simp [andStep, accAnd]
  | some ls =>
    obtain ⟨t, s⟩ := l
    simp only [andStep]
    split
    · rename_i h
      simp only [Bool.and_eq_true, isFalse, decide_eq_true_eq] at h
      obtain ⟨rfl, rfl⟩ := h
      simp [accAnd, litEval]
    · split
      · rename_i _ h
        simp only [Bool.and_eq_true, isTrue, decide_eq_true_eq] at h
        obtain ⟨rfl, rfl⟩ := h
        simp [accAnd, litEval]
      · split
        · rename_i _ _ h
          have hm : (t, s) ∈ ls := by simpa using h
          simp only [accAnd]
          cases hall : ls.all (litEval I) with
          | false => simp
          | true =>
            have := List.all_eq_true.mp hall (t, s) hm
            simp [this]
        · split
          · rename_i _ _ _ h
            have hm : (t, !s) ∈ ls := by simpa using h
            simp only [accAnd]
            cases hall : ls.all (litEval I) with
            | false => simp
            | true =>
              have := List.all_eq_true.mp hall (t, !s) hm
              rw [litEval_compl] at this
              simp at this
              simp [this]
          · simp [accAnd, List.all_append]

theorem foldl_andStep (I : Interp) : ∀ (lits : List (Term × Bool)) (acc : Option (List (Term × Bool))),
    accAnd I (lits.foldl andStep acc) = (accAnd I acc && lits.all (litEval I))
  | [], acc => by simp
  | l :: r, acc => by
    simp only [List.foldl_cons, List.all_cons]
    rw [foldl_andStep I r, andStep_eval, Bool.and_assoc]

/-- **mkAnd**: the constructed term is equivalent to the conjunction of the arguments -/
theorem mkAnd_eval (I : Interp) (args : List Term) : evalB I (mkAnd args) = args.all (evalB I) := by
  have key := foldl_andStep I (args.map toLit) (some [])
  have hall : (args.map toLit).all (litEval I) = args.all (evalB I) := by
    simp [List.all_map, Function.comp_def, toLit_eval]
  simp only [accAnd, List.all_nil, Bool.true_and, hall] at key
  unfold mkAnd
  split
  · rename_i h; rw [h] at key; simpa [accAnd] using key
  · rename_i h; rw [h] at key; simpa [accAnd] using key
  · rename_i l h; rw [h] at key; simp only [accAnd, List.all_cons, List.all_nil, Bool.and_true] at key
    rw [ofLit_eval]; exact key
  · rename_i ls _ _ h; rw [h] at key
    rw [evalB_and, List.all_map]
    simp only [accAnd] at key
    rw [← key]
    congr 1
    funext l
    exact ofLit_eval I l

def accOr (I : Interp) : Option (List (Term × Bool)) → Bool
  | none => true
  | some ls => ls.any (litEval I)

theorem orStep_eval (I : Interp) (acc : Option (List (Term × Bool))) (l : Term × Bool) :
    accOr I (orStep acc l) = (accOr I acc || litEval I l) := by
  cases acc with
  | none => simp [orStep, accOr]
  | some ls =>
    obtain ⟨t, s⟩ := l
    simp only [orStep]
    split
    · rename_i h
      simp only [Bool.and_eq_true, isTrue, decide_eq_true_eq] at h
      obtain ⟨rfl, rfl⟩ := h
      simp [accOr, litEval]
    · split
      · rename_i _ h
        simp only [Bool.and_eq_true, isFalse, decide_eq_true_eq] at h
        obtain ⟨rfl, rfl⟩ := h
        simp [accOr, litEval]
      · split
        · rename_i _ _ h
          have hm : (t, s) ∈ ls := by simpa using h
          simp only [accOr]
          cases hl : litEval I (t, s) with
          | false => simp
          | true =>
            have : ls.any (litEval I) = true := List.any_eq_true.mpr ⟨(t, s), hm, hl⟩
            simp [this]
        · split
          · rename_i _ _ _ h
            have hm : (t, !s) ∈ ls := by simpa using h
            simp only [accOr]
            cases hl : litEval I (t, s) with
            | true => simp
            | false =>
              have h2 : litEval I (t, !s) = true := by rw [litEval_compl, hl]; rfl
              have : ls.any (litEval I) = true := List.any_eq_true.mpr ⟨(t, !s), hm, h2⟩
              simp [this]
          · simp [accOr, List.any_append]

theorem foldl_orStep (I : Interp) : ∀ (lits : List (Term × Bool)) (acc : Option (List (Term × Bool))),
    accOr I (lits.foldl orStep acc) = (accOr I acc || lits.any (litEval I))
  | [], acc => by simp
  | l :: r, acc => by
    simp only [List.foldl_cons, List.any_cons]
    rw [foldl_orStep I r, orStep_eval, Bool.or_assoc]

/-- **mkOr**: the constructed term is equivalent to the disjunction of the arguments -/
theorem mkOr_eval (I : Interp) (args : List Term) : evalB I (mkOr args) = args.any (evalB I) := by
  have key := foldl_orStep I (args.map toLit) (some [])
  have hany : (args.map toLit).any (litEval I) = args.any (evalB I) := by
    simp [List.any_map, Function.comp_def, toLit_eval]
  simp only [accOr, List.any_nil, Bool.false_or, hany] at key
  unfold mkOr
  split
  · rename_i h; rw [h] at key; simpa [accOr] using key
  · rename_i h; rw [h] at key; simpa [accOr] using key
  · rename_i l h; rw [h] at key; simp only [accOr, List.any_cons, List.any_nil, Bool.or_false] at key
    rw [ofLit_eval]; exact key
  · rename_i ls _ _ h; rw [h] at key
    rw [evalB_or, List.any_map]
    simp only [accOr] at key
    rw [← key]
    congr 1
    funext l
    exact ofLit_eval I l

theorem evalB_xor (I : Interp) (a b : Term) : evalB I (.app .xor [a, b]) = (evalB I a != evalB I b) := by
  simp [evalB, eval, evalList, applyOp, Val.toBool]

/-- **mkXor** -/
theorem mkXor_eval (I : Interp) (a b : Term) : evalB I (mkXor a b) = (evalB I a != evalB I b) := by
  unfold mkXor
  split
  · rename_i h; subst h; simp
  split
  · rename_i _ h; rw [h, mkNot_eval]; cases evalB I b <;> simp
  split
  · rename_i _ _ h; subst h; rw [mkNot_eval]; simp
  split
  · rename_i _ _ _ h; subst h; rw [mkNot_eval]; cases evalB I a <;> simp
  split
  · rename_i _ _ _ _ h; subst h; simp
  split
  · rename_i _ _ _ _ _ h; subst h; cases evalB I a <;> simp
  · exact evalB_xor I a b

/-- **mkImpl** -/
theorem mkImpl_eval (I : Interp) (a b : Term) : evalB I (mkImpl a b) = (!evalB I a || evalB I b) := by
  unfold mkImpl
  split
  · rename_i h; simp [isFalse] at h; subst h; simp
  split
  · rename_i _ h; simp [isTrue] at h; subst h; simp
  split
  · rename_i _ _ h
    simp only [Bool.and_eq_true, isTrue, isFalse, decide_eq_true_eq] at h
    obtain ⟨rfl, rfl⟩ := h; simp
  · rw [mkOr_eval]; simp [mkNot_eval]

/-- **mkIte**: for every sort of the branches -/
theorem mkIte_eval (I : Interp) (c a b : Term) :
    eval I (mkIte c a b) = if evalB I c then eval I a else eval I b := by
  unfold mkIte
  split
  · rename_i h; simp [isTrue] at h; subst h; simp
  split
  · rename_i _ h; simp [isFalse] at h; subst h; simp
  split
  · rename_i _ _ h; subst h; simp
  · simp only [eval, evalList, applyOp, evalB]
    split <;> simp_all

theorem evalB_eq2 (I : Interp) (a b : Term) : evalB I (.app .eq [a, b]) = decide (eval I a = eval I b) := by
  simp [evalB, eval, evalList, applyOp, allEqAdj, Val.toBool]

theorem isConstant_ne (I : Interp) (l r : Term) (hl : isConstant l = true) (hr : isConstant r = true) (hne : l ≠ r) :
    eval I l ≠ eval I r := by
  unfold isConstant at hl hr
  split at hl <;> split at hr <;> simp_all [eval, evalList, applyOp]

/-- **mkBinaryEq**: equivalent to equality of the argument values (Boolean simplifications need Boolean-valued
arguments, i.e. a well-formed interpretation) -/
theorem mkBinaryEq_eval (I : Interp) (hI : I.WF) (l r : Term) :
    evalB I (mkBinaryEq l r) = decide (eval I l = eval I r) := by
  unfold mkBinaryEq
  split
  · rename_i h; subst h; simp
  split
  · rename_i hne h
    simp only [Bool.and_eq_true] at h
    have := isConstant_ne I l r h.1 h.2 hne
    simp [this]
  split
  · rename_i _ _ hb
    simp only [Bool.and_eq_true] at hb
    obtain ⟨x, hx⟩ := isBool_eval I hI l hb.1
    obtain ⟨y, hy⟩ := isBool_eval I hI r hb.2
    have ex : evalB I l = x := by simp [evalB, hx, Val.toBool]
    have ey : evalB I r = y := by simp [evalB, hy, Val.toBool]
    split
    · rename_i h
      have : evalB I l = !evalB I r := by rw [h, mkNot_eval]
      rw [ex, ey] at this
      simp [hx, hy, this]
    split
    · rename_i _ h; subst h
      have : x = true := by simpa using ex.symm
      subst this
      rw [ey, hx, hy]; cases y <;> simp
    split
    · rename_i _ _ h; subst h
      have : y = true := by simpa using ey.symm
      subst this
      rw [ex, hx, hy]; cases x <;> simp
    split
    · rename_i _ _ _ h; subst h
      have : x = false := by simpa using ex.symm
      subst this
      rw [mkNot_eval, ey, hx, hy]; cases y <;> simp
    split
    · rename_i _ _ _ _ h; subst h
      have : y = false := by simpa using ey.symm
      subst this
      rw [mkNot_eval, ex, hx, hy]; cases x <;> simp
    · exact evalB_eq2 I l r
  · exact evalB_eq2 I l r

end Osmt.Mk

namespace Osmt.Mk
open Osmt

theorem eqChain_eval (I : Interp) (hI : I.WF) : ∀ (args : List Term),
    (eqChain args).all (evalB I) = allEqAdj (evalList I args)
  | [] => by simp [eqChain, evalList, allEqAdj]
  | [a] => by simp [eqChain, evalList, allEqAdj]
  | a :: b :: r => by
    simp only [eqChain, List.all_cons, evalList, allEqAdj]
    rw [mkBinaryEq_eval I hI, eqChain_eval I hI (b :: r)]
    simp [evalList]

/-- **mkEq** (chain of binary equalities) -/
theorem mkEq_eval (I : Interp) (hI : I.WF) (args : List Term) :
    evalB I (mkEq args) = allEqAdj (evalList I args) := by
  unfold mkEq
  split
  · rename_i a b
    rw [mkBinaryEq_eval I hI]
    simp [evalList, allEqAdj]
  · rw [mkAnd_eval, eqChain_eval I hI]

theorem evalB_eq_list (I : Interp) (ts : List Term) : evalB I (.app .eq ts) = allEqAdj (evalList I ts) := by
  simp [evalB, eval, applyOp, Val.toBool]

/-- Boolean terms evaluate to the Boolean value `evalB` reads off -/
theorem eval_of_isBool (I : Interp) (hI : I.WF) (t : Term) (h : t.isBool = true) : eval I t = .b (evalB I t) := by
  obtain ⟨x, hx⟩ := isBool_eval I hI t h
  simp [evalB, hx, Val.toBool]

end Osmt.Mk

namespace Osmt.Mk
open Osmt

theorem evalB_distinct (I : Interp) (ts : List Term) :
    evalB I (.app .distinct ts) = pairwiseDistinct (evalList I ts) := by
  simp [evalB, eval, applyOp, Val.toBool]

/-- three Boolean values are never pairwise distinct -/
theorem bool_three_not_distinct (x y z : Bool) (r : List Val) :
    pairwiseDistinct (.b x :: .b y :: .b z :: r) = false := by
  cases x <;> cases y <;> cases z <;> simp [pairwiseDistinct]

/-- **mkDistinct** on Boolean arguments -/
theorem mkDistinctB_eval (I : Interp) (hI : I.WF) (args : List Term) (hb : ∀ a ∈ args, a.isBool = true) :
    evalB I (mkDistinctB args) = pairwiseDistinct (evalList I args) := by
  unfold mkDistinctB
  split
  · simp [evalList, pairwiseDistinct]
  · simp [evalList, pairwiseDistinct]
  · rename_i a b
    rw [mkNot_eval, mkEq_eval I hI]
    simp only [evalList, allEqAdj, pairwiseDistinct, List.all_cons, List.all_nil, Bool.and_true]
    by_cases h : eval I a = eval I b
    · simp [h]
    · have h' : ¬ eval I b = eval I a := fun e => h e.symm
      simp [h, h']
  · rename_i h1 h2 h3
    cases args with
    | nil => exact absurd rfl h1
    | cons a r =>
      cases r with
      | nil => exact absurd rfl (h2 a)
      | cons b r2 =>
        cases r2 with
        | nil => exact absurd rfl (h3 a b)
        | cons c r3 =>
          obtain ⟨x, hx⟩ := isBool_eval I hI a (hb a (by simp))
          obtain ⟨y, hy⟩ := isBool_eval I hI b (hb b (by simp))
          obtain ⟨z, hz⟩ := isBool_eval I hI c (hb c (by simp))
          simp only [evalList, hx, hy, hz, bool_three_not_distinct]
          simp

end Osmt.Mk
