import Osmt.Proof
/-! Soundness of the resolution-proof checker (C10, C06). -/
namespace Osmt.Proof
open Osmt

theorem mem_filter_ne {c : TClause} {l x : TLit} (h : x ∈ c) (hne : x ≠ l) : x ∈ c.filter (· ≠ l) := by
  simp [List.mem_filter, h, hne]

theorem resolve_sound (I : Interp) (c1 c2 r : TClause) (p : Term) (h : resolve c1 c2 p = some r)
    (h1 : clauseTrue I c1 = true) (h2 : clauseTrue I c2 = true) : clauseTrue I r = true := by
  unfold resolve at h
  simp only [clauseTrue, List.any_eq_true] at h1 h2 ⊢
  obtain ⟨l1, hl1, t1⟩ := h1
  obtain ⟨l2, hl2, t2⟩ := h2
  split at h
  · simp only [Option.some.injEq] at h; subst h
    by_cases e1 : l1 = (p, false)
    · -- l1 is the pivot (positive, true): then (p, true) is false, so l2 is not the pivot literal of c2
      have hp : evalB I p = true := by subst e1; simpa [litTrue] using t1
      have e2 : l2 ≠ (p, true) := by
        intro e; subst e; simp [litTrue, hp] at t2
      exact ⟨l2, List.mem_append.mpr (Or.inr (mem_filter_ne hl2 e2)), t2⟩
    · exact ⟨l1, List.mem_append.mpr (Or.inl (mem_filter_ne hl1 e1)), t1⟩
  · split at h
    · simp only [Option.some.injEq] at h; subst h
      by_cases e1 : l1 = (p, true)
      · have hp : evalB I p = false := by subst e1; simpa [litTrue] using t1
        have e2 : l2 ≠ (p, false) := by
          intro e; subst e; simp [litTrue, hp] at t2
        exact ⟨l2, List.mem_append.mpr (Or.inr (mem_filter_ne hl2 e2)), t2⟩
      · exact ⟨l1, List.mem_append.mpr (Or.inl (mem_filter_ne hl1 e1)), t1⟩
    · simp at h

def AllTrue (I : Interp) (cls : Array TClause) : Prop := ∀ (j : Nat) (c : TClause), cls[j]? = some c → clauseTrue I c = true

theorem runChain_sound (I : Interp) (cls : Array TClause) (hc : AllTrue I cls) :
    ∀ (rest : List (Nat × Term)) (acc r : TClause), clauseTrue I acc = true → runChain cls acc rest = some r →
      clauseTrue I r = true
  | [], acc, r, ha, h => by simp [runChain] at h; subst h; exact ha
  | (j, p) :: rest, acc, r, ha, h => by
    simp only [runChain] at h
    split at h
    · simp at h
    · rename_i c hj
      split at h
      · simp at h
      · rename_i acc' hr
        exact runChain_sound I cls hc rest acc' r (resolve_sound I acc c acc' p hr ha (hc j c hj)) h

theorem stepClause_sound (I : Interp) (cls : Array TClause) (hc : AllTrue I cls) (s : Step) (c : TClause)
    (hleaf : ∀ l, s = .leaf l → clauseTrue I l = true) (h : stepClause cls s = some c) : clauseTrue I c = true := by
  cases s with
  | leaf l => simp [stepClause] at h; subst h; exact hleaf l rfl
  | chain first rest =>
    simp only [stepClause] at h
    split at h
    · simp at h
    · rename_i c0 h0
      exact runChain_sound I cls hc rest c0 c (hc first c0 h0) h

theorem allTrue_push (I : Interp) (cls : Array TClause) (c : TClause) (hc : AllTrue I cls) (h : clauseTrue I c = true) :
    AllTrue I (cls.push c) := by
  intro j c' hj
  rw [Array.getElem?_push] at hj
  split at hj
  · simp at hj; subst hj; exact h
  · exact hc j c' hj

theorem runSteps_sound (I : Interp) : ∀ (steps : List Step) (cls cls' : Array TClause), AllTrue I cls →
    (∀ l ∈ leaves steps, clauseTrue I l = true) → runSteps steps cls = some cls' → AllTrue I cls'
  | [], cls, cls', hc, _, h => by simp [runSteps] at h; subst h; exact hc
  | s :: r, cls, cls', hc, hl, h => by
    simp only [runSteps] at h
    split at h
    · rename_i c hs
      have hct : clauseTrue I c = true := by
        apply stepClause_sound I cls hc s c _ hs
        intro l e; subst e; exact hl l (by simp [leaves])
      apply runSteps_sound I r _ cls' (allTrue_push I cls c hc hct) _ h
      intro l hlm; apply hl
      cases s <;> simp [leaves, hlm]
    · simp at h

/-- **C10 / C06**: a refutation accepted by the checker (every referenced clause bound, every pivot occurring with
opposite signs, the root clause empty) shows that its leaves cannot all be true in any interpretation -/
theorem checkRefutation_sound (steps : List Step) (root : Nat) (h : checkRefutation steps root = true) :
    ¬ ∃ I : Interp, ∀ l ∈ leaves steps, clauseTrue I l = true := by
  rintro ⟨I, hl⟩
  unfold checkRefutation at h
  split at h
  · simp at h
  · rename_i cls hr
    split at h
    · rename_i c hc
      have := runSteps_sound I steps #[] cls (by intro j c hj; simp at hj) hl hr root c hc
      simp only [List.isEmpty_iff] at h
      subst h
      simp [clauseTrue] at this
    · simp at h

end Osmt.Proof
