import Osmt.Num
import Mathlib.Data.Rat.Defs
import Mathlib.Data.Rat.Lemmas
import Mathlib.Tactic.Ring
import Mathlib.Tactic.Positivity
/-! Exactness of decimal literal conversion (C16). -/
namespace Osmt.Num

theorem natOfDigits_append_one (ds : List Char) (c : Char) :
    natOfDigits (ds ++ [c]) = natOfDigits ds * 10 + digitVal c := by
  simp [natOfDigits, List.foldl_append]

theorem natOfDigits_append_zeros (ds : List Char) (k : Nat) :
    natOfDigits (ds ++ List.replicate k '0') = natOfDigits ds * 10 ^ k := by
  induction k with
  | zero => simp
  | succ k ih =>
    rw [List.replicate_succ', ← List.append_assoc, natOfDigits_append_one, ih]
    simp [digitVal, pow_succ]; ring

theorem takeWhile_zero_replicate : ∀ (l : List Char), l.takeWhile (· = '0') = List.replicate (l.takeWhile (· = '0')).length '0'
  | [] => by simp
  | c :: r => by
    by_cases h : c = '0'
    · subst h
      simp only [List.takeWhile_cons, decide_true, if_true, List.length_cons, List.replicate_succ]
      congr 1
      exact takeWhile_zero_replicate r
    · simp [List.takeWhile_cons, h]

/-- a digit list is its trailing-zero-free prefix followed by zeros -/
theorem dropTrailingZeros_spec (fp : List Char) :
    ∃ k, fp = dropTrailingZeros fp ++ List.replicate k '0' := by
  refine ⟨(fp.reverse.takeWhile (· = '0')).length, ?_⟩
  have h := List.takeWhile_append_dropWhile (p := (· = '0')) (l := fp.reverse)
  have h2 : fp = (fp.reverse.dropWhile (· = '0')).reverse ++ (fp.reverse.takeWhile (· = '0')).reverse := by
    have := congrArg List.reverse h
    simp only [List.reverse_append, List.reverse_reverse] at this
    exact this.symm
  unfold dropTrailingZeros
  conv_lhs => rw [h2]
  congr 1
  rw [takeWhile_zero_replicate fp.reverse]
  simp

theorem mkRat_mul_pow (a b k : Nat) (hb : b ≠ 0) :
    mkRat ((a * 10 ^ k : Nat) : Int) (b * 10 ^ k) = mkRat (a : Int) b := by
  rw [Rat.mkRat_eq_iff (Nat.mul_ne_zero hb (Nat.pow_pos (by decide)).ne') hb]
  push_cast; ring

/-- **decimal literals are read exactly**: for every sign, integer part and fraction part (any number of
leading and trailing zeros, any length) `stringToRational` returns the value the literal denotes -/
theorem s2rDec_exact (s ip fp : List Char) (h : decShape (dropSign s) = some (ip, fp)) :
    s2rDec s = some (decimalValue (isNeg s) ip fp) := by
  unfold s2rDec decimalValue
  rw [h]
  simp only [Option.some.injEq]
  obtain ⟨k, hk⟩ := dropTrailingZeros_spec fp
  have e1 : natOfDigits (ip ++ fp) = natOfDigits (ip ++ dropTrailingZeros fp) * 10 ^ k := by
    conv_lhs => rw [hk]
    rw [← List.append_assoc, natOfDigits_append_zeros]
  have e2 : fp.length = (dropTrailingZeros fp).length + k := by
    conv_lhs => rw [hk]
    simp
  have e3 : mkRat ((natOfDigits (ip ++ fp) : Nat) : Int) (10 ^ fp.length) =
      mkRat ((natOfDigits (ip ++ dropTrailingZeros fp) : Nat) : Int) (10 ^ (dropTrailingZeros fp).length) := by
    rw [e1, e2, pow_add]
    exact mkRat_mul_pow _ _ k (Nat.pow_pos (by decide)).ne'
  rw [← e3]

/-- every string of the lexer's decimal language is accepted, by the conversion and by `isRealString`'s caller -/
theorem lexDec_accepted (s : List Char) (h : lexDec s = true) : (s2rDec s).isSome = true := by
  unfold lexDec at h
  unfold s2rDec
  split at h
  · rename_i ip fp hs; rw [hs]; simp
  · simp at h

end Osmt.Num
