import Osmt.Status
namespace Osmt.Status

theorem foldl_ok_false (evs : List Ev) (s : St) (h : s.ok = false) : (evs.foldl step s).ok = false := by
  induction evs generalizing s with
  | nil => exact h
  | cons e r ih => cases e <;> simp [List.foldl, step, ih, h]

theorem foldl_ok (evs : List Ev) (s : St) : (evs.foldl step s).ok = (s.ok && !evs.contains .error) := by
  induction evs generalizing s with
  | nil => simp
  | cons e r ih =>
    cases e
    · simp [List.foldl, step, ih]
    · simp [List.foldl, ih, step]

/-- the exit status is 0 exactly when no error response was printed -/
theorem exit_zero_iff (evs : List Ev) : exitStatus (run evs) = 0 ↔ .error ∉ evs := by
  unfold exitStatus run
  rw [foldl_ok]
  simp

end Osmt.Status
