import OsmtProofs.Prop
import OsmtProofs.Cdcl
import OsmtProofs.Skel
import OsmtProofs.LA
