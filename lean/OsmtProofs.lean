import OsmtProofs.Prop
import OsmtProofs.Cdcl
