import Osmt.Cdcl
import Osmt.Skel
import Osmt.LA
import Osmt.EUF
/-!
# The SMT-level abstract machine

`Cdcl` machine + justification of its axioms: an input clause must be entailed by its root formula
(`inputOk`), a theory clause must carry a certificate accepted by a theory kernel.  This is the function the
driver executes on the traces of the real engines.
-/
namespace Osmt.Smt
open Osmt

inductive ThCert where
  | la (c : LA.Cert)
  | euf (steps : List EUF.Step) (goal : Nat)
  | trusted                      -- accepted without certificate (only when `State.trustTheory`)

inductive Event where
  | input (root : Term) (c : Clause)
  | theory (c : Clause) (cert : ThCert)
  | learn (c : Clause)
  | answer (a : Cdcl.Answer)

structure State where
  vm : VarMap
  trustTheory : Bool := false    -- C12 mode: theory clauses are taken as given
  roots : List Term := []
  core : Cdcl.State := {}

def clauseTerms (vm : VarMap) (c : Clause) : Option (List (Term × Bool)) :=
  c.mapM (fun l => (vm l.var).map (fun t => (t, l.neg)))

def theoryOk (vm : VarMap) (c : Clause) : ThCert → Bool
  | .la cert => match clauseTerms vm c with
    | some lits => LA.laClauseCheck lits cert
    | none => false
  | .euf steps goal => match clauseTerms vm c with
    | some lits => EUF.eufClauseCheck lits steps goal
    | none => false
  | .trusted => false

/-- Boolean connectives (everything else of sort Bool is an atom for the SAT engine) -/
def isConnective : Term → Bool
  | .app o as => match o with
    | .tru | .fls | .not | .and | .or | .xor | .imp => true
    | .eq => as.all Term.isBool
    | .ite => (Term.app o as).isBool
    | _ => false

/-- the values a Boolean model gives to the *atoms* (connective terms are not looked up: they must evaluate) -/
def modelAssign (vm : VarMap) (m : List Lit) : PAssign :=
  m.filterMap (fun l => (vm l.var).bind (fun t => if t.isBool && !isConnective t then some (t, !l.neg) else none))

/-- every root evaluates to true from the atom values of the model alone -/
def satOk (s : State) (m : List Lit) : Bool :=
  let p := modelAssign s.vm m
  s.roots.all (fun r => eval3 p r == some true)

def answerOk (s : State) : Cdcl.Answer → Bool
  | .sat m => satOk s m
  | _ => true

def step? (s : State) : Event → Option State
  | .input root c =>
    if inputOk s.vm root c then
      (Cdcl.step? s.core (.axiom_ c)).map (fun k => { s with roots := root :: s.roots, core := k })
    else none
  | .theory c cert =>
    if s.trustTheory || theoryOk s.vm c cert then
      (Cdcl.step? s.core (.axiom_ c)).map (fun k => { s with core := k })
    else none
  | .learn c => (Cdcl.step? s.core (.learn c)).map (fun k => { s with core := k })
  | .answer a =>
    if answerOk s a then (Cdcl.step? s.core (.answer a)).map (fun k => { s with core := k }) else none

def run (s : State) : List Event → Option State
  | [] => some s
  | e :: es => match step? s e with
    | none => none
    | some s' => run s' es

end Osmt.Smt
