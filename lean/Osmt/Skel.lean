import Osmt.Term
import Osmt.Prop
/-!
# Boolean skeleton: three-valued evaluation under a partial assignment of *terms*

Used to accept an input clause as a consequence of a root formula plus the meaning of the Boolean
connectives (so no particular CNF encoding is mirrored: any clause that three-valued evaluation refutes
when falsified is accepted).
-/
namespace Osmt

/-- syntactic check that a term is Boolean-valued in every well-formed interpretation -/
def Term.isBool : Term → Bool
  | .app o as => match o with
    | .tru | .fls | .not | .and | .or | .xor | .imp | .eq | .distinct | .leq | .lt | .geq | .gt => true
    | .var _ s | .uf _ s => decide (s = .bool)
    | .ite => match as with
      | [_, a, b] => a.isBool && b.isBool
      | _ => true
    | _ => false

abbrev PAssign := List (Term × Bool)
def PAssign.get (p : PAssign) (t : Term) : Option Bool :=
  match p.find? (fun e => decide (e.1 = t)) with
  | some e => some e.2
  | none => none

def and3 : List (Option Bool) → Option Bool
  | [] => some true
  | x :: r => match x, and3 r with
    | some false, _ => some false
    | _, some false => some false
    | some true, some true => some true
    | _, _ => none
def or3 : List (Option Bool) → Option Bool
  | [] => some false
  | x :: r => match x, or3 r with
    | some true, _ => some true
    | _, some true => some true
    | some false, some false => some false
    | _, _ => none

/-- three-valued meaning of a connective; `none` for everything that is not a Boolean connective -/
def conn3 (o : Op) (vs : List (Option Bool)) : Option Bool :=
  match o, vs with
  | .tru, [] => some true
  | .fls, [] => some false
  | .not, [some a] => some (!a)
  | .and, vs => and3 vs
  | .or, vs => or3 vs
  | .xor, [some a, some b] => some (a != b)
  | .imp, [some false, _] => some true
  | .imp, [_, some true] => some true
  | .imp, [some true, some false] => some false
  | .eq, [some a, some b] => some (a == b)
  | .ite, [some true, some a, _] => some a
  | .ite, [some false, _, some b] => some b
  | .ite, [none, some a, some b] => if a = b then some a else none
  | _, _ => none

mutual
  /-- value of `t` forced by `p` and the connectives (lookup first, then structure) -/
  def eval3 (p : PAssign) : Term → Option Bool
    | .app o as => match p.get (.app o as) with
      | some b => some b
      | none => conn3 o (eval3List p as)
  def eval3List (p : PAssign) : List Term → List (Option Bool)
    | [] => []
    | t :: r => eval3 p t :: eval3List p r
end

/-- value of `t` forced by its *children* (its own entry in `p` is ignored) -/
def struct3 (p : PAssign) : Term → Option Bool
  | .app o as => conn3 o (eval3List p as)

/-- a SAT variable table: variable ↦ the Boolean term it stands for -/
abbrev VarMap := Var → Option Term

/-- the partial term assignment obtained by making every literal of `c` false -/
def falsify (vm : VarMap) : Clause → Option PAssign
  | [] => some []
  | l :: r => match vm l.var, falsify vm r with
    | some t, some p => if t.isBool then some ((t, l.neg) :: p) else none
    | _, _ => none

/-- Acceptance of an input clause `c` for root `root`: after falsifying `c`, either the root is refuted or
some literal's term is forced by its children to the opposite value. -/
def inputOk (vm : VarMap) (root : Term) (c : Clause) : Bool :=
  match falsify vm c with
  | none => false
  | some p =>
    (eval3 p root == some false) || p.any (fun e => struct3 p e.1 == some (!e.2)) ||
      p.any (fun e => p.get e.1 == some (!e.2))        -- tautological clause

/-- the propositional assignment induced by an interpretation through the variable table -/
def inducedAsg (vm : VarMap) (I : Interp) : Asg := fun v =>
  match vm v with
  | some t => evalB I t
  | none => false

end Osmt
