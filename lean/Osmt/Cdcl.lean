import Osmt.Prop
/-!
# Abstract clause-learning machine

Events are what the guarded hooks of the SAT engines emit.  Nothing about decision heuristics, restarts,
watches, clause deletion or the engine variant is modelled: they are the nondeterminism of this machine.
`axioms` are the clauses the machine takes on trust from outside (input clauses and theory clauses; their own
justification is the business of `Skel.inputOk` and of the theory kernels); `db ⊇ axioms` additionally
holds every learnt / derived clause, each of which must pass the RUP check when it arrives.
-/
namespace Osmt.Cdcl

inductive Answer where
  | sat (model : List Lit)
  | unsat (assumptions : List Lit)
  | unknown
deriving Repr, Inhabited

inductive Event where
  | axiom_ (c : Clause)          -- input or theory clause
  | learn (c : Clause)           -- learnt / derived / unit: must be RUP
  | answer (a : Answer)
deriving Repr, Inhabited

structure State where
  axioms : List Clause := []
  db : List Clause := []
  fuel : Nat := 0                -- propagation passes allowed (number of variables + 2 suffices)
  last : Option Answer := none
deriving Inhabited

/-- executable acceptance of one event -/
def step? (s : State) : Event → Option State
  | .axiom_ c => some { s with axioms := c :: s.axioms, db := c :: s.db, last := none }
  | .learn c => if rupCheck s.fuel s.db c then some { s with db := c :: s.db, last := none } else none
  | .answer (.sat m) =>
      if s.axioms.all (modelSat m) && m.all (fun l => !m.contains l.not)
      then some { s with last := some (.sat m) } else none
  | .answer (.unsat as) =>
      if rupCheck s.fuel s.db (as.map Lit.not) then some { s with last := some (.unsat as) } else none
  | .answer .unknown => some { s with last := some .unknown }

def run (s : State) : List Event → Option State
  | [] => some s
  | e :: es => match step? s e with
    | none => none
    | some s' => run s' es

end Osmt.Cdcl
