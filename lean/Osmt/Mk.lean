import Osmt.Term
import Osmt.Skel
/-!
# Mirror of the Boolean term constructors of `Logic` (src/logics/Logic.cc)

`mkNot`, `mkAnd`, `mkOr`, `mkXor`, `mkImpl`, `mkIte`, `mkBinaryEq`, `mkEq` with the simplifications the C++
performs (double negation, constants, duplicate and complementary arguments, equal branches, constant
equalities).  The C++ sorts arguments by term identity before detecting duplicates / complements; the mirror
detects them by membership, which selects the same set of surviving arguments (order is not part of the
meaning).  Core Lean only.
-/
namespace Osmt.Mk

def tru : Term := .app .tru []
def fls : Term := .app .fls []

def isTrue (t : Term) : Bool := decide (t = tru)
def isFalse (t : Term) : Bool := decide (t = fls)

/-- `Logic::mkNot` -/
def mkNot (t : Term) : Term :=
  match t with
  | .app .not [x] => x
  | _ => if isTrue t then fls else if isFalse t then tru else .app .not [t]

/-- signed view used by `mkAnd` / `mkOr`: `(not x)` ↦ `(x, false)`, otherwise `(t, true)` -/
def toLit (t : Term) : Term × Bool :=
  match t with
  | .app .not [x] => (x, false)
  | _ => (t, true)

def ofLit (l : Term × Bool) : Term := if l.2 then l.1 else mkNot l.1

/-- accumulate conjuncts; `none` = the conjunction is false -/
def andStep (acc : Option (List (Term × Bool))) (l : Term × Bool) : Option (List (Term × Bool)) :=
  match acc with
  | none => none
  | some ls =>
    if isFalse l.1 && l.2 then none
    else if isTrue l.1 && l.2 then some ls
    else if ls.contains l then some ls
    else if ls.contains (l.1, !l.2) then none
    else some (ls ++ [l])

/-- `Logic::mkAnd` -/
def mkAnd (args : List Term) : Term :=
  match (args.map toLit).foldl andStep (some []) with
  | none => fls
  | some [] => tru
  | some [l] => ofLit l
  | some ls => .app .and (ls.map ofLit)

def orStep (acc : Option (List (Term × Bool))) (l : Term × Bool) : Option (List (Term × Bool)) :=
  match acc with
  | none => none
  | some ls =>
    if isTrue l.1 && l.2 then none
    else if isFalse l.1 && l.2 then some ls
    else if ls.contains l then some ls
    else if ls.contains (l.1, !l.2) then none
    else some (ls ++ [l])

/-- `Logic::mkOr` -/
def mkOr (args : List Term) : Term :=
  match (args.map toLit).foldl orStep (some []) with
  | none => tru
  | some [] => fls
  | some [l] => ofLit l
  | some ls => .app .or (ls.map ofLit)

/-- `Logic::mkXor` (binary) -/
def mkXor (a b : Term) : Term :=
  if a = b then fls
  else if a = mkNot b then tru
  else if a = tru then mkNot b
  else if b = tru then mkNot a
  else if a = fls then b
  else if b = fls then a
  else .app .xor [a, b]

/-- `Logic::mkImpl` (binary) -/
def mkImpl (a b : Term) : Term :=
  if isFalse a then tru
  else if isTrue b then tru
  else if isTrue a && isFalse b then fls
  else mkOr [mkNot a, b]

/-- `Logic::mkIte` -/
def mkIte (c a b : Term) : Term :=
  if isTrue c then a else if isFalse c then b else if a = b then a else .app .ite [c, a, b]

def isConstant : Term → Bool
  | .app (.num _) [] => true
  | .app .tru [] => true
  | .app .fls [] => true
  | _ => false

/-- `Logic::mkBinaryEq` -/
def mkBinaryEq (l r : Term) : Term :=
  if l = r then tru
  else if isConstant l && isConstant r then fls
  else if l.isBool && r.isBool then
    if l = mkNot r then fls
    else if l = tru then r
    else if r = tru then l
    else if l = fls then mkNot r
    else if r = fls then mkNot l
    else .app .eq [l, r]
  else .app .eq [l, r]

/-- `Logic::mkEq`: chain of binary equalities -/
def eqChain : List Term → List Term
  | a :: b :: r => mkBinaryEq a b :: eqChain (b :: r)
  | _ => []
def mkEq (args : List Term) : Term :=
  match args with
  | [a, b] => mkBinaryEq a b
  | _ => mkAnd (eqChain args)

end Osmt.Mk

namespace Osmt.Mk
/-- `Logic::mkDistinct` on Boolean arguments (other sorts keep the `distinct` node here) -/
def mkDistinctB (args : List Term) : Term :=
  match args with
  | [] => tru
  | [_] => tru
  | [a, b] => mkNot (mkEq [a, b])
  | _ => fls

mutual
  /-- the front end's bottom-up construction of a Boolean term: every connective goes through its constructor;
  everything else (atoms, theory terms) is kept -/
  def buildB : Term → Term
    | .app o as =>
      let bs := buildList as
      match o, bs with
      | .not, [a] => mkNot a
      | .and, bs => mkAnd bs
      | .or, bs => mkOr bs
      | .xor, [a, b] => mkXor a b
      | .imp, [a, b] => mkImpl a b
      | .ite, [c, a, b] => mkIte c a b
      | .eq, bs => if bs.all Term.isBool then mkEq bs else .app .eq bs
      | .distinct, bs => if bs.all Term.isBool then mkDistinctB bs else .app .distinct bs
      | o, bs => .app o bs
  def buildList : List Term → List Term
    | [] => []
    | t :: r => buildB t :: buildList r
end

mutual
  /-- canonical text of a term: arguments of commutative Boolean operators sorted -/
  def canon : Term → String
    | .app o as =>
      let ss := canonList as
      let ss := match o with
        | .and | .or | .xor | .eq | .distinct => (ss.toArray.qsort (· < ·)).toList
        | _ => ss
      let name := match o with
        | .tru => "true" | .fls => "false" | .not => "not" | .and => "and" | .or => "or" | .xor => "xor"
        | .imp => "=>" | .eq => "=" | .ite => "ite" | .distinct => "distinct"
        | .var id _ => s!"v{id}" | .uf id _ => s!"f{id}"
        | .num q => s!"{q.num}/{q.den}"
        | .plus => "+" | .times => "*" | .minus => "-" | .rdiv => "/" | .idiv => "div" | .imod => "mod"
        | .leq => "<=" | .lt => "<" | .geq => ">=" | .gt => ">"
      if ss.isEmpty then name else "(" ++ name ++ " " ++ " ".intercalate ss ++ ")"
  def canonList : List Term → List String
    | [] => []
    | t :: r => canon t :: canonList r
end
end Osmt.Mk
