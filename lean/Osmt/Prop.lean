/-!
# Propositional kernel: literals, clauses, reverse unit propagation (RUP)
Core Lean only.  Soundness theorems are in `OsmtProofs/Prop.lean`.
-/
namespace Osmt

abbrev Var := Nat
structure Lit where
  var : Var
  neg : Bool
deriving DecidableEq, Repr, Inhabited

def Lit.not (l : Lit) : Lit := ⟨l.var, !l.neg⟩
abbrev Clause := List Lit
abbrev Asg := Var → Bool

def Lit.eval (σ : Asg) (l : Lit) : Bool := if l.neg then !(σ l.var) else σ l.var
def Clause.eval (σ : Asg) (c : Clause) : Bool := c.any (Lit.eval σ)
def satisfies (σ : Asg) (db : List Clause) : Prop := ∀ c ∈ db, Clause.eval σ c = true

/-- DIMACS-style integer to literal (`k > 0` ↦ variable `k-1` positive). -/
def Lit.ofInt (k : Int) : Lit := ⟨k.natAbs - 1, decide (k < 0)⟩

/-- partial assignment as the list of literals made true -/
abbrev PA := List Lit
def PA.isTrue (p : PA) (l : Lit) : Bool := p.contains l
def PA.isFalse (p : PA) (l : Lit) : Bool := p.contains l.not

/-- `σ` agrees with `p` -/
def agrees (σ : Asg) (p : PA) : Prop := ∀ l ∈ p, l.eval σ = true

inductive UPRes | conflict | unit (l : Lit) | none

/-- examine a clause under `p` -/
def examine (p : PA) (c : Clause) : UPRes :=
  if c.any p.isTrue then .none else
  match c.filter (fun l => !p.isFalse l) with
  | [] => .conflict
  | [l] => .unit l
  | _ => .none

def passStep (acc : Option (PA × Bool)) (c : Clause) : Option (PA × Bool) :=
  match acc with
  | none => none
  | some (p, ch) => match examine p c with
    | .conflict => none
    | .unit l => some (l :: p, true)
    | .none => some (p, ch)

/-- one pass over the database; `none` = conflict, otherwise the extended assignment and a change flag -/
def pass (db : List Clause) (p : PA) : Option (PA × Bool) :=
  db.foldl passStep (some (p, false))

/-- unit propagation to fixpoint (or until `fuel` passes); `true` = conflict found -/
def propagate : Nat → List Clause → PA → Bool
  | 0, _, _ => false
  | fuel+1, db, p => match pass db p with
    | none => true
    | some (p', true) => propagate fuel db p'
    | some (_, false) => false

/-- `c` is confirmed by reverse unit propagation from `db` -/
def rupCheck (fuel : Nat) (db : List Clause) (c : Clause) : Bool :=
  c.any (fun l => c.contains l.not) || propagate fuel db (c.map Lit.not)

/-- a total assignment given as list of true literals satisfies clause `c` -/
def modelSat (m : List Lit) (c : Clause) : Bool := c.any (fun l => m.contains l)

end Osmt
