/-!
# Mirror of `TermNames` / `ScopedVector` (src/common/TermNames.h, ScopedVector.h)

Three containers: `nameToTerm` (map), `termToNames` (map to vectors), `scopedNamesAndTerms` (vector of pairs
with a vector of scope limits).  With global declarations `pushScope` / `popScope` do nothing.
Names and terms are numbers here.  Core Lean only.
-/
namespace Osmt.Names

structure St where
  n2t : List (Nat × Nat) := []          -- nameToTerm
  t2n : List (Nat × List Nat) := []     -- termToNames
  elems : List (Nat × Nat) := []        -- ScopedVector::elements, oldest first
  limits : List Nat := []               -- ScopedVector::limits
  global : Bool := false                -- config.declarations_are_global()
deriving Repr, DecidableEq

inductive Op where
  | insert (name term : Nat)
  | push | pop
  | setGlobal (b : Bool)
deriving Repr

def lookup (s : St) (name : Nat) : Option Nat := (s.n2t.find? (·.1 = name)).map (·.2)

def namesOf (s : St) (term : Nat) : List Nat := ((s.t2n.find? (·.1 = term)).map (·.2)).getD []

def addName (m : List (Nat × List Nat)) (term name : Nat) : List (Nat × List Nat) :=
  match m with
  | [] => [(term, [name])]
  | (t, ns) :: r => if t = term then (t, ns ++ [name]) :: r else (t, ns) :: addName r term name

def removeName (m : List (Nat × List Nat)) (term name : Nat) : List (Nat × List Nat) :=
  m.map (fun e => if e.1 = term then (e.1, e.2.erase name) else e)

/-- `tryInsert` -/
def tryInsert (s : St) (name term : Nat) : St × Bool :=
  if (lookup s name).isSome then (s, false)
  else ({ s with n2t := (name, term) :: s.n2t, t2n := addName s.t2n term name, elems := s.elems ++ [(name, term)] }, true)

/-- `eraseTermName` -/
def eraseName (s : St) (name : Nat) : St :=
  match lookup s name with
  | none => s
  | some term => { s with n2t := s.n2t.filter (·.1 ≠ name), t2n := removeName s.t2n term name }

/-- `popScope` callback over the elements above the limit, newest first -/
def eraseAll (s : St) : List (Nat × Nat) → St
  | [] => s
  | p :: r => eraseAll (eraseName s p.1) r

/-- scope limits are tracked in every mode -/
def pushScope (s : St) : St := { s with limits := s.limits ++ [s.elems.length] }

def popScope (s : St) : St :=
  if s.global then { s with limits := s.limits.dropLast }      -- `mergeScope`: names persist
  else
  match s.limits.getLast? with
  | none => s                                  -- the C++ asserts `not limits.empty()`: undefined otherwise
  | some lim =>
    let s' := eraseAll s (s.elems.drop lim).reverse
    { s' with elems := s.elems.take lim, limits := s.limits.dropLast }

def step (s : St) : Op → St
  | .insert n t => (tryInsert s n t).1
  | .push => pushScope s
  | .pop => popScope s
  | .setGlobal b => { s with global := b }

def run (ops : List Op) : St := ops.foldl step {}

end Osmt.Names
