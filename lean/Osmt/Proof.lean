import Osmt.Term
/-!
# Checker for printed resolution proofs (`get-proof`) and for proof-derived unsat cores

Clauses are lists of (atom term, negated?) pairs.  A proof is a list of steps, each binding the next clause index:
a leaf, or a resolution chain `((c₀ ⊗p₁ c₁) ⊗p₂ c₂) …` over earlier indices.  Core Lean only.
-/
namespace Osmt.Proof

abbrev TLit := Term × Bool          -- (atom, negated?)
abbrev TClause := List TLit

def litTrue (I : Interp) (l : TLit) : Bool := evalB I l.1 != l.2
def clauseTrue (I : Interp) (c : TClause) : Bool := c.any (litTrue I)

/-- resolvent of `c1` and `c2` on pivot `p`, which must occur with opposite signs -/
def resolve (c1 c2 : TClause) (p : Term) : Option TClause :=
  if c1.contains (p, false) && c2.contains (p, true) then
    some (c1.filter (· ≠ (p, false)) ++ c2.filter (· ≠ (p, true)))
  else if c1.contains (p, true) && c2.contains (p, false) then
    some (c1.filter (· ≠ (p, true)) ++ c2.filter (· ≠ (p, false)))
  else none

inductive Step where
  | leaf (c : TClause)
  | chain (first : Nat) (rest : List (Nat × Term))
deriving Inhabited

def runChain (cls : Array TClause) (acc : TClause) : List (Nat × Term) → Option TClause
  | [] => some acc
  | (j, p) :: r => match cls[j]? with
    | none => none                          -- unbound clause name
    | some c => match resolve acc c p with
      | none => none                        -- pivot does not occur with opposite signs
      | some acc' => runChain cls acc' r

def stepClause (cls : Array TClause) : Step → Option TClause
  | .leaf c => some c
  | .chain first rest => match cls[first]? with
    | none => none
    | some c => runChain cls c rest

/-- run all steps; `none` as soon as one is ill-formed -/
def runSteps : List Step → Array TClause → Option (Array TClause)
  | [], cls => some cls
  | s :: r, cls => match stepClause cls s with
    | some c => runSteps r (cls.push c)
    | none => none

def leaves : List Step → List TClause
  | [] => []
  | .leaf c :: r => c :: leaves r
  | .chain _ _ :: r => leaves r

/-- a well-formed refutation: every step checks and clause `root` is empty -/
def checkRefutation (steps : List Step) (root : Nat) : Bool :=
  match runSteps steps #[] with
  | none => false
  | some cls => match cls[root]? with
    | some c => c.isEmpty
    | none => false

end Osmt.Proof
