/-!
# Labelled interpolation systems (model of `proof/InterpolationContext`, Boolean part)

A resolution refutation whose leaves are clauses of A or of B, a labelling of the variable occurrences of every leaf with
{a, b, ab}, and the partial interpolant of every node.  McMillan's system labels shared variables `b`, Pudlák's `ab`,
McMillan' `a`; the proof-sensitive variants choose per occurrence.  Core Lean only.
-/
namespace Osmt.Itp

abbrev Var := Nat
structure Lit where
  var : Var
  neg : Bool
deriving DecidableEq, Repr
abbrev Clause := List Lit
abbrev Asg := Var → Bool
def Lit.eval (σ : Asg) (l : Lit) : Bool := if l.neg then !(σ l.var) else σ l.var
def cEval (σ : Asg) (c : Clause) : Bool := c.any (Lit.eval σ)

/-- label = pair of bits (a-coloured, b-coloured); (false,false) = absent -/
structure Lbl where
  a : Bool
  b : Bool
deriving DecidableEq, Repr
def Lbl.join (x y : Lbl) : Lbl := ⟨x.a || y.a, x.b || y.b⟩

inductive F where
  | tt | ff
  | lit (l : Lit)
  | and (x y : F)
  | or (x y : F)
def F.eval (σ : Asg) : F → Bool
  | .tt => true | .ff => false
  | .lit l => l.eval σ
  | .and x y => x.eval σ && y.eval σ
  | .or x y => x.eval σ || y.eval σ

def bigOr : List Lit → F
  | [] => .ff
  | l :: ls => .or (.lit l) (bigOr ls)
def Lit.not (l : Lit) : Lit := ⟨l.var, !l.neg⟩
def bigAndNeg : List Lit → F
  | [] => .tt
  | l :: ls => .and (.lit l.not) (bigAndNeg ls)

theorem bigOr_eval (σ) (c : List Lit) : (bigOr c).eval σ = cEval σ c := by
  induction c with
  | nil => rfl
  | cons l ls ih => simp [bigOr, F.eval, cEval, ih]
theorem lit_not_eval (σ) (l : Lit) : l.not.eval σ = !(l.eval σ) := by
  cases l with | mk v n => cases n <;> simp [Lit.not, Lit.eval]
theorem bigAndNeg_eval (σ) (c : List Lit) : (bigAndNeg c).eval σ = !(cEval σ c) := by
  induction c with
  | nil => rfl
  | cons l ls ih => simp [bigAndNeg, F.eval, cEval, ih, lit_not_eval]

/-- proof nodes -/
inductive Node where
  | leafA (c : Clause) (lab : Var → Lbl)
  | leafB (c : Clause) (lab : Var → Lbl)
  /-- a theory lemma with the partial interpolant the theory's interpolation procedure gives for it -/
  | leafT (c : Clause) (lab : Var → Lbl) (i : F)
  | res (n1 n2 : Node) (p : Var)      -- n1 contains p positively, n2 negatively

def Node.clause : Node → Clause
  | .leafA c _ => c
  | .leafB c _ => c
  | .leafT c _ _ => c
  | .res n1 n2 p => (n1.clause.filter (fun l => l.var != p)) ++ (n2.clause.filter (fun l => l.var != p))

def Node.lab : Node → Var → Lbl
  | .leafA _ lab => lab
  | .leafB _ lab => lab
  | .leafT _ lab _ => lab
  | .res n1 n2 _ => fun v => (n1.lab v).join (n2.lab v)

/-- restriction of the node clause to literals whose label has the a-bit / b-bit -/
def restrA (c : Clause) (lab : Var → Lbl) : Clause := c.filter (fun l => (lab l.var).a)
def restrB (c : Clause) (lab : Var → Lbl) : Clause := c.filter (fun l => (lab l.var).b)
/-- literals coloured exactly b (resp. exactly a) -/
def onlyB (c : Clause) (lab : Var → Lbl) : Clause := c.filter (fun l => (lab l.var).b && !(lab l.var).a)
def onlyA (c : Clause) (lab : Var → Lbl) : Clause := c.filter (fun l => (lab l.var).a && !(lab l.var).b)

def Node.itp : Node → F
  | .leafA c lab => bigOr (onlyB c lab)
  | .leafB c lab => bigAndNeg (onlyA c lab)
  | .leafT _ _ i => i
  | .res n1 n2 p =>
    match ((n1.lab p).join (n2.lab p)).a, ((n1.lab p).join (n2.lab p)).b with
    | true, false => .or n1.itp n2.itp
    | false, true => .and n1.itp n2.itp
    | _, _ => .and (.or n1.itp (.lit ⟨p, false⟩)) (.or n2.itp (.lit ⟨p, true⟩))


end Osmt.Itp

namespace Osmt.Itp
/-- the executable part of well-formedness: labels cover the leaf literals, pivots occur with the right signs -/
def Node.structOk : Node → Bool
  | .leafA c lab => c.all (fun l => (lab l.var).a || (lab l.var).b)
  | .leafB c lab => c.all (fun l => (lab l.var).a || (lab l.var).b)
  | .leafT c lab _ => c.all (fun l => (lab l.var).a || (lab l.var).b)
  | .res n1 n2 p => n1.structOk && n2.structOk &&
      n1.clause.all (fun l => l.var != p || !l.neg) && n2.clause.all (fun l => l.var != p || l.neg) &&
      n1.clause.any (fun l => l.var == p) && n2.clause.any (fun l => l.var == p)

/-- the semantic part: every leaf follows from its side -/
def Node.leavesOk (A B : Asg → Prop) : Node → Prop
  | .leafA c _ => ∀ σ, A σ → cEval σ c = true
  | .leafB c _ => ∀ σ, B σ → cEval σ c = true
  -- what theory interpolation owes for a lemma: the A-coloured part of its negation gives i, the B-coloured part refutes it
  | .leafT c lab i => (∀ σ, A σ → cEval σ (restrA c lab) = false → i.eval σ = true) ∧
                      (∀ σ, B σ → cEval σ (restrB c lab) = false → i.eval σ = false)
  | .res n1 n2 _ => n1.leavesOk A B ∧ n2.leavesOk A B

/-- the labellings that do not depend on proof statistics (`setLeafMcMillanLabeling`, `setLeafPudlakLabeling`,
`setLeafMcMillanPrimeLabeling`): a variable of A only is `a`, of B only is `b`; an occurrence of a shared variable is labelled `b`
(McMillan, 0), `ab` (Pudlák, 1) or `a` (McMillan', 2) -/
def systemLabel (alg : Nat) (inA inB : Var → Bool) (v : Var) : Lbl :=
  match inA v, inB v with
  | true, false => ⟨true, false⟩
  | false, true => ⟨false, true⟩
  | true, true => if alg == 0 then ⟨false, true⟩ else if alg == 1 then ⟨true, true⟩ else ⟨true, false⟩
  | false, false => ⟨false, false⟩
end Osmt.Itp
