/-!
# Printing symbol names (mirror of `Logic::protectName`) and reading them back

A name is printed bare when it is a simple symbol that the reader would read as that symbol, otherwise between bars.
`readSymbol` is the reader's view of one printed symbol token.  Core Lean only.
-/
namespace Osmt.Quote

def simpleChars : List Char := "ABCDEFGHIJKLMNOPQRSTUVWXYZabcdefghijklmnopqrstuvwxyz0123456789~!@$%^&*_-+=<>.?/".toList

def isSimpleChar (c : Char) : Bool := simpleChars.contains c

/-- the lexer reads it as a number: a digit first, or a minus sign followed by a digit -/
def numberLike : List Char → Bool
  | [] => false
  | c :: r => c.isDigit || (c == '-' && (match r with | d :: _ => d.isDigit | [] => false))

/-- tokens of the lexer that are not symbols (commands and keywords) -/
def reservedWords : List String :=
  ["none", "!", "_", "DECIMAL", "NUMERAL", "STRING", "as", "decimal", "numeral", "par", "string", "exists", "forall", "assert",
   "check-sat", "declare-sort", "define-sort", "declare-fun", "declare-const", "define-fun", "exit", "get-assertions",
   "get-assignment", "get-info", "set-info", "get-option", "set-option", "get-proof", "get-unsat-core", "get-value", "get-model",
   "pop", "push", "set-logic", "get-interpolants", "theory", "write-state", "read-state", "simplify", "write-funs", "let", "echo"]

def isReserved (s : List Char) : Bool := reservedWords.any (fun w => w.toList == s)

/-- already of the form |...| -/
def alreadyQuoted (s : List Char) : Bool :=
  match s with
  | [] => false
  | c :: _ => c == '|' && s.getLast? == some '|'

def hasQuotableChars (s : List Char) : Bool := !alreadyQuoted s && s.any (fun c => !isSimpleChar c)

def needsQuote (s : List Char) : Bool := hasQuotableChars s || numberLike s || isReserved s

def protect (s : List Char) : List Char := if needsQuote s then '|' :: s ++ ['|'] else s

/-- the reader: a quoted token denotes what is between the bars (no bar or backslash inside); a bare token denotes itself when it is made of
simple characters and is neither a number nor a keyword -/
def readSymbol (t : List Char) : Option (List Char) :=
  match t with
  | '|' :: r =>
    match r.reverse with
    | '|' :: innerRev =>
      let inner := innerRev.reverse
      if inner.any (fun c => c == '|' || c == '\\') then none else some inner
    | _ => none
  | _ => if t.isEmpty || t.any (fun c => !isSimpleChar c) || numberLike t || isReserved t then none else some t

end Osmt.Quote
