/-!
# Mirror of the pipe-mode scanner `Interpret::interpPipe` (src/api/Interpret.cc)

The C++ keeps a growing buffer, reads whatever `read(2)` returns, and scans it byte by byte with four pieces of
lexical state (comment, quoted symbol, string, parenthesis depth).  When the depth returns to 0 it hands the bytes
accumulated since the previous command to the parser.  The scan position persists across reads, so the model is
byte-wise; the chunking of the input is a parameter of `runChunks`.  Core Lean only.
-/
namespace Osmt.Pipe

structure St where
  par : Int := 0
  inComment : Bool := false
  inString : Bool := false
  inQuoted : Bool := false
  escaped : Bool := false          -- previous byte inside a string was an unescaped backslash
  pending : List Char := []        -- bytes since the last emitted command, oldest first
  frames : List (List Char) := []  -- emitted commands, oldest first
  unbalanced : Bool := false       -- "pipe reader: unbalanced parentheses": scanning stops
deriving Repr, DecidableEq

def feed (s : St) (c : Char) : St :=
  if s.unbalanced then s else
  let s := { s with pending := s.pending ++ [c] }
  -- comments
  let startsComment := !s.inQuoted && !s.inString && c == ';'
  if s.inComment || startsComment then
    { s with inComment := c != '\n' }     -- (a newline ends the comment and is itself skipped by the other rules below)
  else
  -- quoted symbols
  if s.inQuoted then { s with inQuoted := c != '|' }
  else if !s.inString && c == '|' then { s with inQuoted := true }
  else
  -- strings
  if s.inString then
    if s.escaped then { s with escaped := false }
    else if c == '\\' then { s with escaped := true }
    else { s with inString := c != '"' }
  else if c == '"' then { s with inString := true }
  else
  if c == '(' then { s with par := s.par + 1 }
  else if c == ')' then
    let p := s.par - 1
    if p == 0 then { s with par := 0, frames := s.frames ++ [s.pending], pending := [] }
    else if p < 0 then { s with par := p, unbalanced := true }
    else { s with par := p }
  else s

def run (s : St) (bytes : List Char) : St := bytes.foldl feed s
def runChunks (s : St) (chunks : List (List Char)) : St := chunks.foldl run s

end Osmt.Pipe
