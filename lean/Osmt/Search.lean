/-!
# The search loop as a trail machine (C30)

What `CoreSMTSolver::search` does to its trail, and nothing else: it appends a decision or a propagated literal, it backjumps
(truncates the trail at the first literal of some decision level and appends the asserting literal as propagated; the same
happens without a conflict when a new theory lemma is unit below the current level), or it
restarts (truncates; allowed only after the conflict limit of the current restart period).  Clauses, reasons, theories and the
choice of literals are left out: termination of a period needs none of them.  Core Lean only.
-/
namespace Osmt.Search

inductive Mark where
  | dec | prop
deriving DecidableEq, Repr

/-- oldest assignment first; only the variable matters -/
abbrev Trail := List (Nat × Mark)

def digit : Mark → Nat
  | .dec => 1
  | .prop => 2

/-- the trail read as an `n`-digit numeral in base 3, oldest assignment most significant, unassigned positions 0 -/
def mu : Nat → Trail → Nat
  | _, [] => 0
  | 0, _ :: _ => 0
  | n + 1, e :: t => digit e.2 * 3 ^ n + mu n t

def vars (t : Trail) : List Nat := t.map (·.1)

inductive Step where
  | decide (v : Nat)
  | propagate (v : Nat)
  /-- keep the first `k` assignments (position `k` holds the first literal of a decision level), then `v` propagated -/
  | backjump (k v : Nat)
  /-- a theory lemma that is unit below the current level: the same cut and propagation, no conflict counted -/
  | tjump (k v : Nat)
  /-- keep the first `k` assignments -/
  | restart (k : Nat)
deriving Repr

structure St where
  t : Trail
  /-- conflicts (backjumps) since the last restart -/
  c : Nat
  /-- number of restarts so far -/
  i : Nat
deriving Repr

/-- one step; `n` variables, `lim i` = conflict limit of restart period `i` -/
def step? (n : Nat) (lim : Nat → Nat) (s : St) : Step → Option St
  | .decide v => if v < n ∧ v ∉ vars s.t then some { s with t := s.t ++ [(v, .dec)] } else none
  | .propagate v => if v < n ∧ v ∉ vars s.t then some { s with t := s.t ++ [(v, .prop)] } else none
  | .backjump k v =>
    match s.t[k]? with
    | some (_, .dec) =>
      if v < n ∧ v ∉ vars (s.t.take k) then some { s with t := s.t.take k ++ [(v, .prop)], c := s.c + 1 } else none
    | _ => none
  | .tjump k v =>
    match s.t[k]? with
    | some (_, .dec) =>
      if v < n ∧ v ∉ vars (s.t.take k) then some { s with t := s.t.take k ++ [(v, .prop)] } else none
    | _ => none
  | .restart k => if lim s.i ≤ s.c ∧ k ≤ s.t.length then some { t := s.t.take k, c := 0, i := s.i + 1 } else none

def run? (n : Nat) (lim : Nat → Nat) : St → List Step → Option St
  | s, [] => some s
  | s, x :: xs => match step? n lim s x with
    | some s' => run? n lim s' xs
    | none => none

def Inv (n : Nat) (s : St) : Prop := (vars s.t).Nodup ∧ (∀ v ∈ vars s.t, v < n) ∧ s.c ≤ mu n s.t

/-- potential that every step increases: restart periods are the leading digit -/
def phi (n : Nat) (s : St) : Nat := s.i * 3 ^ n + mu n s.t

def init : St := ⟨[], 0, 0⟩

def isRestart : Step → Bool
  | .restart _ => true
  | _ => false

end Osmt.Search
