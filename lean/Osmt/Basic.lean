def hello := "world"
