import Osmt.Itp
/-!
# Two labellings of one refutation (sequence interpolants)

For a request with groups G₁ … G_k the solver interpolates the same refutation once per cut.  Two consecutive cuts
(A₁ | G ∪ B₂) and (A₁ ∪ G | B₂) see every leaf as (A, A) when it comes from A₁, (B, A) when it comes from the middle group G and
(B, B) when it comes from B₂, and label every variable occurrence twice.  Core Lean only.
-/
namespace Osmt.Itp

/-- origin of a leaf: in A₁, in the middle group G, or in B₂ -/
inductive Origin where
  | first | middle | last
deriving DecidableEq, Repr

/-- labels of the occurrences in a leaf, for both cuts; variables without an entry are absent -/
abbrev Labs := List (Var × Lbl × Lbl)

def labOf1 (ls : Labs) (v : Var) : Lbl := match ls.find? (fun e => e.1 == v) with | some e => e.2.1 | none => ⟨false, false⟩
def labOf2 (ls : Labs) (v : Var) : Lbl := match ls.find? (fun e => e.1 == v) with | some e => e.2.2 | none => ⟨false, false⟩

inductive Node2 where
  | leaf (c : Clause) (o : Origin) (labs : Labs)
  /-- a theory lemma with the partial interpolants its interpolation procedure gives for the two cuts -/
  | leafT (c : Clause) (labs : Labs) (i1 i2 : F)
  | res (n1 n2 : Node2) (p : Var)

/-- the refutation as seen by the first cut (A₁ | G ∪ B₂) -/
def Node2.proj1 : Node2 → Node
  | .leaf c .first ls => .leafA c (labOf1 ls)
  | .leaf c _ ls => .leafB c (labOf1 ls)
  | .leafT c ls i1 _ => .leafT c (labOf1 ls) i1
  | .res n1 n2 p => .res n1.proj1 n2.proj1 p

/-- the refutation as seen by the second cut (A₁ ∪ G | B₂) -/
def Node2.proj2 : Node2 → Node
  | .leaf c .last ls => .leafB c (labOf2 ls)
  | .leaf c _ ls => .leafA c (labOf2 ls)
  | .leafT c ls _ i2 => .leafT c (labOf2 ls) i2
  | .res n1 n2 p => .res n1.proj2 n2.proj2 p

def Lbl.absent (x : Lbl) : Bool := !x.a && !x.b
def Lbl.onlyA (x : Lbl) : Bool := x.a && !x.b
def Lbl.onlyB (x : Lbl) : Bool := x.b && !x.a

/-- the two labels of one occurrence fit together: absent in both or in neither; `a` in the first cut forces `a` in the second
(a variable local to A₁ is local to A₁ ∪ G); `b` in the second forces `b` in the first.  McMillan's, Pudlák's and McMillan''s
systems applied to both cuts satisfy this. -/
def pairOK (x y : Lbl) : Bool :=
  (x.absent == y.absent) && (!x.onlyA || y.onlyA) && (!y.onlyB || x.onlyB)

/-- executable part of the well-formedness of a doubly labelled refutation: every entry fits, every literal of a leaf is labelled -/
def Node2.labelsOK : Node2 → Bool
  | .leaf c _ ls => ls.all (fun e => pairOK e.2.1 e.2.2) && c.all (fun l => !(labOf1 ls l.var).absent)
  | .leafT c ls _ _ => ls.all (fun e => pairOK e.2.1 e.2.2) && c.all (fun l => !(labOf1 ls l.var).absent)
  | .res n1 n2 _ => n1.labelsOK && n2.labelsOK

/-- the semantic part: the leaves of the middle group follow from it -/
def Node2.middleOk (G : Asg → Prop) : Node2 → Prop
  | .leaf c .middle _ => ∀ σ, G σ → cEval σ c = true
  | .leaf _ _ _ => True
  -- what the theory's interpolation procedure owes for two consecutive cuts of one lemma: with the middle group and the
  -- literals that changed sides false, the first partial interpolant gives the second
  | .leafT c ls i1 i2 => ∀ σ, G σ → i1.eval σ = true →
      cEval σ (c.filter (fun l => !((labOf1 ls l.var).onlyA && (labOf2 ls l.var).onlyA) && !((labOf1 ls l.var).onlyB && (labOf2 ls l.var).onlyB))) = false →
      i2.eval σ = true
  | .res n1 n2 _ => n1.middleOk G ∧ n2.middleOk G

end Osmt.Itp
