/-!
# Mirror of the frame bookkeeping of `MainSolver` (`AssertionStack`, `frameTerms`, `solve_`'s assumptions)

`push` creates a frame with the next id and a frame term at the same index; `pop` removes the top frame (never
the base frame); `solve_` starts from "every frame term disabled", flips the ones whose id is on the stack and
drops the base entry.  Formulas are opaque payloads.
-/
namespace Osmt.Frames

structure Frame (α : Type) where
  id : Nat
  formulas : List α
deriving Repr

structure St (α : Type) where
  frames : List (Frame α)      -- bottom first; `initialize()` pushes the base frame with id 0
  frameId : Nat                -- `AssertionStack::frameId`, the next id
  frameTerms : Nat             -- `frameTerms.size()`
deriving Repr

inductive Op (α : Type) where
  | push | pop | assert (f : α)

def init {α} : St α := { frames := [⟨0, []⟩], frameId := 1, frameTerms := 1 }

def step {α} (s : St α) : Op α → St α
  | .push => { frames := s.frames ++ [⟨s.frameId, []⟩], frameId := s.frameId + 1, frameTerms := s.frameTerms + 1 }
  | .pop => if s.frames.length ≤ 1 then s else { s with frames := s.frames.dropLast }
  | .assert f => match s.frames.getLast? with
    | some fr => { s with frames := s.frames.dropLast ++ [{ fr with formulas := fr.formulas ++ [f] }] }
    | none => s

def run {α} (ops : List (Op α)) : St α := ops.foldl step init

/-- ids handed to `solve_` -/
def enabledIds {α} (s : St α) : List Nat := s.frames.map (·.id)

/-- `solve_`: one assumption per frame term except the base; `true` = enabled (literal negated) -/
def assumptions {α} (s : St α) : List (Nat × Bool) :=
  (List.range s.frameTerms).tail.map (fun i => (i, decide (i ∈ enabledIds s)))

/-- the formulas a fresh solver would be given -/
def active {α} (s : St α) : List α := s.frames.flatMap (·.formulas)

end Osmt.Frames
