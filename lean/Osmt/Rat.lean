/-!
# Mirror model of `FastRational` (src/common/numbers/FastRational.{h,cc})

A value is either in the machine-word representation (`word num`, `uword den`) or in the GMP representation
(an exact canonical rational).  Each operation follows the branches of the C++ function of the same name; the
`CHECK_*` macros become option-returning helpers and `goto overflow` becomes the GMP path, which is exact
rational arithmetic followed by `try_fit_word`.  Unsigned conversions are written as `% 2^32` / `% 2^64`
exactly where the C++ has them.  Core Lean only.
-/
namespace Osmt.FR

def WORD_MIN : Int := -2147483648
def WORD_MAX : Int := 2147483647
def UWORD_MAX : Nat := 4294967295
def LWORD_MIN : Int := -9223372036854775808
def LWORD_MAX : Int := 9223372036854775807

inductive FR where
  | word (n : Int) (d : Nat)        -- wordPartValid()
  | big (n : Int) (d : Nat)         -- only the mpq part is valid
deriving Repr, DecidableEq, Inhabited

def fits (n : Int) (d : Nat) : Bool := decide (WORD_MIN ≤ n) && decide (n ≤ WORD_MAX) && decide (d ≤ UWORD_MAX)

/-- GMP result: canonical rational, then `try_fit_word` -/
def ofRat (q : Rat) : FR := if fits q.num q.den then .word q.num q.den else .big q.num q.den

def FR.toRat : FR → Rat
  | .word n d => mkRat n d
  | .big n d => mkRat n d

def FR.isWord : FR → Bool | .word _ _ => true | .big _ _ => false

/-- `template<integer> gcd` on unsigned arguments: the `while(true)` loop as recursion with fuel `b+1` -/
def gcdLoop : Nat → Nat → Nat → Nat
  | 0, _, b => b
  | fuel+1, a, b => let r := a % b; if r = 0 then b else gcdLoop fuel b r
def gcdU (a b : Nat) : Nat :=
  if a = 0 then b else if b = 0 then a else
  if b > a then gcdLoop (a+1) b a else gcdLoop (b+1) a b

def chkWord (x : Int) : Option Int := if WORD_MIN ≤ x ∧ x ≤ WORD_MAX then some x else none
/-- `CHECK_UWORD` (the `CHECK_POSITIVE` abort is a separate precondition: callers never pass 0) -/
def chkUWord (x : Nat) : Option Nat := if x ≤ UWORD_MAX then some x else none
def chkSumL (s1 s2 : Int) : Option Int :=
  if s1 > 0 ∧ s2 > LWORD_MAX - s1 then none
  else if s1 < 0 ∧ s2 < LWORD_MIN - s1 then none
  else some (s1 + s2)
def chkSubL (s1 s2 : Int) : Option Int :=
  if s1 ≥ 0 ∧ s2 < s1 - LWORD_MAX then none
  else if s1 < 0 ∧ s2 > (s1 + 1) + LWORD_MAX then none
  else some (s1 - s2)

/-- final reduction shared by the general branches: `common = gcd(absVal(n), d)` stored in a `uword` -/
def reduceND (n : Int) (d : Nat) : Option (Int × Nat) :=
  let common : Nat := (gcdU n.natAbs d) % 2^32
  let zn := if common ≠ 1 then n / common else n
  let zd := if common ≠ 1 then d / common else d
  match chkWord zn, chkUWord zd with
  | some zn, some zd => some (zn, zd)
  | _, _ => none

/-- `addition(dst, a, b)` -/
def add (a b : FR) : FR :=
  match a, b with
  | .word an ad, .word bn bd =>
    let slow := ofRat (mkRat an ad + mkRat bn bd)
    if bn = 0 then .word an ad
    else if an = 0 then .word bn bd
    else if ad = bd ∧ bn > WORD_MIN ∧ an = -bn then .word 0 1
    else if bd = 1 then
      match chkWord (an + bn * ad) with
      | some n => .word n ad
      | none => slow
    else if ad = 1 then
      match chkWord (bn + an * bd) with
      | some n => .word n bd
      | none => slow
    else
      let common := gcdU ad bd
      let n1 := if common ≠ 1 then an * (bd / common) else an * bd
      let n2 := if common ≠ 1 then bn * (ad / common) else bn * ad
      match chkSumL n1 n2 with
      | none => slow
      | some n =>
        let d : Nat := (ad * (bd / common)) % 2^64
        match reduceND n d with
        | some (zn, zd) => .word zn zd
        | none => slow
  | a, b => ofRat (a.toRat + b.toRat)

/-- `subtraction(dst, a, b)` -/
def sub (a b : FR) : FR :=
  match a, b with
  | .word an ad, .word bn bd =>
    let slow := ofRat (mkRat an ad - mkRat bn bd)
    if bn = 0 then .word an ad
    else if an = 0 then
      match chkWord (-bn) with
      | some n => .word n bd
      | none => slow
    else if ad = bd ∧ an = bn then .word 0 1
    else if bd = 1 then
      match chkWord (an - bn * ad) with
      | some n => .word n ad
      | none => slow
    else if ad = 1 then
      match chkWord (an * bd - bn) with
      | some n => .word n bd
      | none => slow
    else
      let common := gcdU ad bd
      let nd : Option (Int × Nat) :=
        if common ≠ 1 then some (an * (bd / common) - bn * (ad / common), (ad * (bd / common)) % 2^64)
        else (chkSubL (an * bd) (bn * ad)).map (fun n => (n, (ad * bd) % 2^64))
      match nd with
      | none => slow
      | some (n, d) =>
        match reduceND n d with
        | some (zn, zd) => .word zn zd
        | none => slow
  | a, b => ofRat (a.toRat - b.toRat)

def isZeroW : FR → Bool | .word n _ => n == 0 | _ => false
def isOneW : FR → Bool | .word n d => n == 1 && d == 1 | _ => false

/-- `multiplication(dst, a, b)` -/
def mul (a b : FR) : FR :=
  if isZeroW a || isZeroW b then .word 0 1
  else if isOneW a then b
  else if isOneW b then a
  else match a, b with
  | .word an ad, .word bn bd =>
    let common1 := gcdU an.natAbs bd
    let common2 := gcdU ad bn.natAbs
    let k1 : Int := if common1 > 1 then an / (common1 : Int) else an
    let k4 : Nat := if common1 > 1 then bd / common1 else bd
    let k2 : Int := if common2 > 1 then bn / (common2 : Int) else bn
    let k3 : Nat := if common2 > 1 then ad / common2 else ad
    match chkWord (k1 * k2), chkUWord (k3 * k4) with
    | some zn, some zd => .word zn zd
    | _, _ => ofRat (mkRat an ad * mkRat bn bd)
  | a, b => ofRat (a.toRat * b.toRat)

/-- `division(dst, a, b)`; `b ≠ 0` is the caller's obligation (the C++ aborts in `CHECK_POSITIVE`) -/
def div (a b : FR) : FR :=
  if isOneW b then a
  else if isZeroW a then .word 0 1
  else match a, b with
  | .word an ad, .word bn bd =>
    if an = bn ∧ ad = bd then .word 1 1 else
    let common1 := gcdU an.natAbs bn.natAbs
    let common2 := gcdU ad bd
    match chkWord (((an.natAbs / common1) * (bd / common2) : Nat) : Int), chkUWord ((bn.natAbs / common1) * (ad / common2)) with
    | some zn, some zd =>
      let flip := (bn < 0 ∧ an ≥ 0) ∨ (bn > 0 ∧ an ≤ 0)
      .word (if flip then -zn else zn) zd
    | _, _ => ofRat (mkRat an ad / mkRat bn bd)
  | a, b => ofRat (a.toRat / b.toRat)

/-- `operator-()` and `negate()` (same value and representation) -/
def neg : FR → FR
  | .word n d => if n > WORD_MIN then .word (-n) d else ofRat (-(mkRat n d))
  | a => ofRat (-a.toRat)

/-- `inverse()`; `a ≠ 0` is the caller's obligation -/
def inv : FR → FR
  | .word n d =>
    if n > 0 then
      match chkWord d, chkUWord n.toNat with
      | some zn, some zd => .word zn zd
      | _, _ => ofRat ((mkRat n d)⁻¹)
    else
      match chkWord (-(d : Int)), chkUWord (-n).toNat with
      | some zn, some zd => .word zn zd
      | _, _ => ofRat ((mkRat n d)⁻¹)
  | a => ofRat (a.toRat⁻¹)

def cmpInt (a b : Int) : Int := if a < b then -1 else if a > b then 1 else 0

/-- `compare(b)`: -1, 0, 1 -/
def compare (a b : FR) : Int :=
  match a, b with
  | .word an ad, .word bn bd => if bd = ad then cmpInt an bn else cmpInt (an * bd) (bn * ad)
  | a, b => if a.toRat < b.toRat then -1 else if a.toRat > b.toRat then 1 else 0

/-- `operator==` -/
def beq (a b : FR) : Bool :=
  match a, b with
  | .word an ad, .word bn bd => decide (an = bn) && decide (ad = bd)
  | a, b => decide (a.toRat = b.toRat)

def sign : FR → Int
  | .word n _ => if n < 0 then -1 else if n > 0 then 1 else 0
  | a => if a.toRat < 0 then -1 else if a.toRat > 0 then 1 else 0

def isInteger : FR → Bool
  | .word _ d => d == 1
  | .big _ d => d == 1

/-- `ceil()` -/
def ceil (a : FR) : FR :=
  if isInteger a then a else
  match a with
  | .word n d =>
    let q : Int := (n.natAbs / d : Nat)
    .word (if n < 0 then -q else q + 1) 1
  | a => ofRat (a.toRat.ceil : Int)

/-- `floor()` = `ceil() - 1` for non-integers -/
def floor (a : FR) : FR := if isInteger a then a else sub (ceil a) (.word 1 1)

/-- `getHashValue()` on the word representation -/
def hashWord (n : Int) (d : Nat) : Nat := (37 * (n % 2^32).toNat + 13 * d) % 2^32

/-- word path of `fastrat_fdiv_q` (floor division of integers) -/
def fdivq (n d : FR) : FR :=
  match n, d with
  | .word num _, .word den _ =>
    if num = WORD_MIN then ofRat ((Int.fdiv num den : Int) : Rat) else
    let quo := Int.tdiv num den
    let quo := if Int.tmod num den ≠ 0 ∧ ((num < 0 ∧ den ≥ 0) ∨ (den < 0 ∧ num ≥ 0)) then quo - 1 else quo
    .word quo 1
  | n, d => ofRat ((Int.fdiv n.toRat.num d.toRat.num : Int) : Rat)

end Osmt.FR

namespace Osmt.FR
/-- word path of `operator%`: `absVal(num % d.num)` with the sign of `d` (C++ `%` truncates) -/
def modWord (n d : Int) : Int :=
  let w : Int := (Int.tmod n d).natAbs
  if d > 0 then w else -w
/-- word path of `gcd(FastRational, FastRational)` before the fix: the `gcd` template on signed words -/
def gcdSignedLoop : Nat → Int → Int → Int
  | 0, _, b => b
  | fuel+1, a, b => let r := Int.tmod a b; if r = 0 then b else gcdSignedLoop fuel b r
def gcdSigned (a b : Int) : Int :=
  if a = 0 then b else if b = 0 then a else
  if b > a then gcdSignedLoop 64 b a else gcdSignedLoop 64 a b
end Osmt.FR
