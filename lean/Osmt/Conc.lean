/-!
# Two small machines behind the threading properties

* `Pool`: the pool of big rationals (`FastRational::mpqPool`): `alloc` pops a released cell if there is one, otherwise creates a
  new one; `release` pushes the cell.  With the mutex every execution of several threads is a sequence of these steps.
* `Sys`: the pool together with the threads that use it: every step is one thread's `alloc` or `release`, in any order (the
  mutex makes each atomic); `owner` records which thread holds which cell.
* `Stop`: the restart loop of `CoreSMTSolver::solve_`: every round first looks at the stop flags (`okContinue`), then searches; the
  search of round k either comes back undecided or with a definitive answer.
Core Lean only.
-/
namespace Osmt.Conc

structure Pool where
  created : Nat := 0
  free : List Nat := []
  inUse : List Nat := []          -- ghost: cells handed out and not yet released
deriving Repr

def Pool.alloc (p : Pool) : Pool × Nat :=
  match p.free with
  | c :: r => ({ p with free := r, inUse := c :: p.inUse }, c)
  | [] => ({ p with created := p.created + 1, inUse := p.created :: p.inUse }, p.created)

/-- releasing a cell that is in use (the only way the code releases) -/
def Pool.release (p : Pool) (c : Nat) : Pool :=
  { p with free := c :: p.free, inUse := p.inUse.erase c }

/-- every cell is free or in use, never both, never twice -/
def Pool.Inv (p : Pool) : Prop :=
  (p.free ++ p.inUse).Nodup ∧ ∀ c ∈ p.free ++ p.inUse, c < p.created

/-- the pool as several threads use it: every step is one thread's `alloc` or `release` (the mutex makes them atomic) -/
inductive POp where
  | alloc (t : Nat)
  | release (t : Nat) (c : Nat)
deriving Repr

structure Sys where
  pool : Pool := {}
  owner : List (Nat × Nat) := []      -- ghost: (cell, thread) for every cell handed out and not yet given back
deriving Repr

/-- a thread releases only a cell it holds (a FastRational releases its own `mpq` in its destructor) -/
def Sys.step (s : Sys) : POp → Sys
  | .alloc t => { pool := s.pool.alloc.1, owner := (s.pool.alloc.2, t) :: s.owner }
  | .release t c => if (c, t) ∈ s.owner then { pool := s.pool.release c, owner := s.owner.erase (c, t) } else s

def Sys.run (s : Sys) (ops : List POp) : Sys := ops.foldl Sys.step s

inductive Ans where
  | sat | unsat | unknown
deriving DecidableEq, Repr

/-- `search k`: what the search of round k returns when it is allowed to run (`none`: undecided, restart) -/
def solveLoop (search : Nat → Option Ans) (stopSeenAt : Option Nat) : Nat → Nat → Ans
  | 0, _ => .unknown
  | fuel + 1, k =>
    if (match stopSeenAt with | some j => decide (j ≤ k) | none => false) then .unknown
    else match search k with
      | some a => a
      | none => solveLoop search stopSeenAt fuel (k + 1)

end Osmt.Conc
