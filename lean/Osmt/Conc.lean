/-!
# Two small machines behind the threading properties

* `Pool`: the pool of big rationals (`FastRational::mpqPool`): `alloc` pops a released cell if there is one, otherwise creates a
  new one; `release` pushes the cell.  With the mutex every execution of several threads is a sequence of these steps.
* `Sys`: the pool together with the threads that use it: every step is one thread's `alloc` or `release`, in any order (the
  mutex makes each atomic); `owner` records which thread holds which cell.
* `Stop`: the restart loop of `CoreSMTSolver::solve_`: every round first looks at the stop flags (`okContinue`), then searches; the
  search of round k either comes back undecided or with a definitive answer.
Core Lean only.
-/
namespace Osmt.Conc

structure Pool where
  created : Nat := 0
  free : List Nat := []
  inUse : List Nat := []          -- ghost: cells handed out and not yet released
deriving Repr

def Pool.alloc (p : Pool) : Pool × Nat :=
  match p.free with
  | c :: r => ({ p with free := r, inUse := c :: p.inUse }, c)
  | [] => ({ p with created := p.created + 1, inUse := p.created :: p.inUse }, p.created)

/-- releasing a cell that is in use (the only way the code releases) -/
def Pool.release (p : Pool) (c : Nat) : Pool :=
  { p with free := c :: p.free, inUse := p.inUse.erase c }

/-- every cell is free or in use, never both, never twice -/
def Pool.Inv (p : Pool) : Prop :=
  (p.free ++ p.inUse).Nodup ∧ ∀ c ∈ p.free ++ p.inUse, c < p.created

/-- the pool as several threads use it: every step is one thread's `alloc` or `release` (the mutex makes them atomic) -/
inductive POp where
  | alloc (t : Nat)
  | release (t : Nat) (c : Nat)
deriving Repr

structure Sys where
  pool : Pool := {}
  owner : List (Nat × Nat) := []      -- ghost: (cell, thread) for every cell handed out and not yet given back
deriving Repr

/-- a thread releases only a cell it holds (a FastRational releases its own `mpq` in its destructor) -/
def Sys.step (s : Sys) : POp → Sys
  | .alloc t => { pool := s.pool.alloc.1, owner := (s.pool.alloc.2, t) :: s.owner }
  | .release t c => if (c, t) ∈ s.owner then { pool := s.pool.release c, owner := s.owner.erase (c, t) } else s

def Sys.run (s : Sys) (ops : List POp) : Sys := ops.foldl Sys.step s

inductive Ans where
  | sat | unsat | unknown
deriving DecidableEq, Repr

/-- `search k`: what the search of round k returns when it is allowed to run (`none`: undecided, restart) -/
def solveLoop (search : Nat → Option Ans) (stopSeenAt : Option Nat) : Nat → Nat → Ans
  | 0, _ => .unknown
  | fuel + 1, k =>
    if (match stopSeenAt with | some j => decide (j ≤ k) | none => false) then .unknown
    else match search k with
      | some a => a
      | none => solveLoop search stopSeenAt fuel (k + 1)

/-- the request becomes visible at poll `i0` of round `k0` and stays visible (the flags are never cleared during a check) -/
def visible (stop : Option (Nat × Nat)) (k i : Nat) : Bool :=
  match stop with
  | none => false
  | some (k0, i0) => decide (k0 < k) || (decide (k0 = k) && decide (i0 ≤ i))

/-- the loop of `CoreSMTSolver::search` for round `k`: every iteration polls the flags after `propagate` and leaves the loop
    undecided when a request is visible; `iter k i` is what iteration `i` concludes when it goes on (`none`: keep searching) -/
def inner (iter : Nat → Nat → Option Ans) (stop : Option (Nat × Nat)) (k : Nat) : Nat → Nat → Option Ans
  | 0, _ => none
  | f + 1, i =>
    if visible stop k i then none
    else match iter k i with
      | some a => some a
      | none => inner iter stop k f (i + 1)

/-- `solve_` over `search`: poll, run round `k` with its conflict budget, restart when undecided -/
def solve2 (iter : Nat → Nat → Option Ans) (stop : Option (Nat × Nat)) (budget : Nat → Nat) : Nat → Nat → Ans
  | 0, _ => .unknown
  | F + 1, k =>
    if visible stop k 0 then .unknown
    else match inner iter stop k (budget k) 0 with
      | some a => a
      | none => solve2 iter stop budget F (k + 1)

/-- what the seeded change `C25-stop-midloop-cancel` did, in the model: an iteration that sees the request goes on at level 0,
    where a conflict means unsat.  The theorem above is false of it: -/
def innerBroken (iter : Nat → Nat → Option Ans) (conflict : Nat → Nat → Bool) (stop : Option (Nat × Nat)) (k : Nat) : Nat → Nat → Option Ans
  | 0, _ => none
  | f + 1, i =>
    if visible stop k i then (if conflict k i then some .unsat else none)
    else match iter k i with
      | some a => some a
      | none => innerBroken iter conflict stop k f (i + 1)

end Osmt.Conc
