/-!
# Two small machines behind the threading properties

* `Pool`: the pool of big rationals (`FastRational::mpqPool`): `alloc` pops a released cell if there is one, otherwise creates a
  new one; `release` pushes the cell.  With the mutex every execution of several threads is a sequence of these steps.
* `Stop`: the restart loop of `CoreSMTSolver::solve_`: every round first looks at the stop flags (`okContinue`), then searches; the
  search of round k either comes back undecided or with a definitive answer.
Core Lean only.
-/
namespace Osmt.Conc

structure Pool where
  created : Nat := 0
  free : List Nat := []
  inUse : List Nat := []          -- ghost: cells handed out and not yet released
deriving Repr

def Pool.alloc (p : Pool) : Pool × Nat :=
  match p.free with
  | c :: r => ({ p with free := r, inUse := c :: p.inUse }, c)
  | [] => ({ p with created := p.created + 1, inUse := p.created :: p.inUse }, p.created)

/-- releasing a cell that is in use (the only way the code releases) -/
def Pool.release (p : Pool) (c : Nat) : Pool :=
  { p with free := c :: p.free, inUse := p.inUse.erase c }

/-- every cell is free or in use, never both, never twice -/
def Pool.Inv (p : Pool) : Prop :=
  (p.free ++ p.inUse).Nodup ∧ ∀ c ∈ p.free ++ p.inUse, c < p.created

inductive Ans where
  | sat | unsat | unknown
deriving DecidableEq, Repr

/-- `search k`: what the search of round k returns when it is allowed to run (`none`: undecided, restart) -/
def solveLoop (search : Nat → Option Ans) (stopSeenAt : Option Nat) : Nat → Nat → Ans
  | 0, _ => .unknown
  | fuel + 1, k =>
    if (match stopSeenAt with | some j => decide (j ≤ k) | none => false) then .unknown
    else match search k with
      | some a => a
      | none => solveLoop search stopSeenAt fuel (k + 1)

end Osmt.Conc
