import Osmt.Term
/-!
# Models as printed by `get-model`: definitions with bodies, interpreted by `eval` itself.
-/
namespace Osmt

def defaultVal : Srt → Val
  | .bool => .b false
  | .int => .n 0
  | .real => .n 0
  | .u _ => .u 0

structure FunDef where
  id : Nat
  srt : Srt
  params : List (Nat × Srt)
  body : Term
deriving Inhabited

structure Model where
  abs : List (Nat × Srt × Nat)      -- abstract values `(as @k S)`: declaration index, sort, element number
  defs : List FunDef
deriving Inhabited

/-- interpretation of abstract values only -/
def Model.base (m : Model) : Interp :=
  { var := fun id s => match m.abs.find? (fun a => a.1 = id && a.2.1 = s) with
      | some a => .u a.2.2
      | none => defaultVal s
    uf := fun _ s _ => defaultVal s }

def bindParams (I : Interp) (params : List (Nat × Srt)) (vs : List Val) : Interp :=
  { I with var := fun id s => match (params.zip vs).find? (fun pv => pv.1.1 = id && pv.1.2 = s) with
      | some pv => pv.2
      | none => I.var id s }

/-- the interpretation denoted by a printed model: constants and functions are the values of their bodies -/
def Model.interp (m : Model) : Interp :=
  { var := fun id s => match m.defs.find? (fun d => d.id = id && d.srt = s && d.params.isEmpty) with
      | some d => eval m.base d.body
      | none => m.base.var id s
    uf := fun id s vs => match m.defs.find? (fun d => d.id = id && d.srt = s && d.params.length = vs.length) with
      | some d => eval (bindParams m.base d.params vs) d.body
      | none => defaultVal s }

/-- sort-correctness of the constants of a model (integers for `Int` in particular) -/
def Model.constsWellSorted (m : Model) : Bool :=
  m.defs.all (fun d => !d.params.isEmpty || (eval m.base d.body).hasSort d.srt)

/-- all formulas evaluate to true -/
def Model.satisfies (m : Model) (ts : List Term) : Bool := ts.all (evalB m.interp)

end Osmt
