/-!
# Mirror of the integer rounding done by the solver

* `foldDiv` / `foldMod`: constant folding in `ArithLogic::mkIntDiv` / `mkMod` (real quotient, then floor for a
  positive divisor and ceil for a negative one; remainder by subtraction);
* `boundLeq`, `boundLt`, `boundGeqNeg`, …: `LASolver::getBoundsValueForIntVar` (bounds on an integer term from a
  rational constant);
* `negateDL`: `Converter<SafeInt>::negate` (negation of an integer difference constraint `x - y ≤ c`).
Core Lean only.
-/
namespace Osmt.IntRound

def foldDiv (a d : Int) : Int :=
  let q : Rat := (a : Rat) / (d : Rat)
  if d > 0 then q.floor else q.ceil
def foldMod (a d : Int) : Int := a - foldDiv a d * d

/-- upper bound on an integer term `t` from `t ≤ c` -/
def boundLeq (c : Rat) : Int := c.floor
/-- upper bound from `t < c` -/
def boundLt (c : Rat) : Int := (c - 1).ceil
/-- lower bound from `¬(t ≤ c)` -/
def boundNotLeq (c : Rat) : Int := (c + 1).floor
/-- lower bound from `¬(t < c)` -/
def boundNotLt (c : Rat) : Int := c.ceil

/-- `Converter<SafeInt>::negate`: the bound of the reversed edge for `¬(x - y ≤ c)` -/
def negateDL (c : Int) : Int := -(c + 1)

end Osmt.IntRound
