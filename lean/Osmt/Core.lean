/-!
# Mirror of unsat-core minimisation (`UnsatCoreBuilder::Minimize::performNaive`)

The inner solver is an oracle `unsat : List α → Bool`.  For each target term in turn: assert the background terms,
the terms kept so far and the targets not yet visited; if that is already unsatisfiable the term is redundant,
otherwise it is kept.  Core Lean only.
-/
namespace Osmt.Core

def performNaiveAux {α} (unsat : List α → Bool) (bg : List α) : List α → List α → List α
  | kept, [] => kept
  | kept, t :: rest =>
    if unsat (bg ++ kept ++ rest) then performNaiveAux unsat bg kept rest
    else performNaiveAux unsat bg (kept ++ [t]) rest

def performNaive {α} (unsat : List α → Bool) (bg targets : List α) : List α :=
  performNaiveAux unsat bg [] targets

end Osmt.Core
