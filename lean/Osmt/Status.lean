/-!
# Exit status and diagnostics (model of `Interpret::notify_formatted` / `main`)

Every problem the interpreter reports goes through one function that prints an `(error ...)` response and clears the
status flag; nothing sets the flag again; `main` returns 0 exactly when the flag is still set.  Core Lean only.
-/
namespace Osmt.Status

inductive Ev where
  | response          -- success, sat / unsat / unknown, a model, ...
  | error             -- an (error "...") response
deriving DecidableEq, Repr

structure St where
  ok : Bool := true
  stopped : Bool := false
deriving DecidableEq, Repr

def step (s : St) : Ev → St
  | .response => s
  | .error => { s with ok := false }

def run (evs : List Ev) : St := evs.foldl step {}

def exitStatus (s : St) : Nat := if s.ok then 0 else 1

end Osmt.Status
