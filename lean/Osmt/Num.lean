/-!
# Numeric literals: mirror of `StringConv.h` (`isIntString`, `isRealString`, `stringToRational`)

`isRealString` is the eight-state automaton of the C++; `s2r` is `stringToRational` restated on digit lists: the
C++ makes three passes (count numerator digits, count denominator digits, copy) whose net effect is "drop the
sign, drop leading zeros of the integer part, drop trailing zeros of the fraction part, put the remaining digits
over the matching power of ten"; a string with `/` is handed to GMP as it is.  Strings the first pass rejects
give `none` (the C++ throws).  Core Lean only.
-/
namespace Osmt.Num

def isDigit (c : Char) : Bool := '0' ≤ c && c ≤ '9'
def isPosDig (c : Char) : Bool := '0' < c && c ≤ '9'
def digitVal (c : Char) : Nat := c.toNat - '0'.toNat

def dropSign (s : List Char) : List Char := match s with | '-' :: r => r | _ => s
def isNeg (s : List Char) : Bool := match s with | '-' :: _ => true | _ => false

/-- `isIntString` -/
def isIntString (s : List Char) : Bool :=
  match s with
  | [] => false
  | _ => (dropSign s).all isDigit

inductive RS | s0 | s1 | s2 | s3 | s4 | s5 | s6 | s7 | bad
deriving DecidableEq

def rsStep (st : RS) (c : Char) : RS :=
  match st with
  | .s0 => if c = '.' then .s2 else if isDigit c then .s1 else .bad
  | .s1 => if c = '.' then .s2 else if isDigit c then .s1 else if c = '/' then .s4 else .bad
  | .s2 => if isDigit c then .s3 else .bad
  | .s3 => if isDigit c then .s3 else if c = '/' then .s4 else .bad
  | .s4 | .s5 => if isDigit c then .s5 else if c = '.' then .s6 else .bad
  | .s6 | .s7 => if isDigit c then .s7 else .bad
  | .bad => .bad

/-- `isRealString` -/
def isRealString (s : List Char) : Bool :=
  match s with
  | [] => false
  | _ => match (dropSign s).foldl rsStep .s0 with
    | .s1 | .s3 | .s5 | .s7 => true
    | _ => false

/-- value of a digit list, most significant first -/
def natOfDigits (ds : List Char) : Nat := ds.foldl (fun acc c => acc * 10 + digitVal c) 0

def dropTrailingZeros (ds : List Char) : List Char := (ds.reverse.dropWhile (· = '0')).reverse

/-- first-pass acceptance of `stringToRational` for strings without `/` (states 0–4): digits, at most one dot -/
def decShape (s : List Char) : Option (List Char × List Char) :=
  let ip := s.takeWhile isDigit
  let rest := s.dropWhile isDigit
  match rest with
  | [] => some (ip, [])
  | '.' :: fp => if fp.all isDigit then some (ip, fp) else none
  | _ => none

/-- `stringToRational` on strings without `/`; `none` = the C++ throws `strConvException` -/
def s2rDec (s : List Char) : Option Rat :=
  match decShape (dropSign s) with
  | none => none
  | some (ip, fp) =>
    let fp' := dropTrailingZeros fp
    let n := natOfDigits (ip ++ fp')
    let q : Rat := mkRat n (10 ^ fp'.length)
    some (if isNeg s then -q else q)

/-- the decimal value a literal `[-]ip.fp` denotes -/
def decimalValue (neg : Bool) (ip fp : List Char) : Rat :=
  let q : Rat := mkRat (natOfDigits (ip ++ fp)) (10 ^ fp.length)
  if neg then -q else q

/-- the lexer's TK_DEC language: `-?[0-9]+\.0*[0-9]+` -/
def lexDec (s : List Char) : Bool :=
  match decShape (dropSign s) with
  | some (ip, fp) => !ip.isEmpty && !fp.isEmpty && (dropSign s).contains '.'
  | none => false

end Osmt.Num

namespace Osmt.Num
/-- `digits '/' digits` -/
def fracShape (s : List Char) : Option (List Char × List Char) :=
  let np := s.takeWhile isDigit
  match s.dropWhile isDigit with
  | '/' :: dp => if dp.all isDigit then some (np, dp) else none
  | _ => none

/-- `stringToRational` on strings with `/` (handed to GMP in base 10, then canonicalised) -/
def s2rFrac (s : List Char) : Option Rat :=
  match fracShape (dropSign s) with
  | none => none
  | some (np, dp) =>
    let q : Rat := mkRat (natOfDigits np) (natOfDigits dp)
    some (if isNeg s then -q else q)

def s2r (s : List Char) : Option Rat :=
  if (dropSign s).contains '/' then s2rFrac s else s2rDec s
end Osmt.Num
