import Osmt.Term
import Osmt.Prop
import Osmt.Skel
/-!
# Linear arithmetic kernel: linearisation of terms, Farkas certificates, clause validity

`laClauseCheck` validates a theory clause of linear arithmetic (LRA or LIA, possibly with foreign subterms
treated as variables) from a certificate: the negations of the clause literals are turned into linear
constraints over `Rat`-valued unknowns (one per maximal non-arithmetic subterm), strict integer constraints
are tightened, disequalities are split, and each branch is refuted by a non-negative combination.
-/
namespace Osmt.LA

/-- polynomial as association list (unknown ↦ coefficient); unknowns may repeat -/
abbrev Poly := List (Term × Rat)

def Poly.eval (x : Term → Rat) : Poly → Rat
  | [] => 0
  | (v, c) :: p => c * x v + Poly.eval x p

/-- add `c·v`, merging with the first entry for `v` -/
def Poly.add1 (v : Term) (c : Rat) : Poly → Poly
  | [] => [(v, c)]
  | (w, d) :: p => if v = w then (w, d + c) :: p else (w, d) :: Poly.add1 v c p

/-- `acc + k·p` -/
def Poly.addScaled (k : Rat) : Poly → Poly → Poly
  | [], acc => acc
  | (v, c) :: p, acc => Poly.addScaled k p (Poly.add1 v (k * c) acc)

/-- linear expression `poly + const` -/
structure Lin where
  poly : Poly
  const : Rat
deriving Inhabited

def Lin.eval (x : Term → Rat) (l : Lin) : Rat := l.poly.eval x + l.const
def Lin.add (a b : Lin) : Lin := ⟨Poly.addScaled 1 b.poly a.poly, a.const + b.const⟩
def Lin.scale (k : Rat) (a : Lin) : Lin := ⟨Poly.addScaled k a.poly [], k * a.const⟩
def Lin.sub (a b : Lin) : Lin := ⟨Poly.addScaled (-1) b.poly a.poly, a.const - b.const⟩
def Lin.isConst (a : Lin) : Bool := a.poly.all (fun vc => decide (vc.2 = 0))

mutual
  /-- linear form of an arithmetic term; every subterm that is not `+`, `-`, a numeral or a product with at
  most one non-constant factor becomes an unknown -/
  def linearize : Term → Lin
    | .app o as => match o with
      | .num q => ⟨[], q⟩
      | .plus => linSum as
      | .times => linProd as
      | .minus => match as with
        | [] => ⟨[], 0⟩
        | [a] => Lin.scale (-1) (linearize a)
        | a :: r => Lin.sub (linearize a) (linSum r)
      | _ => ⟨[(.app o as, 1)], 0⟩
  def linSum : List Term → Lin
    | [] => ⟨[], 0⟩
    | t :: r => Lin.add (linearize t) (linSum r)
  /-- product; `none`-like fallback (non-linear) is represented by making the whole product an unknown at
  the caller: here we return the product only when at most one factor is non-constant -/
  def linProd : List Term → Lin
    | [] => ⟨[], 1⟩
    | t :: r =>
      let a := linearize t
      let b := linProd r
      if a.isConst then Lin.scale a.const b
      else if b.isConst then Lin.scale b.const a
      else ⟨[(.app .times (t :: r), 1)], 0⟩
end

/-- syntactic check that a term is number-valued in every well-formed interpretation -/
def isNum : Term → Bool
  | .app o as => match o with
    | .num _ | .plus | .times | .minus | .rdiv | .idiv | .imod => true
    | .var _ s | .uf _ s => decide (s = .int) || decide (s = .real)
    | .ite => match as with
      | [_, a, b] => isNum a && isNum b
      | _ => false
    | _ => false

/-- constraint `lin ≥ 0` (or `> 0` when strict) -/
structure Ineq where
  lin : Lin
  strict : Bool
deriving Inhabited

def Ineq.holds (x : Term → Rat) (i : Ineq) : Prop :=
  if i.strict then 0 < i.lin.eval x else 0 ≤ i.lin.eval x

/-- unknowns known to be integer-valued in well-formed interpretations -/
def isIntUnknown : Term → Bool
  | .app (.var _ s) _ => decide (s = .int)
  | .app (.uf _ s) _ => decide (s = .int)
  | _ => false

def Lin.isIntegral (l : Lin) : Bool :=
  l.poly.all (fun vc => isIntUnknown vc.1 && decide (vc.2.den = 1))

/-- tightening of a constraint over integer-valued polynomials: `p + k > 0` becomes `p + ⌈k⌉ - 1 ≥ 0`,
`p + k ≥ 0` becomes `p + ⌊k⌋ ≥ 0` -/
def Ineq.tighten (i : Ineq) : Ineq :=
  if i.lin.isIntegral then
    if i.strict then ⟨⟨i.lin.poly, ((i.lin.const.ceil - 1 : Int) : Rat)⟩, false⟩
    else ⟨⟨i.lin.poly, ((i.lin.const.floor : Int) : Rat)⟩, false⟩
  else i

/-- what a literal (atom, negated?) that is *true* contributes: a conjunction of constraints and
optionally one disjunction of two constraints -/
inductive Item where
  | conj (is : List Ineq)
  | disj (a b : Ineq)
  | skip                      -- literal not understood: contributes nothing (weakening)

/-- constraints of the literal `atom` (sign `neg = true` means the literal is `¬ atom`) being true -/
def itemOf (atom : Term) (neg : Bool) : Item :=
  match atom with
  | .app .leq [a, b] =>
    if neg then .conj [Ineq.tighten ⟨Lin.sub (linearize a) (linearize b), true⟩]      -- a > b
    else .conj [Ineq.tighten ⟨Lin.sub (linearize b) (linearize a), false⟩]            -- a ≤ b
  | .app .lt [a, b] =>
    if neg then .conj [Ineq.tighten ⟨Lin.sub (linearize a) (linearize b), false⟩]     -- a ≥ b
    else .conj [Ineq.tighten ⟨Lin.sub (linearize b) (linearize a), true⟩]
  | .app .geq [a, b] =>
    if neg then .conj [Ineq.tighten ⟨Lin.sub (linearize b) (linearize a), true⟩]
    else .conj [Ineq.tighten ⟨Lin.sub (linearize a) (linearize b), false⟩]
  | .app .gt [a, b] =>
    if neg then .conj [Ineq.tighten ⟨Lin.sub (linearize b) (linearize a), false⟩]
    else .conj [Ineq.tighten ⟨Lin.sub (linearize a) (linearize b), true⟩]
  | .app .eq [a, b] =>
    if a.isBool || b.isBool then .skip else
    let d1 := Lin.sub (linearize a) (linearize b)
    let d2 := Lin.sub (linearize b) (linearize a)
    if neg then (if isNum a && isNum b then .disj (Ineq.tighten ⟨d1, true⟩) (Ineq.tighten ⟨d2, true⟩) else .skip)
    else .conj [⟨d1, false⟩, ⟨d2, false⟩]
  | _ => .skip

/-- weighted sum of constraints: polynomial, constant, "some strict constraint has positive weight" -/
def combine : List (Ineq × Rat) → Poly × Rat × Bool
  | [] => ([], 0, false)
  | (i, k) :: rest =>
    let (p, c, s) := combine rest
    (Poly.addScaled k i.lin.poly p, c + k * i.lin.const, s || (i.strict && decide (0 < k)))

/-- Farkas check: non-negative weights, all unknowns cancel, the constant is contradictory -/
def farkasCheck (cs : List (Ineq × Rat)) : Bool :=
  cs.all (fun ik => decide (0 ≤ ik.2)) &&
  (let (p, c, s) := combine cs
   p.all (fun vc => decide (vc.2 = 0)) && (if s then decide (c ≤ 0) else decide (c < 0)))

/-- certificate: Farkas weights for the current conjunction, or a split of the first pending disjunction -/
inductive Cert where
  | farkas (ws : List Rat)
  | split (lo hi : Cert)

def refute (conj : List Ineq) (disjs : List (Ineq × Ineq)) : Cert → Bool
  | .farkas ws => farkasCheck (conj.zip ws)
  | .split lo hi => match disjs with
    | [] => false
    | (a, b) :: rest => refute (a :: conj) rest lo && refute (b :: conj) rest hi

def collect : List Item → List Ineq × List (Ineq × Ineq)
  | [] => ([], [])
  | .conj is :: r => let (c, d) := collect r; (is ++ c, d)
  | .disj a b :: r => let (c, d) := collect r; (c, (a, b) :: d)
  | .skip :: r => collect r

/-- A clause given as (atom, negated?) pairs is LA-valid if the negations of all its literals are jointly
refuted by the certificate. -/
def laClauseCheck (lits : List (Term × Bool)) (cert : Cert) : Bool :=
  let items := lits.map (fun l => itemOf l.1 (!l.2))
  let (c, d) := collect items
  refute c d cert

end Osmt.LA

namespace Osmt.LA
/-- C26: a conflict of asserted bounds `lits` (atom, negated?) with the solver's own coefficients `ws`: one
strictly positive weight per bound, all unknowns cancel, the constant is contradictory. -/
def conflictCheck (lits : List (Term × Bool)) (ws : List Rat) : Bool :=
  let (c, d) := collect (lits.map (fun l => itemOf l.1 l.2))
  d.isEmpty && decide (c.length = ws.length) && decide (lits.length = ws.length) &&
    ws.all (fun w => decide (0 < w)) && farkasCheck (c.zip ws)
end Osmt.LA
