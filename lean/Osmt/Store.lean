/-!
# Hash-consed term store (model of `PtStore` / `Logic::mkFun`)

A term is a node: a symbol applied to the identities of its arguments.  `intern` returns the identity of an equal node if
there is one, otherwise it appends the node and returns the new identity (identities are positions: monotone).  For
commutative symbols the arguments are sorted by identity first (`Logic::termSort`).  Core Lean only.
-/
namespace Osmt.Store

structure Node where
  sym : Nat
  args : List Nat
deriving DecidableEq, Repr

abbrev Store := List Node

def intern (st : Store) (n : Node) : Store × Nat :=
  match st.findIdx? (· == n) with
  | some i => (st, i)
  | none => (st ++ [n], st.length)

/-- argument order normalisation of commutative symbols -/
def normal (comm : Nat → Bool) (n : Node) : Node :=
  if comm n.sym then { n with args := n.args.mergeSort (· ≤ ·) } else n

def mk (comm : Nat → Bool) (st : Store) (n : Node) : Store × Nat := intern st (normal comm n)

/-- no two identities hold the same node; arguments are older than the term -/
def Inv (st : Store) : Prop :=
  st.Nodup ∧ ∀ (i : Nat) (n : Node), st[i]? = some n → ∀ a ∈ n.args, a < i

end Osmt.Store
