import Osmt.Term
import Osmt.Skel
/-!
# EUF kernel: checker of explicit equational proofs (hypotheses, reflexivity, symmetry, transitivity,
congruence) and validity of clauses of equality logic with uninterpreted functions.

The proof is produced outside (an untrusted proof-producing congruence closure); no completeness or
termination argument is needed here.  Congruence is sound for *every* operator of `Op`, interpreted or not,
because `eval (app o as)` depends on `as` only through `evalList as`.
-/
namespace Osmt.EUF

abbrev Eqn := Term × Term

inductive Step where
  | hyp (i : Nat)
  | refl (t : Term)
  | symm (j : Nat)
  | trans (j k : Nat)
  | congr (a b : Term) (js : List Nat)
  | bnot (j : Nat)          -- from `a = false` conclude `(not a) = true`, from `a = true` conclude `(not a) = false`
  | eqT (j : Nat)           -- from `a = b` conclude `(= a b) = true`
deriving Inhabited

/-- `js[i]` proves `as[i] = bs[i]`, pairwise, same length -/
def argsOk (derived : Array Eqn) : List Term → List Term → List Nat → Bool
  | [], [], [] => true
  | a :: as, b :: bs, j :: js =>
    (match derived[j]? with
     | some (x, y) => decide (x = a) && decide (y = b)
     | none => false) && argsOk derived as bs js
  | _, _, _ => false

/-- the equation established by one step, if the step is well-formed -/
def tru : Term := .app .tru []
def fls : Term := .app .fls []

def stepEqn (hyps : Array Eqn) (derived : Array Eqn) : Step → Option Eqn
  | .hyp i => hyps[i]?
  | .refl t => some (t, t)
  | .symm j => match derived[j]? with
    | some (a, b) => some (b, a)
    | none => none
  | .trans j k => match derived[j]?, derived[k]? with
    | some (a, b), some (b', c) => if b = b' then some (a, c) else none
    | _, _ => none
  | .congr a b js => match a, b with
    | .app o1 as, .app o2 bs => if o1 = o2 && argsOk derived as bs js then some (a, b) else none
  | .eqT j => match derived[j]? with
    | some (a, b) => some (.app .eq [a, b], tru)
    | none => none
  | .bnot j => match derived[j]? with
    | some (a, c) => if c = fls then some (.app .not [a], tru) else if c = tru then some (.app .not [a], fls) else none
    | none => none

/-- run all steps; `none` if some step is ill-formed -/
def runSteps (hyps : Array Eqn) : List Step → Array Eqn → Option (Array Eqn)
  | [], d => some d
  | s :: r, d => match stepEqn hyps d s with
    | some e => runSteps hyps r (d.push e)
    | none => none

/-- hypotheses contributed by the *negation* of a clause literal `(atom, neg)`:
`¬(a = b)` in the clause gives `a = b` (non-Boolean sides); every Boolean atom `p` gives `p = true` when it occurs
negated in the clause and `p = false` when it occurs positively (equalities included, as Boolean terms) -/
def hypsOfLit (l : Term × Bool) : List Eqn :=
  (match l with
   | (.app .eq [a, b], true) => if a.isBool || b.isBool then [] else [(a, b)]
   | _ => []) ++
  (if l.1.isBool then [(l.1, if l.2 then tru else fls)] else [])

def hypsOf (lits : List (Term × Bool)) : List Eqn := lits.flatMap hypsOfLit

def isNumeral : Term → Option Rat
  | .app (.num q) [] => some q
  | _ => none

/-- the derived equation `e` contradicts the negated clause -/
def contradicts (lits : List (Term × Bool)) (e : Eqn) : Bool :=
  -- a positive equality literal of the clause is derived
  lits.any (fun l => match l with
    | (.app .eq [a, b], false) => (decide (a = e.1) && decide (b = e.2)) || (decide (a = e.2) && decide (b = e.1))
    | _ => false)
  -- or true = false
  || (decide (e.1 = tru) && decide (e.2 = fls)) || (decide (e.1 = fls) && decide (e.2 = tru))
  -- or two different numerals are equated
  || (match isNumeral e.1, isNumeral e.2 with
      | some p, some q => decide (p ≠ q)
      | _, _ => false)

/-- EUF validity of a clause from an equational proof of a contradiction with its negation -/
def eufClauseCheck (lits : List (Term × Bool)) (steps : List Step) (goal : Nat) : Bool :=
  match runSteps (hypsOf lits).toArray steps #[] with
  | none => false
  | some d => match d[goal]? with
    | some e => contradicts lits e
    | none => false

end Osmt.EUF
