/-!
# Terms, values and SMT-LIB semantics (`Sem`)

Specification layer used by every kernel and evaluator: a term is an operator applied to a list of
terms; `eval` is the SMT-LIB meaning of the core, Ints/Reals and UF operators.  Core Lean only.
-/
namespace Osmt

/-- Sorts: Bool, Int, Real and uninterpreted sorts by index. -/
inductive Srt where
  | bool | int | real | u (k : Nat)
deriving DecidableEq, Repr, Inhabited

/-- Operators.  `var`/`uf` carry the declaration index given by the term table and the result sort. -/
inductive Op where
  | tru | fls | not | and | or | xor | imp | eq | ite | distinct
  | var (id : Nat) (s : Srt) | uf (id : Nat) (s : Srt)
  | num (q : Rat)
  | plus | times | minus | rdiv | idiv | imod
  | leq | lt | geq | gt
deriving DecidableEq, Repr, Inhabited

inductive Term where
  | app (op : Op) (args : List Term)
deriving Repr, Inhabited

namespace Term
def op : Term → Op | app o _ => o
def args : Term → List Term | app _ as => as

mutual
  def beq : Term → Term → Bool
    | app o1 a1, app o2 a2 => decide (o1 = o2) && beqList a1 a2
  def beqList : List Term → List Term → Bool
    | [], [] => true
    | t1 :: r1, t2 :: r2 => beq t1 t2 && beqList r1 r2
    | _, _ => false
end

mutual
  theorem beq_eq : ∀ (a b : Term), beq a b = true → a = b
    | app o1 a1, app o2 a2, h => by
      simp only [beq, Bool.and_eq_true, decide_eq_true_eq] at h
      rw [h.1, beqList_eq a1 a2 h.2]
  theorem beqList_eq : ∀ (a b : List Term), beqList a b = true → a = b
    | [], [], _ => rfl
    | t1 :: r1, t2 :: r2, h => by
      simp only [beqList, Bool.and_eq_true] at h
      rw [beq_eq t1 t2 h.1, beqList_eq r1 r2 h.2]
    | [], _ :: _, h => by simp [beqList] at h
    | _ :: _, [], h => by simp [beqList] at h
end

mutual
  theorem beq_refl : ∀ (a : Term), beq a a = true
    | app o a => by simp [beq, beqList_refl a]
  theorem beqList_refl : ∀ (a : List Term), beqList a a = true
    | [] => rfl
    | t :: r => by simp [beqList, beq_refl t, beqList_refl r]
end

instance : DecidableEq Term := fun a b =>
  if h : beq a b = true then isTrue (beq_eq a b h)
  else isFalse (fun e => h (e ▸ beq_refl a))
end Term

/-- Values: Booleans, exact rationals (Int and Real share them), elements of uninterpreted sorts. -/
inductive Val where
  | b (x : Bool) | n (q : Rat) | u (k : Nat)
deriving DecidableEq, Repr, Inhabited

def Val.toBool : Val → Bool | .b x => x | _ => false
def Val.toRat : Val → Rat | .n q => q | _ => 0

/-- An interpretation of the declared symbols. -/
structure Interp where
  var : Nat → Srt → Val
  uf : Nat → Srt → List Val → Val

def allEqAdj : List Val → Bool
  | a :: b :: r => decide (a = b) && allEqAdj (b :: r)
  | _ => true
def pairwiseDistinct : List Val → Bool
  | [] => true
  | a :: r => r.all (fun x => decide (x ≠ a)) && pairwiseDistinct r
def chainRel (rel : Rat → Rat → Bool) : List Val → Bool
  | a :: b :: r => rel a.toRat b.toRat && chainRel rel (b :: r)
  | _ => true
def sumVals (vs : List Val) : Rat := vs.foldr (fun v acc => v.toRat + acc) 0
def prodVals (vs : List Val) : Rat := vs.foldr (fun v acc => v.toRat * acc) 1
def minusVals : List Val → Rat
  | [] => 0
  | [a] => - a.toRat
  | a :: r => a.toRat - sumVals r
/-- Euclidean division / remainder on the integer parts (SMT-LIB Ints). -/
def idivRat (a b : Rat) : Rat := ((a.num / a.den) / (b.num / b.den) : Int)   -- Int.div is Euclidean (ediv)
def imodRat (a b : Rat) : Rat := ((a.num / a.den) % (b.num / b.den) : Int)

/-- meaning of an operator on argument values -/
def applyOp (I : Interp) (o : Op) (vs : List Val) : Val :=
  match o with
  | .tru => .b true
  | .fls => .b false
  | .not => .b (match vs with | [a] => !a.toBool | _ => false)
  | .and => .b (vs.all Val.toBool)
  | .or => .b (vs.any Val.toBool)
  | .xor => .b (match vs with | [a, b] => (a.toBool != b.toBool) | _ => false)
  | .imp => .b (match vs with | [a, b] => (!a.toBool || b.toBool) | _ => false)
  | .eq => .b (allEqAdj vs)
  | .distinct => .b (pairwiseDistinct vs)
  | .ite => match vs with | [c, a, b] => if c.toBool then a else b | _ => .b false
  | .var id s => I.var id s
  | .uf id s => I.uf id s vs
  | .num q => .n q
  | .plus => .n (sumVals vs)
  | .times => .n (prodVals vs)
  | .minus => .n (minusVals vs)
  | .rdiv => .n (match vs with | [a, b] => a.toRat / b.toRat | _ => 0)
  | .idiv => .n (match vs with | [a, b] => idivRat a.toRat b.toRat | _ => 0)
  | .imod => .n (match vs with | [a, b] => imodRat a.toRat b.toRat | _ => 0)
  | .leq => .b (chainRel (fun x y => decide (x ≤ y)) vs)
  | .lt => .b (chainRel (fun x y => decide (x < y)) vs)
  | .geq => .b (chainRel (fun x y => decide (x ≥ y)) vs)
  | .gt => .b (chainRel (fun x y => decide (x > y)) vs)

mutual
  def eval (I : Interp) : Term → Val
    | .app o as => applyOp I o (evalList I as)
  def evalList (I : Interp) : List Term → List Val
    | [] => []
    | t :: r => eval I t :: evalList I r
end

def evalB (I : Interp) (t : Term) : Bool := (eval I t).toBool

theorem evalList_eq_map (I : Interp) : ∀ ts, evalList I ts = ts.map (eval I)
  | [] => rfl
  | t :: r => by simp [evalList, evalList_eq_map I r]

def Val.isInt : Val → Bool | .n q => q.den == 1 | _ => false
/-- a value inhabits a sort -/
def Val.hasSort : Val → Srt → Bool
  | .b _, .bool => true
  | .n q, .int => q.den == 1
  | .n _, .real => true
  | .u _, .u _ => true
  | _, _ => false
/-- Well-formed interpretations give every symbol a value of its sort (in particular integers to Int). -/
def Interp.WF (I : Interp) : Prop :=
  (∀ id s, (I.var id s).hasSort s = true) ∧ (∀ id s vs, (I.uf id s vs).hasSort s = true)

/-- `I` satisfies all formulas of `ts` -/
def Sat (I : Interp) (ts : List Term) : Prop := ∀ t ∈ ts, evalB I t = true
def Unsat (ts : List Term) : Prop := ¬ ∃ I, I.WF ∧ Sat I ts

end Osmt
