/-!
# Front end as a command machine (model of `Interpret::interp` bookkeeping)

State: whether a logic is set, the incremental flag, the assertion levels (ids of accepted assertions), the scoped
names, the declared symbols, the record of accepted assertions used to number interpolation partitions.  Every command
returns `ok` or `err`; the rejection rules are those of the interpreter.  Terms are abstracted to what the rules look at:
an assertion carries its id, whether it resolves to a well-sorted Boolean term, and the names it introduces.
Core Lean only.
-/
namespace Osmt.Front

inductive Cmd where
  | setLogic
  | setIncremental (b : Bool)
  | declare (sym : Nat)
  | assert (id : Nat) (wellFormed : Bool) (names : List Nat)   -- `names`: every (! t :named n) inside, outermost last
  | push (n : Nat)
  | pop (n : Nat)
  | checkSat
  | query                                                       -- get-model, get-value, get-unsat-core, ...: no state change
deriving Repr, DecidableEq

inductive Resp where
  | ok | err
deriving Repr, DecidableEq

structure St where
  logicSet : Bool := false
  incremental : Bool := true
  checked : Bool := false                -- a check-sat has been answered (matters only when not incremental)
  levels : List (List Nat) := [[]]       -- assertion ids per level, innermost last
  names : List (List Nat) := [[]]        -- names per level
  decls : List Nat := []
  record : List Nat := []                -- accepted assertions in order (partition numbering)
deriving Repr, DecidableEq

def allNames (s : St) : List Nat := s.names.flatten

def addToLast (ls : List (List Nat)) (xs : List Nat) : List (List Nat) :=
  match ls.reverse with
  | [] => [xs]
  | l :: r => (((l ++ xs) :: r).reverse)

/-- one command; a rejected command returns the state it was given -/
def step (s : St) (c : Cmd) : St × Resp :=
  match c with
  | .setLogic => if s.logicSet then (s, .err) else ({ s with logicSet := true }, .ok)
  | .setIncremental b => if s.logicSet then (s, .err) else ({ s with incremental := b }, .ok)
  | .declare sym =>
    if !s.logicSet || s.decls.contains sym then (s, .err) else ({ s with decls := sym :: s.decls }, .ok)
  | .assert id wf ns =>
    if !s.logicSet || !wf || ns.any (fun n => (allNames s).contains n) || !ns.Nodup then (s, .err)
    else ({ s with levels := addToLast s.levels [id], names := addToLast s.names ns, record := s.record ++ [id] }, .ok)
  | .push n =>
    if !s.logicSet || !s.incremental then (s, .err)
    else ({ s with levels := s.levels ++ List.replicate n [], names := s.names ++ List.replicate n [] }, .ok)
  | .pop n =>
    if !s.logicSet || !s.incremental || s.levels.length ≤ n then (s, .err)
    else ({ s with levels := s.levels.take (s.levels.length - n), names := s.names.take (s.names.length - n) }, .ok)
  | .checkSat => if !s.logicSet then (s, .err) else ({ s with checked := true }, .ok)
  | .query => (s, if s.logicSet then .ok else .err)

def run (s : St) : List Cmd → St × List Resp
  | [] => (s, [])
  | c :: r =>
    let (s1, o) := step s c
    let (s2, os) := run s1 r
    (s2, o :: os)

/-- the commands of a script that are accepted when it is run from `s` -/
def accepted (s : St) : List Cmd → List Cmd
  | [] => []
  | c :: r => if (step s c).2 = .err then accepted s r else c :: accepted (step s c).1 r

def active (s : St) : List Nat := s.levels.flatten

end Osmt.Front
