import Osmt.Term
/-!
# Preprocessing rewrites (model of `Substitutor`, `DistinctRewriter`, `ArithmeticEqualityRewriter`,
`DivModRewriter`, `IteHandler`)

Each rewrite is a function on terms; `OsmtProofs/Rewrite.lean` proves it keeps the value of the term in every
interpretation (equivalences) or in the extension of the interpretation over the fresh symbol (definitions).
-/
namespace Osmt.Rewrite
open Osmt

/-- lookup of a term among the keys of a substitution -/
def lookup (σ : List (Term × Term)) (t : Term) : Option Term :=
  (σ.find? (fun e => e.1 == t)).map (·.2)

mutual
  /-- one top-down pass of a substitution (`Substitutor`): a key is replaced by its target, other terms are rebuilt -/
  def subst (σ : List (Term × Term)) : Term → Term
    | .app o as => match lookup σ (.app o as) with
      | some s => s
      | none => .app o (substList σ as)
  def substList (σ : List (Term × Term)) : List Term → List Term
    | [] => []
    | t :: r => subst σ t :: substList σ r
end

mutual
  /-- the variable `(id, s)` occurs in the term -/
  def occurs (id : Nat) (s : Srt) : Term → Bool
    | .app o as => o == .var id s || occursList id s as
  def occursList (id : Nat) (s : Srt) : List Term → Bool
    | [] => false
    | t :: r => occurs id s t || occursList id s r
end

mutual
  /-- elimination of the variable `(id, s)` by its definition `tgt` -/
  def substVar (id : Nat) (s : Srt) (tgt : Term) : Term → Term
    | .app o as => if o = .var id s then tgt else .app o (substVarList id s tgt as)
  def substVarList (id : Nat) (s : Srt) (tgt : Term) : List Term → List Term
    | [] => []
    | t :: r => substVar id s tgt t :: substVarList id s tgt r
end

/-- updating the value of one variable -/
def setVar (I : Interp) (id : Nat) (s : Srt) (v : Val) : Interp :=
  { I with var := fun i s' => if i = id ∧ s' = s then v else I.var i s' }

/-- `DistinctRewriter`: all pairwise disequalities -/
def pairsNe : List Term → List Term
  | [] => []
  | a :: r => r.map (fun b => Term.app .not [Term.app .eq [a, b]]) ++ pairsNe r
def expandDistinct (args : List Term) : Term := .app .and (pairsNe args)

/-- `ArithmeticEqualityRewriter`: `a = b` on numbers as two inequalities -/
def splitEq (a b : Term) : Term := .app .and [.app .leq [a, b], .app .leq [b, a]]

/-- `IteHandler`: the definition of the auxiliary symbol `v` standing for `ite c a b` -/
def iteDef (v c a b : Term) : Term :=
  .app .and [.app .or [.app .not [c], .app .eq [v, a]], .app .or [c, .app .eq [v, b]]]

/-- `DivModRewriter`: the definition of the auxiliary symbols `q`, `r` standing for `div a d`, `mod a d` (constant `d ≠ 0`) -/
def divModDef (q r a : Term) (d : Int) : Term :=
  .app .and [.app .eq [a, .app .plus [.app .times [.app (.num d) [], q], r]],
             .app .leq [.app (.num 0) [], r],
             .app .leq [r, .app (.num ((d.natAbs : Int) - 1 : Int)) []]]
end Osmt.Rewrite

namespace Osmt.Rewrite
open Osmt
/-- max-arity flattening (`rewriteMaxArityClassic`): a conjunct that is itself a conjunction is replaced by its conjuncts
(the same for disjunctions) -/
def flattenArgs (o : Op) : List Term → List Term
  | [] => []
  | (.app o' as) :: r => if o' = o then as ++ flattenArgs o r else (.app o' as) :: flattenArgs o r

def flatten (o : Op) (args : List Term) : Term := .app o (flattenArgs o args)

/-- the fact learnt from two equality chains that meet at both ends (`learnEqTransitivity`): whichever chain holds, x = z -/
def diamondFact (x y1 y2 z : Term) : Term :=
  .app .or [.app .not [.app .or [.app .and [.app .eq [x, y1], .app .eq [y1, z]], .app .and [.app .eq [x, y2], .app .eq [y2, z]]]],
            .app .eq [x, z]]
end Osmt.Rewrite
