/-!
# The pseudo-random generator (mirror of `common/Random.h`)

`drand` keeps its state in a double that holds an integer in [1, m-1]: `seed := (seed * a) mod m` with m = 2^31 - 1 and
a = 1389796 (all intermediate values are below 2^53, so the double arithmetic is exact); the value returned is seed / m.
`irand seed size` is ⌊drand · size⌋.  Core Lean only.
-/
namespace Osmt.Rng

def m : Nat := 2147483647
def a : Nat := 1389796

def next (s : Nat) : Nat := (s * a) % m

/-- `irand`: the integer drawn, computed exactly as ⌊next s · size / m⌋ -/
def irand (s size : Nat) : Nat := (next s * size) / m

/-- the stream of states from a seed -/
def states (s : Nat) : Nat → List Nat
  | 0 => []
  | n + 1 => next s :: states (next s) n

end Osmt.Rng
