import Osmt.Front
/-! `front` mode: one abstract command per line → `ok` / `err`, and for `C` the ids of the active assertions. -/
namespace Driver
open Osmt.Front

def parseFront (l : String) : Option Cmd :=
  match l.trimAscii.toString.splitOn " " with
  | ["L"] => some .setLogic
  | ["INC", b] => some (.setIncremental (b == "1"))
  | ["D", n] => n.toNat?.map .declare
  | "A" :: id :: wf :: ns => id.toNat?.map (fun i => .assert i (wf == "1") (ns.filterMap String.toNat?))
  | ["PUSH", n] => n.toNat?.map .push
  | ["POP", n] => n.toNat?.map .pop
  | ["C"] => some .checkSat
  | ["Q"] => some .query
  | _ => none

def runFront (lines : List String) : List String := Id.run do
  let mut s : St := {}
  let mut out : List String := []
  for l in lines do
    match parseFront l with
    | none => out := "bad-line" :: out
    | some c =>
      let (s', r) := step s c
      s := s'
      let rs := if r == .ok then "ok" else "err"
      match c with
      | .checkSat => out := (rs ++ " " ++ " ".intercalate ((active s).map toString)) :: out
      | _ => out := rs :: out
  return out.reverse

end Driver
