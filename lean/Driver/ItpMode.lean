import Osmt.Itp
import Osmt.ItpPath
/-!
`itp` mode.  Lines:
  `ALG k`                      labelling system (0 McMillan, 1 Pudlák, 2 McMillan')
  `INA v..` / `INB v..`        variables that occur in A / in B
  `LEAF A|B l..`               a leaf clause of A / of B (signed literals, variable = |l|)
  `RES i j p`                  resolvent of nodes i and j on variable p (i holds p, j holds ¬p)
  `ROOT i`                     → `OK <formula>` when node i passes `structOk` and derives the empty clause, else `REJECT ...`
Formula syntax: tt | ff | v / -v | (and f g) | (or f g).
-/
namespace Driver
open Osmt.Itp

def litOf (s : String) : Option Lit :=
  match s.toInt? with
  | some i => if i = 0 then none else some ⟨i.natAbs, decide (i < 0)⟩
  | none => none

def showF : F → String
  | .tt => "tt" | .ff => "ff"
  | .lit l => (if l.neg then "-" else "") ++ toString l.var
  | .and x y => "(and " ++ showF x ++ " " ++ showF y ++ ")"
  | .or x y => "(or " ++ showF x ++ " " ++ showF y ++ ")"

def runItp (lines : List String) : List String := Id.run do
  let mut alg := 0
  let mut inA : List Nat := []
  let mut inB : List Nat := []
  let mut nodes : Array Node := #[]
  let mut out : List String := []
  for l in lines do
    match l.trimAscii.toString.splitOn " " with
    | ["ALG", k] => alg := k.toNat?.getD 0
    | "INA" :: vs => inA := vs.filterMap String.toNat?
    | "INB" :: vs => inB := vs.filterMap String.toNat?
    | "LEAF" :: side :: ls =>
      let c := ls.filterMap litOf
      let ia := inA; let ib := inB; let ag := alg
      -- labels belong to occurrences: a variable that does not occur in the leaf has no label there
      let vsOf := c.map (·.var)
      let lab := fun v => if vsOf.contains v then systemLabel ag (fun v => ia.contains v) (fun v => ib.contains v) v
                          else ⟨false, false⟩
      nodes := nodes.push (if side == "A" then .leafA c lab else .leafB c lab)
    | ["RES", i, j, p] =>
      match i.toNat?.bind (nodes[·]?), j.toNat?.bind (nodes[·]?), p.toNat? with
      | some a, some b, some v => nodes := nodes.push (.res a b v)
      | _, _, _ => out := "REJECT bad RES line" :: out
    | ["ROOT", i] =>
      match i.toNat?.bind (nodes[·]?) with
      | some n =>
        if !n.structOk then out := "REJECT structure (labels or pivots)" :: out
        else if !n.clause.isEmpty then out := s!"REJECT root clause not empty ({n.clause.length} literals)" :: out
        else out := ("OK " ++ showF n.itp) :: out
      | none => out := "REJECT no such node" :: out
    | _ => pure ()
  return out.reverse

/-- `itp2` mode (sequence interpolants, two consecutive cuts of one refutation).  Lines:
  `ALG k`, `MID m`           labelling system; index of the middle group (groups < m are A₁, groups > m are B₂)
  `GRP g v..`                variables that occur in group g
  `LEAF g l..`               a leaf clause of group g
  `RES i j p`, `ROOT i`      → `OK <I₁> | <I₂>` when the doubly labelled refutation passes `labelsOK` and `structOk` and derives the
                             empty clause, else `REJECT ...` -/
def runItp2 (lines : List String) : List String := Id.run do
  let mut alg := 0
  let mut mid := 0
  let mut grps : List (Nat × List Nat) := []
  let mut nodes : Array Node2 := #[]
  let mut out : List String := []
  for l in lines do
    match l.trimAscii.toString.splitOn " " with
    | ["ALG", k] => alg := k.toNat?.getD 0
    | ["MID", k] => mid := k.toNat?.getD 0
    | "GRP" :: g :: vs => grps := (g.toNat?.getD 0, vs.filterMap String.toNat?) :: grps
    | "LEAF" :: g :: ls =>
      let c := ls.filterMap litOf
      let gi := g.toNat?.getD 0
      let gs := grps; let ag := alg; let m := mid
      let occ := fun (pred : Nat → Bool) (v : Nat) => gs.any (fun e => pred e.1 && e.2.contains v)
      let labs : Labs := (c.map (·.var)).eraseDups.map (fun v =>
        (v, systemLabel ag (occ (· < m)) (occ (· ≥ m)) v, systemLabel ag (occ (· ≤ m)) (occ (· > m)) v))
      let o : Origin := if gi < m then .first else if gi == m then .middle else .last
      nodes := nodes.push (.leaf c o labs)
    | ["RES", i, j, p] =>
      match i.toNat?.bind (nodes[·]?), j.toNat?.bind (nodes[·]?), p.toNat? with
      | some a, some b, some v => nodes := nodes.push (.res a b v)
      | _, _, _ => out := "REJECT bad RES line" :: out
    | ["ROOT", i] =>
      match i.toNat?.bind (nodes[·]?) with
      | some n =>
        if !n.labelsOK then out := "REJECT labels of the two cuts do not fit" :: out
        else if !n.proj1.structOk then out := "REJECT structure (labels or pivots)" :: out
        else if !n.proj1.clause.isEmpty then out := s!"REJECT root clause not empty ({n.proj1.clause.length} literals)" :: out
        else out := ("OK " ++ showF n.proj1.itp ++ " | " ++ showF n.proj2.itp) :: out
      | none => out := "REJECT no such node" :: out
    | _ => pure ()
  return out.reverse

end Driver
