import Driver.Parse
/-! `smt` mode: replay one SAT-engine trace segment through the abstract machine. -/
namespace Driver
open Osmt Osmt.Cdcl

structure SmtState where
  terms : Terms := #[]
  vm : Array (Option Term) := #[]
  st : Cdcl.State := {}
  roots : List Term := []
  trust : Bool := false
  nInput : Nat := 0
  nTheory : Nat := 0
  nLearn : Nat := 0
  nAnswer : Nat := 0
  rupLits : Nat := 0

def SmtState.varMap (s : SmtState) : VarMap := fun v => (s.vm[v]?).join

/-- the proved machine's state corresponding to the driver state -/
def SmtState.toSmt (s : SmtState) : Smt.State :=
  { vm := s.varMap, trustTheory := s.trust, roots := s.roots, core := s.st }

def SmtState.stepSmt (s : SmtState) (e : Smt.Event) : Option SmtState :=
  (Smt.step? s.toSmt e).map (fun k => { s with st := k.core, roots := k.roots })

/-- certificate tokens: `F n w1..wn` | `S <lo> <hi>` -/
partial def parseLACert : List String → Option (LA.Cert × List String)
  | "F" :: n :: rest =>
    match n.toNat? with
    | none => none
    | some k =>
      let ws := (rest.take k).filterMap parseRat
      if ws.length = k then some (.farkas ws, rest.drop k) else none
  | "S" :: rest =>
    match parseLACert rest with
    | none => none
    | some (lo, r1) =>
      match parseLACert r1 with
      | none => none
      | some (hi, r2) => some (.split lo hi, r2)
  | _ => none

/-- EUF steps: `H i` | `R t` | `Y j` | `X j k` | `C a b n j1..jn`, then `G goal` -/
def parseEUFSteps (tt : Terms) : Nat → List String → List EUF.Step → Option (List EUF.Step × List String)
  | 0, toks, acc => some (acc.reverse, toks)
  | n+1, toks, acc =>
    let tm (s : String) : Option Term := s.toNat?.bind (fun i => tt[i]?)
    match toks with
    | "H" :: i :: r => i.toNat?.bind (fun i => parseEUFSteps tt n r (.hyp i :: acc))
    | "R" :: t :: r => (tm t).bind (fun t => parseEUFSteps tt n r (.refl t :: acc))
    | "Y" :: j :: r => j.toNat?.bind (fun j => parseEUFSteps tt n r (.symm j :: acc))
    | "N" :: j :: r => j.toNat?.bind (fun j => parseEUFSteps tt n r (.bnot j :: acc))
    | "E" :: j :: r => j.toNat?.bind (fun j => parseEUFSteps tt n r (.eqT j :: acc))
    | "X" :: j :: k :: r => match j.toNat?, k.toNat? with
      | some j, some k => parseEUFSteps tt n r (.trans j k :: acc)
      | _, _ => none
    | "C" :: a :: b :: k :: r => match tm a, tm b, k.toNat? with
      | some a, some b, some k =>
        let js := (r.take k).filterMap String.toNat?
        if js.length = k then parseEUFSteps tt n (r.drop k) (.congr a b js :: acc) else none
      | _, _, _ => none
    | _ => none

def parseCert (tt : Terms) (certToks : List String) : Except String Smt.ThCert :=
  match certToks with
  | "LA" :: toks =>
    match parseLACert toks with
    | some (cert, _) => .ok (.la cert)
    | none => .error "bad LA certificate"
  | "EUF" :: n :: toks =>
    match n.toNat? with
    | none => .error "bad EUF certificate"
    | some n =>
      match parseEUFSteps tt n toks [] with
      | some (steps, ["G", g]) => .ok (.euf steps (g.toNat?.getD 0))
      | _ => .error "bad EUF certificate"
  | "NONE" :: _ => .ok .trusted
  | [] => .ok .trusted
  | k :: _ => .error s!"unknown certificate kind {k}"

def smtLine (s : SmtState) (lineNo : Nat) (line : String) : Except String SmtState := do
  match words line with
  | [] => pure s
  | "T" :: rest => do
    let tt ← addTerm s.terms rest
    pure { s with terms := tt }
  | ["V", v, t] =>
    match v.toNat?, t.toNat? with
    | some v, some t =>
      if t ≥ s.terms.size then throw s!"line {lineNo}: V refers to unknown term" else
      let vm := if v ≥ s.vm.size then s.vm ++ Array.replicate (v + 1 - s.vm.size) none else s.vm
      pure { s with vm := vm.set! v (some s.terms[t]!) }
    | _, _ => throw s!"line {lineNo}: bad V"
  | ["O", "trust-theory"] => pure { s with trust := true }
  | ["F", f] => pure { s with st := { s.st with fuel := f.toNat?.getD 0 } }
  | "I" :: root :: frame :: lits =>
    let c := parseLits lits
    match root.toNat? with
    | none => throw s!"line {lineNo}: bad I"
    | some r =>
      if r ≥ s.terms.size then throw s!"line {lineNo}: I unknown root" else
      let rootT := s.terms[r]!
      let eff : Term := match frame.toNat? with
        | some f => if f < s.terms.size then .app .or [rootT, s.terms[f]!] else rootT
        | none => rootT
      match s.stepSmt (.input eff c) with
      | some s' => pure { s' with nInput := s.nInput + 1 }
      | none => throw s!"line {lineNo}: REJECT input-clause-not-entailed-by-root"
  | "TH" :: kind :: rest =>
    let lits := rest.takeWhile (· ≠ "0")
    let certToks := (rest.dropWhile (· ≠ "0")).drop 1
    let c := parseLits lits
    match parseCert s.terms certToks with
    | .error e => throw s!"line {lineNo}: REJECT theory-clause-not-certified kind={kind} {e}"
    | .ok cert =>
      match s.stepSmt (.theory c cert) with
      | some s' => pure { s' with nTheory := s.nTheory + 1 }
      | none => throw s!"line {lineNo}: REJECT theory-clause-not-certified kind={kind} cert={certToks.head?.getD "none"}"
  | "L" :: lits =>
    let c := parseLits lits
    match s.stepSmt (.learn c) with
    | some s' => pure { s' with nLearn := s.nLearn + 1, rupLits := s.rupLits + c.length }
    | none => throw s!"line {lineNo}: REJECT learnt-clause-not-RUP"
  | "A" :: "sat" :: lits =>
    match s.stepSmt (.answer (.sat (parseLits lits))) with
    | some s' => pure { s' with nAnswer := s.nAnswer + 1 }
    | none => throw s!"line {lineNo}: REJECT sat-model-rejected (falsifies an input clause or leaves a root formula undetermined/false)"
  | "A" :: "unsat" :: lits =>
    match s.stepSmt (.answer (.unsat (parseLits lits))) with
    | some s' => pure { s' with nAnswer := s.nAnswer + 1 }
    | none => throw s!"line {lineNo}: REJECT unsat-not-confirmed-by-propagation"
  | "A" :: "unknown" :: _ => pure { s with nAnswer := s.nAnswer + 1 }
  | w :: _ => throw s!"line {lineNo}: unknown record {w}"

def runSmt (lines : List String) : String := Id.run do
  let mut s : SmtState := {}
  let mut n := 0
  for l in lines do
    n := n + 1
    match smtLine s n l with
    | .ok s' => s := s'
    | .error e => return s!"FAIL {e}"
  return s!"OK inputs={s.nInput} theory={s.nTheory} learnt={s.nLearn} answers={s.nAnswer} rupLits={s.rupLits}"

end Driver
