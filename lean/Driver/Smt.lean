import Driver.Parse
/-! `smt` mode: replay one SAT-engine trace segment through the abstract machine. -/
namespace Driver
open Osmt Osmt.Cdcl

structure SmtState where
  terms : Terms := #[]
  vm : Array (Option Term) := #[]
  st : Cdcl.State := {}
  nInput : Nat := 0
  nTheory : Nat := 0
  nLearn : Nat := 0
  nAnswer : Nat := 0
  rupLits : Nat := 0

def SmtState.varMap (s : SmtState) : VarMap := fun v => (s.vm[v]?).join

/-- certificate tokens: `F n w1..wn` | `S <lo> <hi>` -/
partial def parseLACert : List String → Option (LA.Cert × List String)
  | "F" :: n :: rest =>
    match n.toNat? with
    | none => none
    | some k =>
      let ws := (rest.take k).filterMap parseRat
      if ws.length = k then some (.farkas ws, rest.drop k) else none
  | "S" :: rest =>
    match parseLACert rest with
    | none => none
    | some (lo, r1) =>
      match parseLACert r1 with
      | none => none
      | some (hi, r2) => some (.split lo hi, r2)
  | _ => none

def clauseTerms (vm : VarMap) (c : Clause) : Option (List (Term × Bool)) :=
  c.mapM (fun l => (vm l.var).map (fun t => (t, l.neg)))

def theoryOk (vm : VarMap) (c : Clause) (certToks : List String) : Except String Unit :=
  match clauseTerms vm c with
  | none => .error "literal without term"
  | some lits =>
    match certToks with
    | "LA" :: toks =>
      match parseLACert toks with
      | some (cert, _) => if LA.laClauseCheck lits cert then .ok () else .error "LA certificate rejected"
      | none => .error "bad LA certificate"
    | "NONE" :: _ => .error "no certificate produced"
    | [] => .error "no certificate"
    | k :: _ => .error s!"unknown certificate kind {k}"

def smtLine (s : SmtState) (lineNo : Nat) (line : String) : Except String SmtState := do
  match words line with
  | [] => pure s
  | "T" :: rest => do
    let tt ← addTerm s.terms rest
    pure { s with terms := tt }
  | ["V", v, t] =>
    match v.toNat?, t.toNat? with
    | some v, some t =>
      if t ≥ s.terms.size then throw s!"line {lineNo}: V refers to unknown term" else
      let vm := if v ≥ s.vm.size then s.vm ++ Array.replicate (v + 1 - s.vm.size) none else s.vm
      pure { s with vm := vm.set! v (some s.terms[t]!) }
    | _, _ => throw s!"line {lineNo}: bad V"
  | ["F", f] => pure { s with st := { s.st with fuel := f.toNat?.getD 0 } }
  | "I" :: root :: frame :: lits =>
    let c := parseLits lits
    match root.toNat? with
    | none => throw s!"line {lineNo}: bad I"
    | some r =>
      if r ≥ s.terms.size then throw s!"line {lineNo}: I unknown root" else
      let rootT := s.terms[r]!
      let eff : Term := match frame.toNat? with
        | some f => if f < s.terms.size then .app .or [rootT, s.terms[f]!] else rootT
        | none => rootT
      if inputOk s.varMap eff c then
        match step? s.st (.axiom_ c) with
        | some st => pure { s with st := st, nInput := s.nInput + 1 }
        | none => throw s!"line {lineNo}: REJECT input"
      else throw s!"line {lineNo}: REJECT input-clause-not-entailed-by-root"
  | "TH" :: kind :: rest =>
    let lits := rest.takeWhile (· ≠ "0")
    let certToks := (rest.dropWhile (· ≠ "0")).drop 1
    let c := parseLits lits
    match theoryOk s.varMap c certToks with
    | .error e => throw s!"line {lineNo}: REJECT theory-clause-not-certified kind={kind} {e}"
    | .ok () =>
      match step? s.st (.axiom_ c) with
      | some st => pure { s with st := st, nTheory := s.nTheory + 1 }
      | none => throw s!"line {lineNo}: REJECT theory"
  | "L" :: lits =>
    let c := parseLits lits
    match step? s.st (.learn c) with
    | some st => pure { s with st := st, nLearn := s.nLearn + 1, rupLits := s.rupLits + c.length }
    | none => throw s!"line {lineNo}: REJECT learnt-clause-not-RUP"
  | "A" :: "sat" :: lits =>
    match step? s.st (.answer (.sat (parseLits lits))) with
    | some st => pure { s with st := st, nAnswer := s.nAnswer + 1 }
    | none => throw s!"line {lineNo}: REJECT sat-model-falsifies-input-clause"
  | "A" :: "unsat" :: lits =>
    match step? s.st (.answer (.unsat (parseLits lits))) with
    | some st => pure { s with st := st, nAnswer := s.nAnswer + 1 }
    | none => throw s!"line {lineNo}: REJECT unsat-not-confirmed-by-propagation"
  | "A" :: "unknown" :: _ => pure { s with nAnswer := s.nAnswer + 1 }
  | w :: _ => throw s!"line {lineNo}: unknown record {w}"

def runSmt (lines : List String) : String := Id.run do
  let mut s : SmtState := {}
  let mut n := 0
  for l in lines do
    n := n + 1
    match smtLine s n l with
    | .ok s' => s := s'
    | .error e => return s!"FAIL {e}"
  return s!"OK inputs={s.nInput} theory={s.nTheory} learnt={s.nLearn} answers={s.nAnswer} rupLits={s.rupLits}"

end Driver
