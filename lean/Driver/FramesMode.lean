import Osmt.Frames
/-! `frames` mode: push / pop / assert / check lines → the assumption vector `solve_` must build at each check. -/
namespace Driver
open Osmt.Frames

def runFrames (lines : List String) : List String := Id.run do
  let mut s : St Nat := init
  let mut out : List String := []
  let mut k := 0
  for l in lines do
    match l.trimAscii.toString with
    | "push" => s := step s .push
    | "pop" => s := step s .pop
    | "assert" => s := step s (.assert k); k := k + 1
    | "check" =>
      let a := (assumptions s).map (fun p => s!"{p.1}{if p.2 then "+" else "-"}")
      out := (" ".intercalate ("A" :: a) ++ s!" | active {(active s).length}") :: out
    | _ => pure ()
  return out.reverse

end Driver
