import Osmt.Rng
/-! `rng` mode: `<seed> <size> <n>` per line → n pairs `state:irand` -/
namespace Driver
open Osmt.Rng

def runRng (lines : List String) : List String :=
  lines.filterMap fun l =>
    match (l.trimAscii.toString.splitOn " ").filterMap String.toNat? with
    | [s, size, n] => Id.run do
      let mut st := s
      let mut out : List String := []
      for _ in [0:n] do
        let i := irand st size
        st := next st
        out := s!"{st}:{i}" :: out
      return some (" ".intercalate out.reverse)
    | _ => none

end Driver
