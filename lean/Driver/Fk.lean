import Driver.Parse
/-! `fk` mode: LA conflicts with the solver's own Farkas coefficients (C26).
Input: `T` lines, then `K (termId sign coeff)*`; one verdict line per `K`. -/
namespace Driver
open Osmt

def parseTriples (tt : Terms) : List String → Option (List (Term × Bool) × List Rat)
  | [] => some ([], [])
  | t :: sgn :: c :: r =>
    match t.toNat?.bind (fun i => tt[i]?), parseRat c, parseTriples tt r with
    | some tm, some q, some (ls, ws) => some ((tm, sgn == "0") :: ls, q :: ws)
    | _, _, _ => none
  | _ => none

def runFk (lines : List String) : List String := Id.run do
  let mut tt : Terms := #[]
  let mut out : List String := []
  for l in lines do
    match words l with
    | "T" :: rest =>
      match addTerm tt rest with
      | .ok t => tt := t
      | .error e => out := s!"ERR {e}" :: out
    | "K" :: rest =>
      match parseTriples tt rest with
      | some (lits, ws) => out := (if LA.conflictCheck lits ws then "OK" else "REJECT") :: out
      | none => out := "ERR parse" :: out
    | _ => pure ()
  return out.reverse

end Driver
