import Osmt.Store
/-! `store` mode: `leaf k` | `app f i..` | `pred i` | `eq i j` | `and i..` | `or i..`, and for the arithmetic harness `ivar k` | `bvar k` |
`scale c i` | `plus i..` | `xor i j` (arguments are line numbers) → the model's identity of each result -/
namespace Driver
open Osmt.Store

def symOf (op f : String) (arity : Nat) : Nat :=
  -- a number per (operator, name, arity); commutative symbols are those ≥ 1000000
  match op with
  | "leaf" => 10 + f.toNat!
  | "ivar" => 2000 + f.toNat!
  | "bvar" => 3000 + f.toNat!
  | "scale" => 4000 + (f.toList.foldl (fun a c => (a * 31 + c.toNat) % 997) 7)
  | "plus" => 1000004
  | "xor" => 1000005
  | "pred" => 5
  | "eq" => 1000001
  | "and" => 1000002
  | "or" => 1000003
  | _ => 10000 + 100 * (f.toList.foldl (fun a c => (a * 31 + c.toNat) % 9973) 7) + arity

def runStore (lines : List String) : List String := Id.run do
  let comm (s : Nat) : Bool := s ≥ 1000000
  let mut st : Store := [⟨0, []⟩]        -- identity 0: the constant true
  let mut res : Array Nat := #[]
  let mut out : List String := []
  for l in lines do
    let toks := l.trimAscii.toString.splitOn " "
    match toks with
    | [] => pure ()
    | [""] => pure ()
    | op :: rest =>
      let (f, argToks) := if op == "app" || op == "scale" then (rest.headD "", rest.drop 1)
                          else if op == "leaf" || op == "ivar" || op == "bvar" then (rest.headD "0", []) else ("", rest)
      let args := argToks.filterMap (fun t => t.toNat?.bind (fun i => res[i]?))
      if op == "eq" && args.length == 2 && args[0]! == args[1]! then
        res := res.push 0
        out := "0 old" :: out
      else
        let n : Node := ⟨symOf op f args.length, args⟩
        let (st', i) := mk comm st n
        let fresh := st'.length != st.length
        st := st'
        res := res.push i
        out := s!"{i} {if fresh then "new" else "old"}" :: out
  return out.reverse

end Driver
