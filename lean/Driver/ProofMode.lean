import Osmt.Proof
import Driver.Parse
/-! `proof` mode: `T` lines; `LEAF (termId sign)*`; `CHAIN first (idx pivotTermId)*`; `ROOT idx` → verdict line.
Steps are numbered in order of appearance from 0. -/
namespace Driver
open Osmt Osmt.Proof

def parseTLits (tt : Terms) : List String → Option TClause
  | [] => some []
  | t :: s :: r => match t.toNat?.bind (fun i => tt[i]?), parseTLits tt r with
    | some tm, some c => some ((tm, s == "1") :: c)
    | _, _ => none
  | _ => none

def parseChain (tt : Terms) : List String → Option (List (Nat × Term))
  | [] => some []
  | i :: p :: r => match i.toNat?, p.toNat?.bind (fun j => tt[j]?), parseChain tt r with
    | some i, some pt, some c => some ((i, pt) :: c)
    | _, _, _ => none
  | _ => none

def runProof (lines : List String) : List String := Id.run do
  let mut tt : Terms := #[]
  let mut steps : Array Step := #[]
  let mut out : List String := []
  for l in lines do
    match words l with
    | "T" :: rest =>
      match addTerm tt rest with
      | .ok t => tt := t
      | .error e => out := s!"ERR {e}" :: out
    | "LEAF" :: rest =>
      match parseTLits tt rest with
      | some c => steps := steps.push (.leaf c)
      | none => out := "ERR leaf" :: out
    | "CHAIN" :: first :: rest =>
      match first.toNat?, parseChain tt rest with
      | some f, some c => steps := steps.push (.chain f c)
      | _, _ => out := "ERR chain" :: out
    | ["ROOT", r] =>
      let root := r.toNat?.getD 0
      -- locate the first step that fails, for the replay
      let verdict :=
        if checkRefutation steps.toList root then "OK"
        else match runSteps steps.toList #[] with
          | some cls => match cls[root]? with
            | some c => if c.isEmpty then "OK" else s!"REJECT root clause not empty ({c.length} literals)"
            | none => "REJECT root unbound"
          | none =>
            let rec firstBad (ss : List Step) (cls : Array TClause) (k : Nat) : String :=
              match ss with
              | [] => "REJECT ?"
              | s :: r => match stepClause cls s with
                | some c => firstBad r (cls.push c) (k + 1)
                | none => s!"REJECT step {k}: unbound clause name or pivot without opposite signs"
            firstBad steps.toList #[] 0
      out := verdict :: out
      steps := #[]
    | _ => pure ()
  return out.reverse

end Driver
