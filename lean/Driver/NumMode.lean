import Osmt.Num
import Driver.Parse
/-! `num` mode: one percent-encoded string per line → `<isIntString> <isRealString> <value | throw>`. -/
namespace Driver
open Osmt.Num

def hexVal (c : Char) : Nat :=
  if '0' ≤ c && c ≤ '9' then c.toNat - '0'.toNat
  else if 'A' ≤ c && c ≤ 'F' then c.toNat - 'A'.toNat + 10
  else if 'a' ≤ c && c ≤ 'f' then c.toNat - 'a'.toNat + 10 else 0

def pctDecode : List Char → List Char
  | '%' :: a :: b :: r => Char.ofNat (hexVal a * 16 + hexVal b) :: pctDecode r
  | c :: r => c :: pctDecode r
  | [] => []

def numLine (line : String) : String :=
  let raw := line.toList
  let s := if raw = ['%'] then [] else pctDecode raw
  let v := match s2r s with
    | none => "throw"
    | some q => if q.den = 1 then s!"{q.num}" else s!"{q.num}/{q.den}"
  s!"{if isIntString s then 1 else 0} {if isRealString s then 1 else 0} {v}"

end Driver
