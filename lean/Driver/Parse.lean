import Osmt
/-! Line-protocol parsing shared by the driver modes (untrusted glue, outside the proved libraries). -/
namespace Driver
open Osmt

def parseSrt (s : String) : Srt :=
  if s == "B" then .bool else if s == "I" then .int else if s == "R" then .real
  else .u ((s.drop 1).toString.toNat?.getD 0)

def parseRat (s : String) : Option Rat :=
  match s.splitOn "/" with
  | [n] => n.toInt?.map (fun i => (i : Rat))
  | [n, d] => match n.toInt?, d.toNat? with
    | some i, some k => if k = 0 then none else some (mkRat i k)
    | _, _ => none
  | _ => none

def parseOp (s : String) : Option Op :=
  match s.splitOn ":" with
  | ["tru"] => some .tru | ["fls"] => some .fls | ["not"] => some .not | ["and"] => some .and
  | ["or"] => some .or | ["xor"] => some .xor | ["imp"] => some .imp | ["eq"] => some .eq
  | ["ite"] => some .ite | ["distinct"] => some .distinct
  | ["plus"] => some .plus | ["times"] => some .times | ["minus"] => some .minus
  | ["rdiv"] => some .rdiv | ["idiv"] => some .idiv | ["imod"] => some .imod
  | ["leq"] => some .leq | ["lt"] => some .lt | ["geq"] => some .geq | ["gt"] => some .gt
  | ["var", i, srt] => i.toNat?.map (fun k => .var k (parseSrt srt))
  | ["uf", i, srt] => i.toNat?.map (fun k => .uf k (parseSrt srt))
  | ["num", q] => (parseRat q).map .num
  | _ => none

def parseLits (ws : List String) : Clause :=
  (ws.filterMap String.toInt?).filter (· ≠ 0) |>.map Lit.ofInt

def words (line : String) : List String :=
  (line.trimAscii.toString.splitOn " ").filter (· ≠ "")

/-- term table under construction: dense ids -/
abbrev Terms := Array Term

def addTerm (tt : Terms) (ws : List String) : Except String Terms :=
  match ws with
  | _id :: op :: args =>
    match parseOp op with
    | none => .error s!"bad op {op}"
    | some o =>
      let as := args.filterMap String.toNat?
      if as.any (· ≥ tt.size) then .error "forward reference" else
      .ok (tt.push (.app o (as.map (fun i => tt[i]!))))
  | _ => .error "bad term line"

end Driver
