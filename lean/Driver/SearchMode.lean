import Osmt.Search
/-!
`search` mode: replays the trail events of one `check-sat` on the trail machine.  Lines:
  `N n`            number of SAT variables (restarts the machine with the empty trail)
  `D v` / `P v`    decision / propagated literal on variable v
  `B k v`          backjump: keep k assignments, then v propagated
  `J k v`          the same cut and propagation caused by a new theory lemma (no conflict)
  `R k c lim`      restart keeping k assignments; the solver reports c conflicts in this period and the limit lim
  `T k`            truncation that is not part of the search (end of a call, clean-up between calls): keep k assignments
  `END`            → `OK steps=.. backjumps=.. restarts=..` or `REJECT line <i>: <reason>`
-/
namespace Driver
open Osmt.Search

def runSearch (lines : List String) : List String := Id.run do
  let mut n := 0
  let mut s : St := init
  let mut steps := 0
  let mut bjs := 0
  let mut restarts := 0
  let mut bad : Option String := none
  let mut out : List String := []
  let mut ln := 0
  for l in lines do
    ln := ln + 1
    if bad.isSome then
      match l.trimAscii.toString.splitOn " " with
      | ["END"] => out := s!"REJECT {bad.getD ""}" :: out; bad := none; s := init; steps := 0; bjs := 0; restarts := 0
      | _ => pure ()
    else
    match l.trimAscii.toString.splitOn " " with
    | ["N", k] => n := k.toNat?.getD 0; s := init; steps := 0; bjs := 0; restarts := 0
    | ["D", v] =>
      match v.toNat?.bind (fun v => step? n (fun _ => 0) s (.decide v)) with
      | some s' => s := s'; steps := steps + 1
      | none => bad := some s!"line {ln}: decision on {v} is not a legal step (trail length {s.t.length}, {n} variables)"
    | ["P", v] =>
      match v.toNat?.bind (fun v => step? n (fun _ => 0) s (.propagate v)) with
      | some s' => s := s'; steps := steps + 1
      | none => bad := some s!"line {ln}: propagation of {v} is not a legal step (trail length {s.t.length}, {n} variables)"
    | ["B", k, v] =>
      match k.toNat?, v.toNat? with
      | some k, some v =>
        match step? n (fun _ => 0) s (.backjump k v) with
        | some s' => s := s'; steps := steps + 1; bjs := bjs + 1
        | none => bad := some s!"line {ln}: backjump to {k} with {v} is not a legal step (trail length {s.t.length})"
      | _, _ => bad := some s!"line {ln}: bad B line"
    | ["J", k, v] =>
      match k.toNat?, v.toNat? with
      | some k, some v =>
        match step? n (fun _ => 0) s (.tjump k v) with
        | some s' => s := s'; steps := steps + 1
        | none => bad := some s!"line {ln}: cut to {k} and propagation of {v} by a theory lemma is not a legal step (trail length {s.t.length})"
      | _, _ => bad := some s!"line {ln}: bad J line"
    | ["R", k, c, lim] =>
      match k.toNat?, c.toNat?, lim.toNat? with
      | some k, some c, some lim =>
        if c != s.c then bad := some s!"line {ln}: the solver counts {c} conflicts in this period, the machine {s.c}"
        else match step? n (fun _ => lim) s (.restart k) with
          | some s' => s := s'; steps := steps + 1; restarts := restarts + 1
          | none => bad := some s!"line {ln}: restart after {s.c} conflicts with limit {lim} is not a legal step"
      | _, _, _ => bad := some s!"line {ln}: bad R line"
    | ["T", k] =>
      match k.toNat? with
      | some k => if k ≤ s.t.length then s := { s with t := s.t.take k } else bad := some s!"line {ln}: truncation beyond the trail"
      | none => bad := some s!"line {ln}: bad T line"
    | ["END"] => out := s!"OK steps={steps} backjumps={bjs} restarts={restarts} trail={s.t.length}" :: out
    | _ => pure ()
  return out.reverse

end Driver
