import Driver.Parse
/-! `model` mode: evaluate terms under a printed model (C02 / C03 and every check that needs the evaluator). -/
namespace Driver
open Osmt

def showVal : Val → String
  | .b x => s!"b:{x}"
  | .n q => if q.den = 1 then s!"n:{q.num}" else s!"n:{q.num}/{q.den}"
  | .u k => s!"u:{k}"

def parseParams : Nat → List String → Option (List (Nat × Srt) × List String)
  | 0, r => some ([], r)
  | n+1, i :: s :: r => match i.toNat?, parseParams n r with
    | some i, some (ps, r') => some ((i, parseSrt s) :: ps, r')
    | _, _ => none
  | _, _ => none

def runModel (lines : List String) : List String := Id.run do
  let mut tt : Terms := #[]
  let mut m : Model := { abs := [], defs := [] }
  let mut out : List String := []
  for l in lines do
    match words l with
    | "T" :: rest =>
      match addTerm tt rest with
      | .ok t => tt := t
      | .error e => out := s!"ERR {e}" :: out
    | ["ABS", i, s, k] =>
      match i.toNat?, k.toNat? with
      | some i, some k => m := { m with abs := (i, parseSrt s, k) :: m.abs }
      | _, _ => out := "ERR abs" :: out
    | "DEF" :: i :: s :: n :: rest =>
      match i.toNat?, n.toNat? with
      | some i, some n =>
        match parseParams n rest with
        | some (ps, [b]) =>
          match b.toNat?.bind (fun j => tt[j]?) with
          | some body => m := { m with defs := m.defs ++ [{ id := i, srt := parseSrt s, params := ps, body := body }] }
          | none => out := "ERR def body" :: out
        | _ => out := "ERR def params" :: out
      | _, _ => out := "ERR def" :: out
    | ["E", t] =>
      match t.toNat?.bind (fun j => tt[j]?) with
      | some tm => out := showVal (eval m.interp tm) :: out
      | none => out := "ERR term" :: out
    | ["RESET"] => m := { abs := [], defs := [] }
    | ["W"] => out := (if m.constsWellSorted then "wf" else "ill-sorted") :: out
    | _ => pure ()
  return out.reverse

end Driver
