import Osmt.Mk
import Driver.Parse
/-! `mk` mode: `B id` prints the canonical text of the mirror's construction of term `id`, `C id` the canonical
text of the term itself. -/
namespace Driver
open Osmt

def runMk (lines : List String) : List String := Id.run do
  let mut tt : Terms := #[]
  let mut out : List String := []
  for l in lines do
    match words l with
    | "T" :: rest =>
      match addTerm tt rest with
      | .ok t => tt := t
      | .error e => out := s!"ERR {e}" :: out
    | ["B", t] =>
      match t.toNat?.bind (fun j => tt[j]?) with
      | some tm => out := Mk.canon (Mk.buildB tm) :: out
      | none => out := "ERR term" :: out
    | ["C", t] =>
      match t.toNat?.bind (fun j => tt[j]?) with
      | some tm => out := Mk.canon tm :: out
      | none => out := "ERR term" :: out
    | _ => pure ()
  return out.reverse

end Driver
