import Osmt.Rat
import Driver.Parse
/-! `rat` mode: `<op> <A> [<B>]` per line, operands `n/d` or `c:X:Y` (= (X + Y) - Y through the model). -/
namespace Driver
open Osmt.FR

partial def parseOperand (s : String) : Option FR :=
  if s.startsWith "c:" then
    match (s.drop 2).toString.splitOn ":" with
    | [x, y] => match parseRat x, parseRat y with
      | some qx, some qy => some (sub (add (ofRat qx) (ofRat qy)) (ofRat qy))
      | _, _ => none
    | _ => none
  else (parseRat s).map ofRat

def showFR : FR → String
  | .word n d => s!"{n}/{d} w {hashWord n d}"
  | .big n d => s!"{n}/{d} b -"

def ratLine (line : String) : String :=
  match words line with
  | [op, a, b] =>
    match parseOperand a, parseOperand b with
    | some x, some y =>
      match op with
      | "add" => showFR (add x y)
      | "sub" => showFR (sub x y)
      | "mul" => showFR (mul x y)
      | "div" => showFR (div x y)
      | "cmp" => toString (compare x y)
      | "eq" => if beq x y then "1" else "0"
      | "fdiv" => showFR (fdivq x y)
      | _ => "bad-op"
    | _, _ => "bad-operand"
  | [op, a] =>
    match parseOperand a with
    | some x =>
      match op with
      | "neg" => showFR (neg x)
      | "inv" => showFR (inv x)
      | "sign" => toString (sign x)
      | "isint" => if isInteger x then "1" else "0"
      | "ceil" => showFR (ceil x)
      | "floor" => showFR (floor x)
      | "id" => showFR x
      | _ => "bad-op"
    | none => "bad-operand"
  | [] => ""
  | _ => "bad-line"

end Driver
