import Osmt.Quote
/-! `quote` mode: one name per line as space-separated byte values → the printed form, same encoding -/
namespace Driver
open Osmt.Quote

def runQuote (lines : List String) : List String :=
  lines.filterMap fun l =>
    let t := l.trimAscii.toString
    if t.isEmpty then none else
    let cs := (t.splitOn " ").filterMap (fun w => w.toNat?.map Char.ofNat)
    some (" ".intercalate ((protect cs).map (fun c => toString c.toNat)))

end Driver
