import Osmt.IntRound
import Driver.Parse
/-! `int` mode: `fdiv a d`, `fmod a d`, `bleq c`, `blt c`, `bnleq c`, `bnlt c`, `negdl c`. -/
namespace Driver
open Osmt.IntRound

def intLine (line : String) : String :=
  match words line with
  | ["fdiv", a, d] => match a.toInt?, d.toInt? with
    | some a, some d => toString (foldDiv a d)
    | _, _ => "bad"
  | ["fmod", a, d] => match a.toInt?, d.toInt? with
    | some a, some d => toString (foldMod a d)
    | _, _ => "bad"
  | ["bleq", c] => (parseRat c).elim "bad" (fun q => toString (boundLeq q))
  | ["blt", c] => (parseRat c).elim "bad" (fun q => toString (boundLt q))
  | ["bnleq", c] => (parseRat c).elim "bad" (fun q => toString (boundNotLeq q))
  | ["bnlt", c] => (parseRat c).elim "bad" (fun q => toString (boundNotLt q))
  | ["negdl", c] => c.toInt?.elim "bad" (fun k => toString (negateDL k))
  | _ => "bad"

end Driver
