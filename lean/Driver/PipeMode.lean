import Osmt.Pipe
import Driver.NumMode
/-! `pipe` mode: each input line is a percent-encoded byte string; prints `pc <frame>` lines, `pc-unbalanced`,
then `end`. -/
namespace Driver
open Osmt.Pipe

def pctEncode (cs : List Char) : String :=
  if cs.isEmpty then "%" else
  String.join (cs.map (fun c =>
    let n := c.toNat
    if n ≤ 32 || n ≥ 127 || c == '%' then
      let hex := "0123456789ABCDEF".toList
      "%" ++ String.ofList [hex[n / 16 % 16]!, hex[n % 16]!]
    else c.toString))

def pipeLine (line : String) : List String :=
  let raw := line.toList
  let bytes := if raw = ['%'] then [] else pctDecode raw
  let st := run {} bytes
  (st.frames.map (fun f => "pc " ++ pctEncode f)) ++ (if st.unbalanced then ["pc-unbalanced"] else []) ++ ["end"]

end Driver
