import Osmt.Names
import Driver.Parse
/-! `names` mode: same line protocol as harness/names_harness.cc. -/
namespace Driver
open Osmt.Names

def dumpNames (s : St) : String :=
  let elems := " ".intercalate (s.elems.map (fun p => s!"{p.1}={p.2}"))
  let present := s.elems.filterMap (fun p => (lookup s p.1).map (fun t => (toString p.1, t)))
  let sorted := (present.toArray.qsort (fun a b => a.1 < b.1)).toList.eraseDups
  let n2t := " ".intercalate (sorted.map (fun p => s!"{p.1}={p.2}"))
  let terms := ((s.t2n.map (·.1)).toArray.qsort (· < ·)).toList.eraseDups
  let t2n := " ".intercalate (terms.filterMap (fun t =>
    let ns := namesOf s t
    if ns.isEmpty then none else some (s!"{t}=[" ++ ",".intercalate (ns.map toString) ++ "]")))
  "elems:" ++ (if elems.isEmpty then "" else " " ++ elems) ++ " | n2t:" ++ (if n2t.isEmpty then "" else " " ++ n2t) ++
    " | t2n:" ++ (if t2n.isEmpty then "" else " " ++ t2n)

def runNames (lines : List String) : List String := Id.run do
  let mut s : St := {}
  let mut out : List String := []
  for l in lines do
    match words l with
    | ["insert", n, t] =>
      match n.toNat?, t.toNat? with
      | some n, some t =>
        let (s', ok) := tryInsert s n t
        s := s'
        out := (if ok then "1" else "0") :: out
      | _, _ => out := "bad" :: out
    | ["push"] => s := pushScope s; out := "ok" :: out
    | ["pop"] => s := popScope s; out := "ok" :: out
    | ["global", b] => s := { s with global := b == "1" }; out := "ok" :: out
    | ["dump"] => out := dumpNames s :: out
    | _ => pure ()
  return out.reverse

end Driver
