import Osmt
def main : IO Unit := IO.println "osmt-model"
