import Driver.Smt
import Driver.Fk
import Driver.ModelMode
import Driver.FramesMode
import Driver.RatMode
import Driver.MkMode
import Driver.IntMode
import Driver.NumMode
import Driver.NamesMode
import Driver.PipeMode
import Driver.ProofMode
import Driver.FrontMode
import Driver.StoreMode
import Driver.QuoteMode
import Driver.RngMode
import Driver.ItpMode
import Driver.SearchMode
/-! `osmt-model <mode> <file>`: line-protocol driver around the executable models and kernels. -/
def main (args : List String) : IO UInt32 := do
  match args with
  | ["smt", path] =>
    let txt ← IO.FS.readFile path
    IO.println (Driver.runSmt (txt.splitOn "\n"))
    return 0
  | ["model", path] =>
    let txt ← IO.FS.readFile path
    for l in Driver.runModel (txt.splitOn "\n") do IO.println l
    return 0
  | ["rat", path] =>
    let txt ← IO.FS.readFile path
    let mut out := ""
    for l in txt.splitOn "\n" do
      if l.trimAscii.toString != "" then out := out ++ Driver.ratLine l ++ "\n"
    IO.print out
    return 0
  | ["int", path] =>
    let txt ← IO.FS.readFile path
    let mut out := ""
    for l in txt.splitOn "\n" do
      if l.trimAscii.toString != "" then out := out ++ Driver.intLine l ++ "\n"
    IO.print out
    return 0
  | ["num", path] =>
    let txt ← IO.FS.readFile path
    let mut out := ""
    for l in txt.splitOn "\n" do
      if l != "" then out := out ++ Driver.numLine l ++ "\n"
    IO.print out
    return 0
  | ["names", path] =>
    let txt ← IO.FS.readFile path
    for l in Driver.runNames (txt.splitOn "\n") do IO.println l
    return 0
  | ["pipe", path] =>
    let txt ← IO.FS.readFile path
    for l in txt.splitOn "\n" do
      if l != "" then
        for o in Driver.pipeLine l do IO.println o
    return 0
  | ["proof", path] =>
    let txt ← IO.FS.readFile path
    for l in Driver.runProof (txt.splitOn "\n") do IO.println l
    return 0
  | ["mk", path] =>
    let txt ← IO.FS.readFile path
    for l in Driver.runMk (txt.splitOn "\n") do IO.println l
    return 0
  | ["frames", path] =>
    let txt ← IO.FS.readFile path
    for l in Driver.runFrames (txt.splitOn "\n") do IO.println l
    return 0
  | ["front", path] =>
    let txt ← IO.FS.readFile path
    for l in Driver.runFront (txt.splitOn "\n") do IO.println l
    return 0
  | ["store", path] =>
    let txt ← IO.FS.readFile path
    for l in Driver.runStore (txt.splitOn "\n") do IO.println l
    return 0
  | ["quote", path] =>
    let txt ← IO.FS.readFile path
    for l in Driver.runQuote (txt.splitOn "\n") do IO.println l
    return 0
  | ["rng", path] =>
    let txt ← IO.FS.readFile path
    for l in Driver.runRng (txt.splitOn "\n") do IO.println l
    return 0
  | ["itp", path] =>
    let txt ← IO.FS.readFile path
    for l in Driver.runItp (txt.splitOn "\n") do IO.println l
    return 0
  | ["search", path] =>
    let txt ← IO.FS.readFile path
    for l in Driver.runSearch (txt.splitOn "\n") do IO.println l
    return 0
  | ["itp2", path] =>
    let txt ← IO.FS.readFile path
    for l in Driver.runItp2 (txt.splitOn "\n") do IO.println l
    return 0
  | ["fk", path] =>
    let txt ← IO.FS.readFile path
    for l in Driver.runFk (txt.splitOn "\n") do IO.println l
    return 0
  | _ =>
    IO.eprintln "usage: osmt-model smt <file>"
    return 2
