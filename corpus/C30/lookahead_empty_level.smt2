(set-option :pure-lookahead true)
(set-logic QF_UF)
(push 1)
(check-sat)
