(set-logic QF_UF)
(echo "first")
(echo "x\y")
