(set-logic QF_UF)
(get-option :instance-name)
(check-sat)
