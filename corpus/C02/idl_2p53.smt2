; expect: unsat
(set-logic QF_IDL)
(declare-fun x () Int)
(declare-fun y () Int)
(assert (<= (- x y) 9007199254740992))
(assert (<= (- y x) (- 9007199254740993)))
(check-sat)
