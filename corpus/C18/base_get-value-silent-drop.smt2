; get-value of terms that cannot be built (a decimal in QF_LIA, a quantified term): Interpret::getValue only writes a
; verbosity>=2 comment for them and prints the remaining pairs. No diagnostic, exit status 0.
; Expected: an (error ...) response and exit status 1. Observed: "()" and "((x 1))", exit status 0.
(set-option :produce-models true)
(set-logic QF_LIA)
(declare-fun x () Int)
(assert (> x 0))
(check-sat)
(get-value (1.5))
(get-value (x (forall ((y Int)) true)))
