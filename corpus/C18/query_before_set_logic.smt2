(set-option :produce-unsat-cores true)
(get-unsat-core)
(set-logic QF_UF)
(check-sat)
