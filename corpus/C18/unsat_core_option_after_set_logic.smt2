
(set-option :minimal-unsat-cores true)

(set-logic QF_UF)

(declare-const b1 Bool)
(declare-const b2 Bool)
(set-option :produce-unsat-cores true)
(assert (! (and b1 b2) :named x1))
(assert (or b1 b2))
(assert (! (xor b1 b2) :named x3))
(assert b1)
(assert (! b2 :named a2))
(assert (not b1))

(check-sat)
(get-unsat-core)
