; An unknown symbol whose name contains a printf conversion: the diagnostic text is used as the format string
; of Interpret::notify_formatted (reportError(e.what())), so %s reads a vararg that was never passed.
; Expected: (error "Unknown symbol `%s '") and exit status 1. Observed on the unchanged tree: SIGSEGV (rc 139).
(set-logic QF_UF)
(assert %s)
