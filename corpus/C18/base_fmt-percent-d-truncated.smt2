; Same mechanism without a crash: the diagnostic is garbled/truncated ("(error "Unknown symbol `1" without the closing "))
(set-logic QF_UF)
(assert (%d%s true))
