(set-logic QF_UF)
(assert |a %d %d %d %d %d %d|)
(check-sat)
