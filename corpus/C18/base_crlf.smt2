(echo "zero")
(echo "one")
