; div is declared left-associative, so PtStore::lookupSymbol accepts it with ONE argument; ArithLogic::mkIntDiv
; (assert(args.size() == 2) compiled out) then reads args[1] beyond the vector.
; Expected: (error ...) about the arity and exit status 1 (as for (mod x) or (/ x)). Observed: SIGSEGV (rc 139).
(set-logic QF_LIA)
(declare-fun x () Int)
(declare-fun y () Int)
(assert (= y (div x)))
(check-sat)
