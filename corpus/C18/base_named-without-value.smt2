; (! t :named) without the symbol: the grammar accepts an attribute without value, Interpret::parseTerm (BANG_T)
; dereferences name_attr.children, which is null. Expected: an (error ...) response and exit status 1.
; Observed on the unchanged tree: SIGSEGV (rc 139).
(set-logic QF_UF)
(declare-fun p () Bool)
(assert (! p :named))
(check-sat)
