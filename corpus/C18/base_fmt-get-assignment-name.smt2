; Same root cause as fmt-percent-s-symbol.smt2, other call site: Interpret::getAssignment passes the assembled
; answer as the FORMAT of notify_formatted, so a term name containing %s reads a missing vararg.
; Expected: ((%s true)) and exit status 0. Observed: SIGSEGV (rc 139). With the name a%db garbage is printed: ((a1920213090b true)).
(set-option :produce-assignments true)
(set-logic QF_UF)
(declare-fun p () Bool)
(assert (! p :named %s))
(check-sat)
(get-assignment)
