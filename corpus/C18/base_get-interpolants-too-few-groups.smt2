; get-interpolants with fewer than two groups: Interpret::getInterpolants (assert(groups.size() >= 2) compiled out)
; reads partitionings[0] of an empty vector. Expected: (error ...) and exit status 1. Observed: SIGSEGV (rc 139).
(set-option :produce-interpolants true)
(set-logic QF_UF)
(declare-fun p () Bool)
(assert (! p :named A))
(assert (! (not p) :named B))
(check-sat)
(get-interpolants A)
