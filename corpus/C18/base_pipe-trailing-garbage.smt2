; PIPE MODE ONLY:  opensmt -p < pipe-trailing-garbage.smt2
; Text after the last balanced command is never handed to the parser (Interpret::interpPipe only parses up to a
; closing parenthesis at depth 0 and at EOF checks just par/inString/inQuotedSymbol).
; As a file argument the same text gives "syntax error" and exit status 1; through the pipe nothing is printed, rc 0.
(set-logic QF_UF)
(check-sat)
foo "bar" #b2
