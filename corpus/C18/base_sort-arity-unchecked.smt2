; Sort symbols are looked up by name only (SStore::peek ignores the arity): Int and Array applied to a wrong
; number of arguments are accepted silently, new sorts "(Int Int)", "(Array I)" are created.
; Expected: an (error ...) response for each of the two declarations and exit status 1. Observed: "sat", exit status 0.
(set-logic QF_AUFLIA)
(declare-sort I 0)
(declare-fun a () (Int Int))
(declare-fun b () (Array I))
(check-sat)
